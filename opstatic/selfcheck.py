"""setup_cmd: verify the tool chain (Python 3.12, parsable repository, fixtures fire)."""
import sys, time

def main() -> int:
    t0 = time.time()
    if sys.version_info < (3, 12):
        print("ANALYSIS-ERROR: opstatic needs Python >= 3.12 (the repository uses 3.12-only syntax)")
        return 2
    from .core.model import Program, AnalysisError
    from .core.resolve import Resolver
    try:
        p = Program()
        r = Resolver(p)
        cone = r.pipeline_cone()
    except AnalysisError as e:
        print("ANALYSIS-ERROR:", e)
        return 2
    print(f"opstatic selfcheck: {len(p.modules)} modules, {len(p.all_funcs)} functions, {len(p.all_classes)} classes, "
          f"namespace fix-point in {p.ns_rounds} rounds, pipeline cone {len(cone)} functions, {time.time()-t0:.2f}s")
    from . import fixtures_run
    return fixtures_run.main()

if __name__ == "__main__":
    sys.exit(main())

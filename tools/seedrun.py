#!/venv/bin/python
"""Run the registered checks against every seeded change (and the historical reverts of the fix: commits).

Each patch is applied to a scratch COPY of /repo's package (under /tmp/seedrun, removed afterwards);
/repo itself is not touched.  The checks read the copy through OPSTATIC_REPO and write their evidence
to a scratch directory.  Output: which check(s) caught which change."""
import concurrent.futures as cf, glob, json, os, shutil, subprocess, sys, tempfile

VERIF = os.path.dirname(os.path.dirname(os.path.abspath(__file__)))
sys.path.insert(0, VERIF)

def claimed():
    from opstatic.registry import CLAIMED
    return sorted(CLAIMED)

def run_one(args):
    sid, patch, props = args
    root = tempfile.mkdtemp(prefix=f"seedrun_{sid}_", dir="/tmp")
    try:
        shutil.copytree("/repo/OpenPinch", os.path.join(root, "OpenPinch"), ignore=shutil.ignore_patterns("__pycache__"))
        p = subprocess.run(["git", "apply", "--unsafe-paths", f"--directory={root}", patch], cwd=root, capture_output=True, text=True)
        if p.returncode != 0:
            p = subprocess.run(["patch", "-p1", "-s", "-i", patch], cwd=root, capture_output=True, text=True)
            if p.returncode != 0:
                return sid, None, f"patch failed: {p.stderr[-200:]}{p.stdout[-200:]}"
        res = {}
        for prop in props:
            env = dict(os.environ, OPSTATIC_REPO=root, OPSTATIC_EVIDENCE_DIR=os.path.join(root, "_ev"))
            q = subprocess.run([os.path.join(VERIF, "check"), prop, "--tier", "quick"], capture_output=True, text=True, env=env, cwd=VERIF)
            viol = [l for l in q.stdout.splitlines() if l.startswith("VIOLATION")]
            errs = [l for l in q.stdout.splitlines() if l.startswith("ANALYSIS-ERROR")]
            first = next((l for l in q.stdout.splitlines() if "[" in l and "]" in l and not l.startswith(("VIOLATION", "[C", "KNOWN", "ANALYSIS"))), "")
            res[prop] = {"exit": q.returncode, "violations": len(viol), "errors": len(errs), "first": first.strip()[:230]}
        return sid, res, ""
    finally:
        shutil.rmtree(root, ignore_errors=True)

def main():
    only = set(sys.argv[1:])
    props = claimed()
    jobs = []
    for d in sorted(glob.glob(os.path.join(VERIF, "seeded", "*", "patch.diff"))):
        sid = os.path.basename(os.path.dirname(d))
        jobs.append((sid, d, props))
    for d in sorted(glob.glob(os.path.join(VERIF, "seeded", "historical", "*.diff"))):
        jobs.append(("hist-" + os.path.basename(d)[7:-5], d, props))
    if only:
        jobs = [j for j in jobs if j[0] in only or j[0].split("-")[0] in only]
    out = {}
    with cf.ProcessPoolExecutor(max_workers=16) as ex:
        for sid, res, err in ex.map(run_one, jobs):
            if res is None:
                print(f"{sid:16s} ERROR {err}")
                continue
            caught = [p for p, r in res.items() if r["exit"] == 1]
            aerr = [p for p, r in res.items() if r["exit"] == 2]
            out[sid] = {"caught_by": caught, "analysis_error_in": aerr}
            tag = "CAUGHT " + ",".join(caught) if caught else ("ANALYSIS-ERROR " + ",".join(aerr) if aerr else "missed")
            print(f"{sid:16s} {tag}")
            for p in caught[:2]:
                print(f"{'':16s}   {p}: {res[p]['first']}")
    json.dump(out, open(os.path.join(VERIF, "seeded", "RESULTS.json"), "w"), indent=1, sort_keys=True)

if __name__ == "__main__":
    main()

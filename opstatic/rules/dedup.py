"""DEDUP-ID - input stream records are only ever de-duplicated by object identity.

The zone-tree builder may meet the same input record twice (once through its full zone path, once through a relative
path) and must keep it once; but two *distinct* records that merely look alike (same zone and name, same temperatures -
parallel branches, a hot and a cold stream with one label) are different streams and both must reach the zones.  So every
construct that can merge records of the input stream list -

  * a ``seen`` set guarding ``if key not in seen`` / ``if key in seen: continue``,
  * a dict / set comprehension or a ``d[key] = record`` store that keeps ONE record per key,

must use ``id(record)`` as the key.  A key built from the record's attributes is a definite violation: it merges every pair
of distinct records that agree on those attributes.  Records are found by taint from the parameters named ``*streams*`` of
the functions of the module that builds the zone tree (through containers, ``.get`` / ``.values`` / unpacking and loops).
"""
from __future__ import annotations

import ast
from typing import Dict, List, Optional, Set

from ..core.model import FuncInfo, Program
from ..core.report import CheckContext
from ..core.resolve import Resolver, body_nodes


def _names(e: ast.AST) -> Set[str]:
    return {n.id for n in ast.walk(e) if isinstance(n, ast.Name)}


class _Taint:
    """flow-insensitive: which local names hold (collections of) input stream records, and which hold single records"""

    def __init__(self, f: FuncInfo):
        self.f = f
        self.coll: Set[str] = {a.arg for a in f.params if "stream" in a.arg.lower() and a.arg.lower().endswith("s")}
        self.rec: Set[str] = set()
        nodes = body_nodes(f)
        for _ in range(6):
            before = (len(self.coll), len(self.rec))
            for n in nodes:
                if isinstance(n, (ast.For, ast.comprehension)):
                    if self.is_coll(n.iter):
                        for t in ast.walk(n.target):
                            if isinstance(t, ast.Name):
                                self.rec.add(t.id)
                elif isinstance(n, ast.Assign):
                    for t in n.targets:
                        if isinstance(t, ast.Name):
                            if self.is_coll(n.value):
                                self.coll.add(t.id)
                            elif self.is_rec(n.value):
                                self.rec.add(t.id)
                elif isinstance(n, ast.AnnAssign) and n.value is not None and isinstance(n.target, ast.Name):
                    if self.is_coll(n.value):
                        self.coll.add(n.target.id)
                elif isinstance(n, ast.Call) and isinstance(n.func, ast.Attribute) and n.func.attr in ("append", "add", "extend", "insert") and n.args:
                    # container.append(record)  /  table[key].append(record)
                    if self.is_rec(n.args[-1]) or self.is_coll(n.args[-1]):
                        base = n.func.value
                        while isinstance(base, (ast.Subscript, ast.Attribute)):
                            base = base.value
                        if isinstance(base, ast.Name) and isinstance(n.func.value, (ast.Name, ast.Subscript)):
                            self.coll.add(base.id)
            if (len(self.coll), len(self.rec)) == before:
                break

    def is_rec(self, e: ast.AST) -> bool:
        return isinstance(e, ast.Name) and e.id in self.rec

    def is_coll(self, e: ast.AST) -> bool:
        if isinstance(e, ast.Name):
            return e.id in self.coll
        if isinstance(e, ast.Starred):
            return self.is_coll(e.value)
        if isinstance(e, (ast.Tuple, ast.List, ast.Set)):
            return any(self.is_coll(x) or self.is_rec(x) for x in e.elts)
        if isinstance(e, ast.Subscript):
            return self.is_coll(e.value)
        if isinstance(e, ast.Call):
            if isinstance(e.func, ast.Attribute) and e.func.attr in ("get", "values", "copy", "pop", "setdefault"):
                return self.is_coll(e.func.value)
            if isinstance(e.func, ast.Name) and e.func.id in ("list", "tuple", "sorted", "reversed", "iter", "chain", "set", "frozenset") and e.args:
                return any(self.is_coll(a) for a in e.args)
            if isinstance(e.func, ast.Attribute) and e.func.attr in ("chain", "from_iterable") and e.args:
                return any(self.is_coll(a) for a in e.args)
        if isinstance(e, (ast.ListComp, ast.GeneratorExp, ast.SetComp)):
            return any(self.is_coll(g.iter) for g in e.generators) and (self.is_rec(e.elt) or isinstance(e.elt, ast.Name))
        if isinstance(e, ast.BinOp) and isinstance(e.op, ast.Add):
            return self.is_coll(e.left) or self.is_coll(e.right)
        if isinstance(e, ast.IfExp):
            return self.is_coll(e.body) or self.is_coll(e.orelse)
        return False


def _resolve_key(f: FuncInfo, k: ast.AST, depth: int = 0) -> ast.AST:
    """follow `key = <expr>` for a local assigned exactly once"""
    if isinstance(k, ast.Name) and depth < 3:
        defs = [n.value for n in body_nodes(f) if isinstance(n, ast.Assign) and any(isinstance(t, ast.Name) and t.id == k.id for t in n.targets)]
        if defs and len({ast.dump(d) for d in defs}) == 1:
            return _resolve_key(f, defs[0], depth + 1)
    return k


def _is_identity_key(k: ast.AST, recs: Set[str]) -> bool:
    return isinstance(k, ast.Call) and isinstance(k.func, ast.Name) and k.func.id == "id" and len(k.args) == 1


def _mentions_record(k: ast.AST, recs: Set[str]) -> bool:
    return bool(_names(k) & recs)


def check_identity_dedup(ctx: CheckContext, p: Program, r: Resolver, funcs: List[FuncInfo], rule: str = "DEDUP-ID") -> int:
    ctx.rule(rule, "every construct that keeps one input stream record per key (seen-set guard, dict/set comprehension, keyed store) uses id(record) as "
                   "the key: distinct records with equal attributes are never merged; records found by taint from the *streams* parameters")
    n = 0
    for f in funcs:
        if isinstance(f.node, ast.Lambda):
            continue
        t = _Taint(f)
        if not t.coll:
            continue
        nodes = body_nodes(f)
        added: Dict[str, List[ast.AST]] = {}
        for nd in nodes:
            if isinstance(nd, ast.Call) and isinstance(nd.func, ast.Attribute) and nd.func.attr == "add" and isinstance(nd.func.value, ast.Name) and len(nd.args) == 1:
                added.setdefault(nd.func.value.id, []).append(nd.args[0])
        appended: Set[str] = set()
        for nd in nodes:
            if isinstance(nd, ast.Call) and isinstance(nd.func, ast.Attribute) and nd.func.attr == "append" and isinstance(nd.func.value, ast.Name) and len(nd.args) == 1 \
                    and t.is_rec(nd.args[0]):
                appended.add(nd.func.value.id)
        for nd in nodes:
            # `record not in kept_records`: membership in a list of records compares the schema objects field by field (pydantic models are equal when
            # all their fields are), so a second record with the same values is taken for the first one
            if isinstance(nd, ast.Compare) and len(nd.ops) == 1 and isinstance(nd.ops[0], (ast.In, ast.NotIn)) and t.is_rec(nd.left) \
                    and isinstance(nd.comparators[0], ast.Name) and nd.comparators[0].id in appended:
                n += 1
                ctx.ob(rule, f"{f.qualname}:membership of a record in `{nd.comparators[0].id}`:{ast.unparse(nd)[:60]}", f"{f.module.relpath}:{nd.lineno}", False,
                       f"`{ast.unparse(nd)}` de-duplicates input stream records by VALUE (list membership uses ==, and schema objects compare field by field): "
                       f"two distinct streams with identical fields - equal parallel branches - are merged and one never reaches any zone")
        for nd in nodes:
            cands = []          # (kind, key expr, node)
            if isinstance(nd, ast.Compare) and len(nd.ops) == 1 and isinstance(nd.ops[0], (ast.In, ast.NotIn)) and isinstance(nd.comparators[0], ast.Name) \
                    and nd.comparators[0].id in added:
                cands.append((f"membership guard on `{nd.comparators[0].id}`", nd.left, nd))
            elif isinstance(nd, ast.DictComp) and any(t.is_coll(g.iter) for g in nd.generators) and _mentions_record(nd.value, t.rec | _comp_targets(nd)):
                cands.append(("dict comprehension keeping one record per key", nd.key, nd))
            elif isinstance(nd, ast.Assign) and len(nd.targets) == 1 and isinstance(nd.targets[0], ast.Subscript) and t.is_rec(nd.value):
                cands.append((f"store `{ast.unparse(nd.targets[0])} = {ast.unparse(nd.value)}` keeping one record per key", nd.targets[0].slice, nd))
            elif isinstance(nd, ast.Call) and isinstance(nd.func, ast.Attribute) and nd.func.attr == "setdefault" and len(nd.args) == 2 and t.is_rec(nd.args[1]):
                cands.append((f"`{ast.unparse(nd)[:60]}` keeping the first record per key", nd.args[0], nd))
            for kind, key, node in cands:
                recs = t.rec | (_comp_targets(node) if isinstance(node, ast.DictComp) else set())
                k = _resolve_key(f, key)
                if not _mentions_record(k, recs):
                    continue                      # not a key of a stream record (zone paths, names of zones ...)
                n += 1
                ok = _is_identity_key(k, recs)
                ctx.ob(rule, f"{f.qualname}:{kind.split('`')[0].strip()}:{ast.unparse(k)[:60]}", f"{f.module.relpath}:{node.lineno}", ok,
                       "" if ok else f"{kind}: input stream records are de-duplicated by `{ast.unparse(k)[:80]}` instead of their identity - two distinct "
                                     f"streams that agree on it are merged and one never reaches any zone")
    return n


def _comp_targets(nd: ast.AST) -> Set[str]:
    out: Set[str] = set()
    for g in getattr(nd, "generators", []):
        out |= {x.id for x in ast.walk(g.target) if isinstance(x, ast.Name)}
    return out

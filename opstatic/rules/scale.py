"""SCALE - temperature-scale typing with flag propagation (C05).

A two-point phantom type sigma in {S (shifted), R (real)} is attached to problem tables, to their
temperature column and to arrays of stream temperature bounds.  Boolean scale flags are propagated
context-sensitively as constants from the pipeline roots; an omitted argument takes the callee's
default.  Obligation: no comparison or subtraction mixes temperatures of different scales."""
from __future__ import annotations

import ast
from dataclasses import dataclass
from typing import Dict, List, Optional, Tuple

from ..core.flow import Flow
from ..core.model import AnalysisError, ClassInfo, FuncInfo, Program
from ..core.report import CheckContext, norm_stmt
from ..core.resolve import Resolver, body_nodes
from . import derived as derived_rule

# ---- abstract values (hashable tuples) -----------------------------------------------------------
OTHER = ("other",)
T, F_, TOP = True, False, None


def Flag(v):
    return ("flag", v)


def Table(s):
    return ("table", s)


def Temp(s):
    return ("temp", s)


def Tup(vs):
    return ("tuple", tuple(vs))


def Dict_(tscale):
    """dict literal whose T-column entry has the given scale (or None)"""
    return ("dict", tscale)


def kind(v):
    return v[0]


def elem_of(v):
    """abstract element obtained by iterating over v"""
    if kind(v) == "temp":
        return v
    if kind(v) == "tuple" and v[1] and all(kind(x) == "temp" for x in v[1]):
        out = v[1][0]
        for x in v[1][1:]:
            out = vjoin(out, x)
        return out
    return OTHER


def vjoin(a, b):
    if a == b:
        return a
    if a is None:
        return b
    if b is None:
        return a
    if kind(a) == kind(b):
        if kind(a) in ("table", "temp", "dict"):
            return (kind(a), "?")
        if kind(a) == "flag":
            return Flag(TOP)
        if kind(a) == "tuple" and len(a[1]) == len(b[1]):
            return Tup([vjoin(x, y) for x, y in zip(a[1], b[1])])
    # None-able scalars: joining a temp with `other` (e.g. a None default) keeps the temp's scale
    if kind(a) == "temp" and b == OTHER:
        return a
    if kind(b) == "temp" and a == OTHER:
        return b
    if kind(a) == "table" and b == OTHER:
        return a
    if kind(b) == "table" and a == OTHER:
        return b
    return OTHER


NP_PASSTHROUGH = {"array", "asarray", "sort", "unique", "round", "around", "copy", "atleast_1d", "flip", "flipud", "ravel", "squeeze",
                  "concatenate", "append", "insert", "hstack", "vstack", "maximum", "minimum", "clip", "full_like", "where", "delete", "abs"}
METH_PASSTHROUGH = {"round", "copy", "tolist", "to_list", "flatten", "ravel", "astype", "min", "max", "item", "squeeze", "reshape", "T", "mean"}
BUILTIN_PASSTHROUGH = {"sorted", "set", "list", "tuple", "reversed", "min", "max", "float", "iter", "next"}


@dataclass
class Finding:
    chain: List[str]
    func: FuncInfo
    node: ast.AST
    left: tuple
    right: tuple
    ctx: str


class ScaleAnalysis:
    MAX_DEPTH = 14

    def __init__(self, p: Program, r: Resolver):
        self.p, self.r = p, r
        self.memo: Dict[tuple, object] = {}
        self.inprogress: set = set()
        self.findings: Dict[Tuple[str, str], Finding] = {}
        self.comparisons_checked: Dict[Tuple[str, str], bool] = {}
        self.calls_analysed = 0
        self.unresolved_scale = 0
        self.stack: List[str] = []
        self.selectors: Dict[Tuple[str, str], dict] = {}
        self.role_obs: List[tuple] = []
        stream = p.find_class("Stream")
        pt = p.find_class("ProblemTable")
        if stream is None or pt is None:
            raise AnalysisError("Stream / ProblemTable class not found")
        self.pt_cls = pt
        self.stream_cls = stream
        self.star_props, self.plain_props = self._stream_scale_props(stream)
        lab = p.find_class("ProblemTableLabel")
        if lab is None or "T" not in lab.class_attrs:
            raise AnalysisError("ProblemTableLabel.T not found")
        self.label_cls = lab

    # ---- which stream properties are shifted / real (derived from the Stream class itself)
    def _stream_scale_props(self, st: ClassInfo):
        sup, tar = derived_rule.getter_field(st, "t_supply"), derived_rule.getter_field(st, "t_target")
        dtc = derived_rule.getter_field(st, "dt_cont")
        star, plain = set(), set()
        field_forms: Dict[str, set] = {}
        for nm, f in st.methods.items():
            me = "self"
            for a, val, _ in derived_rule._assigns(f, me):
                lf = derived_rule.linear_form(val, me)
                if lf is not None:
                    field_forms.setdefault(a, set()).add(tuple(sorted(lf)))
        # closure: a field is 'shifted' if some defining form mentions dt_cont (directly or via a shifted field)
        shifted_fields = set()
        changed = True
        while changed:
            changed = False
            for fld, forms in field_forms.items():
                if fld in shifted_fields:
                    continue
                for form in forms:
                    if dtc in form or any(x in shifted_fields for x in form):
                        shifted_fields.add(fld)
                        changed = True
        real_fields = {fld for fld, forms in field_forms.items() if fld not in shifted_fields
                       and all(set(form) <= {sup, tar, "1"} | {x for x in field_forms if x not in shifted_fields} for form in forms)} | {sup, tar}
        for pn, f in st.methods.items():
            if f.is_property:
                fld = derived_rule.getter_field(st, pn)
                if fld in shifted_fields:
                    star.add(pn)
                elif fld in real_fields and fld not in (dtc,):
                    if fld in (sup, tar) or fld in field_forms:
                        plain.add(pn)
        if not star or not ({"t_min", "t_max"} <= plain):
            raise AnalysisError(f"could not derive shifted/real stream properties (star={sorted(star)}, plain={sorted(plain)})")
        plain &= {"t_min", "t_max", "t_supply", "t_target"}
        return star, plain

    # ---- entry
    def analyse_root(self, f: FuncInfo):
        args = {a.arg: OTHER for a in f.params}
        self.stack = []
        return self.call(f, args, closure=None, site="<root>")

    def call(self, f: FuncInfo, args: Dict[str, tuple], closure: Optional[dict], site: str):
        key = (f, tuple(sorted(args.items())), tuple(sorted(closure.items())) if closure else None)
        if key in self.memo:
            return self.memo[key]
        if key in self.inprogress or len(self.stack) > self.MAX_DEPTH:
            return OTHER
        self.inprogress.add(key)
        self.calls_analysed += 1
        flags = ", ".join(f"{k}={v[1]}" for k, v in sorted(args.items()) if kind(v) == "flag" and v[1] is not TOP)
        tabs = ", ".join(f"{k}:{kind(v)}[{v[1]}]" for k, v in sorted(args.items()) if kind(v) in ("table", "temp"))
        self.stack.append(f"{f.qualname.split(':')[1]}({'; '.join(x for x in (flags, tabs) if x)})")
        fl = _ScaleFlow(self, f, closure or {})
        env = dict(args)
        fl.run(f.node, env)
        self.stack.pop()
        self.inprogress.discard(key)
        ret = fl.ret if fl.ret is not None else OTHER
        self.memo[key] = ret
        return ret

    def record(self, f: FuncInfo, node: ast.AST, l, rr, what: str):
        k = (f.qualname, norm_stmt(node))
        mixed = l[1] in ("S", "R") and rr[1] in ("S", "R") and l[1] != rr[1]
        if l[1] == "?" or rr[1] == "?":
            self.unresolved_scale += 1
            return
        prev = self.comparisons_checked.get(k, True)
        self.comparisons_checked[k] = prev and not mixed
        if mixed and k not in self.findings:
            self.findings[k] = Finding(list(self.stack), f, node, l, rr, what)


class _ScaleFlow(Flow):
    def __init__(self, an: ScaleAnalysis, f: FuncInfo, closure: dict):
        self.an, self.f, self.closure = an, f, closure
        self.ret = None

    def copy(self, s):
        return dict(s)

    def join(self, a, b):
        out = {}
        for k in set(a) | set(b):
            if k in a and k in b:
                out[k] = vjoin(a[k], b[k])
            else:
                out[k] = a.get(k, b.get(k))
        return out

    # -------------------------------------------------------------- helpers
    def _is_T_key(self, e: ast.AST) -> Optional[bool]:
        """True if the expression denotes the temperature column label, False if another label, None if unknown."""
        an, f = self.an, self.f
        node = e
        if isinstance(node, ast.Attribute) and node.attr == "value":
            node = node.value
        b = an.r.resolve_static(f, f.module, node) if isinstance(node, (ast.Name, ast.Attribute)) else None
        if b is not None and b.kind == "classattr" and b.target[0] is an.label_cls:
            return b.target[1] == "T"
        if isinstance(e, ast.Constant) and isinstance(e.value, str):
            tv = an.label_cls.class_attrs.get("T")
            return isinstance(tv, ast.Constant) and tv.value == e.value
        if isinstance(e, ast.Name):
            # parameter with a default such as  col_T: str = PT.T.value
            d = self.f.default_of(e.id)
            if d is not None:
                return self._is_T_key(d)
        return None

    def flag_of(self, e: ast.AST, s) -> Optional[bool]:
        if isinstance(e, ast.Constant):
            if isinstance(e.value, bool):
                return e.value
            if isinstance(e.value, (int,)) :
                return bool(e.value)
            return None
        if isinstance(e, ast.UnaryOp) and isinstance(e.op, ast.Not):
            v = self.flag_of(e.operand, s)
            return None if v is None else (not v)
        if isinstance(e, ast.Name):
            v = s.get(e.id, self.closure.get(e.id))
            if v is not None and kind(v) == "flag":
                return v[1]
            return None
        if isinstance(e, ast.Compare) and len(e.ops) == 1 and isinstance(e.ops[0], (ast.Eq, ast.Is, ast.NotEq, ast.IsNot)) \
                and isinstance(e.comparators[0], ast.Constant) and isinstance(e.comparators[0].value, bool):
            v = self.flag_of(e.left, s)
            if v is None:
                return None
            r_ = (v == e.comparators[0].value)
            return r_ if isinstance(e.ops[0], (ast.Eq, ast.Is)) else (not r_)
        return None

    # -------------------------------------------------------------- expressions
    def ev(self, e: ast.AST, s) -> tuple:
        an, f = self.an, self.f
        if e is None:
            return OTHER
        if isinstance(e, ast.Constant):
            if isinstance(e.value, bool):
                return Flag(e.value)
            return OTHER
        if isinstance(e, ast.Name):
            if e.id in s:
                return s[e.id]
            if e.id in self.closure:
                return self.closure[e.id]
            return OTHER
        if isinstance(e, ast.Attribute):
            if e.attr in an.star_props and not self._is_table(e.value, s):
                self.ev(e.value, s)
                return Temp("S")
            if e.attr in an.plain_props and not self._is_table(e.value, s):
                self.ev(e.value, s)
                return Temp("R")
            base = self.ev(e.value, s)
            if e.attr in ("T",) and kind(base) == "temp":
                return base
            return OTHER
        if isinstance(e, ast.Subscript):
            base_node = e.value
            # table.col[K] / table.loc[i, K] / table[K]
            if isinstance(base_node, ast.Attribute) and base_node.attr in ("col", "loc", "iloc", "cols"):
                tb = self.ev(base_node.value, s)
                if kind(tb) == "table":
                    keynode = e.slice
                    if isinstance(keynode, ast.Tuple) and len(keynode.elts) == 2:
                        keynode = keynode.elts[1]
                    isT = self._is_T_key(keynode)
                    if isT:
                        return Temp(tb[1])
                    return OTHER
            base = self.ev(base_node, s)
            self.ev(e.slice, s) if not isinstance(e.slice, ast.Slice) else [self.ev(x, s) for x in (e.slice.lower, e.slice.upper, e.slice.step) if x is not None]
            if kind(base) == "table":
                # table[[K1, K2]] -> sub-table with the same scale ; table[K_T] -> sub-table
                return base
            if kind(base) == "temp":
                return base
            if kind(base) == "tuple" and isinstance(e.slice, ast.Constant) and isinstance(e.slice.value, int) and -len(base[1]) <= e.slice.value < len(base[1]):
                return base[1][e.slice.value]
            if kind(base) == "dict":
                isT = self._is_T_key(e.slice)
                if isT and base[1]:
                    return Temp(base[1])
            return OTHER
        if isinstance(e, ast.Tuple):
            return Tup([self.ev(x, s) for x in e.elts])
        if isinstance(e, (ast.List, ast.Set)):
            vs = [self.ev(x, s) for x in e.elts]
            temps = [v for v in vs if kind(v) == "temp"]
            if temps and len(temps) == len(vs):
                out = temps[0]
                for v in temps[1:]:
                    out = vjoin(out, v)
                return out
            return OTHER
        if isinstance(e, ast.Dict):
            tscale = None
            for k, v in zip(e.keys, e.values):
                val = self.ev(v, s)
                if k is not None and self._is_T_key(k):
                    tscale = val[1] if kind(val) == "temp" else "?"
            return Dict_(tscale)
        if isinstance(e, (ast.ListComp, ast.SetComp, ast.GeneratorExp)):
            s2 = dict(s)
            for g in e.generators:
                it = self.ev(g.iter, s2)
                self._bind(g.target, elem_of(it), s2)
                for c in g.ifs:
                    self.ev(c, s2)
            el = self.ev(e.elt, s2)
            if kind(el) == "tuple":
                ts = [v for v in el[1] if kind(v) == "temp"]
                if ts and len(ts) == len(el[1]):
                    out = ts[0]
                    for v in ts[1:]:
                        out = vjoin(out, v)
                    return out
            return el if kind(el) == "temp" else OTHER
        if isinstance(e, ast.DictComp):
            return OTHER
        if isinstance(e, ast.IfExp):
            fv = self.flag_of(e.test, s)
            self.ev(e.test, s)
            if fv is True:
                return self.ev(e.body, s)
            if fv is False:
                return self.ev(e.orelse, s)
            return vjoin(self.ev(e.body, s), self.ev(e.orelse, s))
        if isinstance(e, ast.BoolOp):
            out = None
            for v in e.values:
                out = vjoin(out, self.ev(v, s))
            return out if out is not None else OTHER
        if isinstance(e, ast.UnaryOp):
            v = self.ev(e.operand, s)
            if isinstance(e.op, ast.Not):
                fv = self.flag_of(e, s)
                return Flag(fv)
            return v if kind(v) == "temp" and isinstance(e.op, (ast.USub, ast.UAdd)) else OTHER
        if isinstance(e, ast.BinOp):
            l, rr = self.ev(e.left, s), self.ev(e.right, s)
            if kind(l) == "temp" and kind(rr) == "temp":
                if isinstance(e.op, ast.Sub):
                    an.record(self.f, e, l, rr, "subtraction")
                    return OTHER
                if isinstance(e.op, ast.Add):
                    return OTHER
                return OTHER
            if isinstance(e.op, (ast.Add, ast.Sub)):
                if kind(l) == "temp" and kind(rr) != "table":
                    return l
                if kind(rr) == "temp" and isinstance(e.op, ast.Add) and kind(l) != "table":
                    return rr
            if isinstance(e.op, ast.Add) and kind(l) == "table":
                return l
            return OTHER
        if isinstance(e, ast.Compare):
            vals = [self.ev(e.left, s)] + [self.ev(c, s) for c in e.comparators]
            for i, op in enumerate(e.ops):
                a, b = vals[i], vals[i + 1]
                if kind(a) == "temp" and kind(b) == "temp" and isinstance(op, (ast.Lt, ast.LtE, ast.Gt, ast.GtE, ast.Eq, ast.NotEq)):
                    an.record(self.f, e, a, b, "comparison")
            fv = self.flag_of(e, s)
            return Flag(fv)
        if isinstance(e, ast.Call):
            return self._call(e, s)
        if isinstance(e, ast.Starred):
            return self.ev(e.value, s)
        if isinstance(e, ast.NamedExpr):
            v = self.ev(e.value, s)
            self._bind(e.target, v, s)
            return v
        if isinstance(e, (ast.JoinedStr, ast.FormattedValue, ast.Lambda)):
            return OTHER
        return OTHER

    def _is_table(self, e, s) -> bool:
        return isinstance(e, ast.Name) and kind(s.get(e.id, self.closure.get(e.id, OTHER))) == "table"

    def _call(self, c: ast.Call, s) -> tuple:
        an, f = self.an, self.f
        fn = c.func
        argv = [self.ev(a, s) for a in c.args]
        kwv = {k.arg: self.ev(k.value, s) for k in c.keywords if k.arg}
        tg = an.r.resolve_call(f, c)
        # ---- constructor of the table class
        for t in tg:
            if isinstance(t, ClassInfo) and t is an.pt_cls:
                d = argv[0] if argv else kwv.get("data_input", OTHER)
                if kind(d) == "dict":
                    return Table(d[1] or "?")
                return Table("?")
        # ---- methods on a table value
        if isinstance(fn, ast.Attribute):
            recv = self.ev(fn.value, s)
            if kind(recv) == "table":
                if fn.attr == "pinch_temperatures":
                    return Tup([Temp(recv[1]), Temp(recv[1])])
                if fn.attr in ("copy",):
                    return recv
                if fn.attr in ("to_list", "tolist"):
                    # table[[T]].to_list(): a single-column sub-table of T is a temperature list
                    if isinstance(fn.value, ast.Subscript) and self._is_T_key(fn.value.slice):
                        return Temp(recv[1])
                    if c.args and self._is_T_key(c.args[0]):
                        return Temp(recv[1])
                    return OTHER
                # other methods: analysed as package calls below (scale of self is carried as the receiver)
            if kind(recv) == "temp" and fn.attr in METH_PASSTHROUGH:
                return recv
            if kind(recv) == "temp" and fn.attr in ("extend", "append"):
                return OTHER
        # ---- library passthrough
        for t in tg:
            if isinstance(t, str) and t.startswith("ext:numpy.") and t.split(".")[-1] in NP_PASSTHROUGH:
                temps = [v for v in argv if kind(v) == "temp"]
                if temps:
                    out = temps[0]
                    for v in temps[1:]:
                        out = vjoin(out, v)
                    return out
                return OTHER
            if isinstance(t, str) and t.startswith("builtin:") and t.split(":")[1] in BUILTIN_PASSTHROUGH:
                temps = [v for v in argv if kind(v) == "temp"]
                if temps:
                    return temps[0]
                return OTHER
            if isinstance(t, str) and t in ("builtin:isinstance",):
                return Flag(TOP)
        # ---- package functions: context-sensitive analysis
        ret = None
        for t in tg:
            callee = t if isinstance(t, FuncInfo) else None
            if callee is None or isinstance(callee.node, ast.Lambda):
                continue
            bound = isinstance(fn, ast.Attribute) and callee.cls is not None and callee.parent is None and not callee.is_static
            pos = callee.pos_params
            args: Dict[str, tuple] = {}
            off = 0
            if bound and pos:
                args[pos[0]] = self.ev(fn.value, s)
                off = 1
            for i, v in enumerate(argv):
                if i + off < len(pos):
                    args[pos[i + off]] = v
            for k, v in kwv.items():
                args[k] = v
            # defaults for omitted parameters
            for a in callee.params:
                if a.arg not in args:
                    d = callee.default_of(a.arg)
                    if isinstance(d, ast.Constant) and isinstance(d.value, bool):
                        args[a.arg] = Flag(d.value)
                    else:
                        args[a.arg] = OTHER
            closure = None
            if callee.parent is not None:
                # nested function: free variables see the owner's current environment
                closure = {k: v for k, v in {**self.closure, **s}.items() if v != OTHER}
            an.stack.append(f"  -> call at {f.module.relpath}:{c.lineno}: {norm_stmt(c)[:110]}")
            rv = an.call(callee, args, closure, site=f"{f.module.relpath}:{c.lineno}")
            an.stack.pop()
            ret = rv if ret is None else vjoin(ret, rv)
            # role observations (S4)
            for pn, v in args.items():
                if kind(v) == "table":
                    an.role_obs.append((callee, pn, v[1], f, c))
        if ret is not None:
            return ret
        return OTHER

    # -------------------------------------------------------------- statements
    def _bind(self, tgt, v, s):
        if isinstance(tgt, ast.Name):
            s[tgt.id] = v
        elif isinstance(tgt, (ast.Tuple, ast.List)):
            if kind(v) == "tuple" and len(v[1]) == len(tgt.elts):
                for e, x in zip(tgt.elts, v[1]):
                    self._bind(e, x, s)
            else:
                for e in tgt.elts:
                    self._bind(e, v if kind(v) == "temp" else OTHER, s)
        elif isinstance(tgt, ast.Starred):
            self._bind(tgt.value, v, s)

    def transfer(self, st, s):
        if isinstance(st, (ast.FunctionDef, ast.AsyncFunctionDef, ast.ClassDef)):
            return s
        s = dict(s)
        if isinstance(st, ast.Assign):
            v = self.ev(st.value, s)
            for t in st.targets:
                self._bind(t, v, s)
                if isinstance(t, ast.Name) and kind(v) == "table":
                    self.an.role_obs.append((None, t.id, v[1], self.f, st))
        elif isinstance(st, ast.AnnAssign):
            if st.value is not None:
                self._bind(st.target, self.ev(st.value, s), s)
        elif isinstance(st, ast.AugAssign):
            v = self.ev(st.value, s)
            if isinstance(st.target, ast.Name):
                cur = s.get(st.target.id, OTHER)
                if kind(cur) == "temp" and kind(v) == "temp" and isinstance(st.op, ast.Sub):
                    self.an.record(self.f, st, cur, v, "subtraction")
        elif isinstance(st, ast.Return):
            v = self.ev(st.value, s) if st.value is not None else OTHER
            self.ret = v if self.ret is None else vjoin(self.ret, v)
        elif isinstance(st, ast.Expr):
            self.ev(st.value, s)
        elif isinstance(st, (ast.Assert, ast.Raise, ast.Delete)):
            for c in ast.iter_child_nodes(st):
                if isinstance(c, ast.expr):
                    self.ev(c, s)
        return s

    def branch(self, test, s):
        s = dict(s)
        self.ev(test, s)
        fv = self.flag_of(test, s)
        if fv is True:
            return s, None
        if fv is False:
            return None, s
        return s, dict(s)

    def bind_loop_target(self, node, s):
        it = self.ev(node.iter, s)
        self._bind(node.target, elem_of(it), s)
        return s

    def enter_with(self, item, s):
        self.ev(item.context_expr, s)
        return s


# =====================================================================================================
def check_scale(ctx: CheckContext, p: Program, r: Resolver, rule: str = "SCALE"):
    ctx.rule(rule, "no comparison or subtraction relates a temperature of the shifted scale to one of the real scale, on any call chain from the "
                   "pipeline entry functions, with boolean scale flags propagated as constants and omitted arguments taking the callee's default (S2/S3); "
                   "the table bound to the real role is real and the other shifted (S4)")
    an = ScaleAnalysis(p, r)
    roots = []
    for qn in ("OpenPinch.analysis.direct_integration_entry:compute_direct_integration_targets",
               "OpenPinch.analysis.indirect_integration_entry:compute_indirect_integration_targets"):
        f = p.func(qn)
        if f is None:
            raise AnalysisError(f"root {qn} not found")
        roots.append(f)
    for f in roots:
        an.analyse_root(f)
    ctx.info["scale_roots"] = [f.qualname for f in roots]
    ctx.info["abstract_calls_analysed"] = an.calls_analysed
    ctx.info["shifted_stream_properties"] = sorted(an.star_props)
    ctx.info["real_stream_properties"] = sorted(an.plain_props)
    ctx.info["operand_pairs_with_unknown_scale"] = an.unresolved_scale
    for (q, txt), ok in sorted(an.comparisons_checked.items()):
        if ok:
            fobj = p.func(q)
            ctx.ob(rule, f"{q}:{txt}", fobj.loc if fobj else q, True)
    for (q, txt), fd in sorted(an.findings.items()):
        chain = [x for x in fd.chain]
        ctx.ob(rule, f"{q}:{txt}", f"{fd.func.module.relpath}:{fd.node.lineno}", False,
               f"{fd.ctx} of a {('shifted' if fd.left[1] == 'S' else 'real')}-scale temperature with a "
               f"{('shifted' if fd.right[1] == 'S' else 'real')}-scale temperature: {txt}",
               call_chain=" | ".join(chain))
    # ---- S4: role of tables
    seen = set()
    for callee, name, sigma, f, node in an.role_obs:
        if sigma not in ("S", "R"):
            continue
        want = None
        if name.endswith("_real") or name == "pt_real":
            want = "R"
        elif name == "pt" and callee is not None and "pt_real" in [a.arg for a in callee.params]:
            want = "S"
        elif name == "pt" and callee is None and any(isinstance(n, ast.Name) and n.id == "pt_real" for n in body_nodes(f)):
            want = "S"
        if want is None:
            continue
        k = (f.qualname, name, norm_stmt(node)[:100], callee.qualname if callee else "")
        if k in seen:
            continue
        seen.add(k)
        ok = sigma == want
        ctx.ob(rule + "-ROLE", f"{f.qualname}:{name}@{norm_stmt(node)[:90]}", f"{f.module.relpath}:{node.lineno}", ok,
               "" if ok else f"'{name}' {'of ' + callee.name if callee else ''} is bound to a {'shifted' if sigma == 'S' else 'real'}-scale table "
                             f"but its role requires the {'shifted' if want == 'S' else 'real'} scale")
    return an


def check_graph_roles(ctx: CheckContext, p: Program, r: Resolver, rule: str = "SCALE-GRAPH"):
    """Graph types that come in (X, 'Shifted X') or (X, 'X (Real)') pairs are sliced from the matching table variable."""
    ctx.rule(rule, "in the graph-slice producers, 'Shifted X' / X graph types are taken from the shifted table and X / 'X (Real)' from the real table")
    gt = p.find_class("GraphType")
    if gt is None:
        raise AnalysisError("GraphType not found")
    vals = {nm: v.value for nm, v in gt.class_attrs.items() if isinstance(v, ast.Constant) and isinstance(v.value, str)}
    want: Dict[str, str] = {}
    for a, va in vals.items():
        for b, vb in vals.items():
            if vb == "Shifted " + va:
                want[a], want[b] = "real", "shifted"
            if vb == va + " (Real)":
                want[b] = "real"
                want.setdefault(a, "shifted")
    n = 0
    for f in p.all_funcs:
        if not ({"pt", "pt_real"} <= set(f.pos_params)):
            continue
        for node in body_nodes(f):
            if isinstance(node, ast.Dict):
                for k, v in zip(node.keys, node.values):
                    kn = k.value if isinstance(k, ast.Attribute) and k.attr == "value" else k
                    b = r.resolve_static(f, f.module, kn) if isinstance(kn, (ast.Name, ast.Attribute)) else None
                    if b is None or b.kind != "classattr" or b.target[0] is not gt or b.target[1] not in want:
                        continue
                    src = v.value if isinstance(v, ast.Subscript) else v
                    if not isinstance(src, ast.Name) or src.id not in ("pt", "pt_real"):
                        continue
                    n += 1
                    have = "real" if src.id == "pt_real" else "shifted"
                    ok = have == want[b.target[1]]
                    ctx.ob(rule, f"{f.qualname}:{gt.name}.{b.target[1]}", f"{f.module.relpath}:{k.lineno}", ok,
                           "" if ok else f"graph type {vals[b.target[1]]!r} is sliced from the {have} table, should be the {want[b.target[1]]} one")
    return n

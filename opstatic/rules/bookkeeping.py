"""Bookkeeping rules for C02 / C03 / C06 / C09:
 WRAP       negative-index wrap-around: an index or slice start whose lower bound is negative AND attained on a syntactic path
 PAIR-1     every duty assigned to a utility is booked against the running total that sizes the next level
 PAIR-2     generation/use matching removes the same bounded duty from both sides
 PAIR-SRC   paired hot/cold targets are read from the same table column (first / last row)
 ACC        zone summation feeds each accumulator once per sub-zone from the same-named attribute; per-utility sums are index-aligned
 NAME-MATCH positional arguments are not permuted against identically named parameters
 ROLE       hot/cold role of pinch rows and temperatures is preserved through packs, unpacks, calls and records"""
from __future__ import annotations

import ast
import re
from typing import Dict, List, Optional, Set, Tuple

from ..core.model import AnalysisError, ClassInfo, FuncInfo, Program
from ..core.report import CheckContext, norm_stmt
from ..core.resolve import Resolver, body_nodes
from ..core.idioms import aug_add

NEG_INF = -10**9


# =========================================================================================
# WRAP
# =========================================================================================
class IntBounds:
    """Witness values of integer expressions: concrete values the expression takes on some syntactic path
    (literal assignment, returned literal, range start), propagated through +/- constants, max/min, arguments
    and tuple returns.  May-information used only to REPORT (a negative witness); absence proves nothing."""
    CAP = 12

    def __init__(self, p: Program, r: Resolver):
        self.p, self.r = p, r
        self._callsites: Optional[Dict[FuncInfo, List[Tuple[FuncInfo, ast.Call]]]] = None
        self._memo: Dict[tuple, Dict[int, str]] = {}
        self._stack: Set[tuple] = set()

    def callsites(self, f: FuncInfo):
        if self._callsites is None:
            self._callsites = {}
            for g in self.p.all_funcs:
                if isinstance(g.node, ast.Lambda):
                    continue
                for call, tg in self.r.calls_of(g):
                    for t in tg:
                        if isinstance(t, FuncInfo):
                            self._callsites.setdefault(t, []).append((g, call))
        return self._callsites.get(f, [])

    def _cap(self, d: Dict[int, str]) -> Dict[int, str]:
        if len(d) <= self.CAP:
            return d
        keys = sorted(d)[: self.CAP]
        return {k: d[k] for k in keys}

    def wit(self, f: FuncInfo, e: ast.AST, depth: int = 0) -> Dict[int, str]:
        """{value: how it arises}"""
        if e is None or depth > 14:
            return {}
        if isinstance(e, ast.Constant) and isinstance(e.value, int) and not isinstance(e.value, bool):
            return {e.value: f"literal {e.value} ({f.module.relpath}:{getattr(e, 'lineno', '?')})"}
        if isinstance(e, ast.UnaryOp) and isinstance(e.op, ast.USub):
            return {-k: f"-({v})" for k, v in self.wit(f, e.operand, depth + 1).items()}
        if isinstance(e, ast.BinOp) and isinstance(e.op, (ast.Add, ast.Sub)):
            l = self.wit(f, e.left, depth + 1)
            rr = self.wit(f, e.right, depth + 1)
            if isinstance(e.right, ast.Constant) and isinstance(e.right.value, int):
                c = e.right.value if isinstance(e.op, ast.Add) else -e.right.value
                return self._cap({k + c: f"{v} {'+' if c >= 0 else '-'} {abs(c)}" for k, v in l.items()})
            # sums of two variables are not combined: their witnesses may be correlated (i = 0 with sgn = +1, i = n-1 with sgn = -1)
            return {}
        if isinstance(e, ast.Call) and isinstance(e.func, ast.Name) and e.func.id in ("max", "min") and len(e.args) >= 2:
            sets = [self.wit(f, a, depth + 1) for a in e.args]
            consts = [next(iter(s_)) for s_, a in zip(sets, e.args) if isinstance(a, ast.Constant) and s_]
            others = [s_ for s_, a in zip(sets, e.args) if not isinstance(a, ast.Constant)]
            fn = max if e.func.id == "max" else min
            out: Dict[int, str] = {}
            for s_ in others:
                for k, v in s_.items():
                    val = fn([k] + consts)
                    out[val] = f"{e.func.id}({v}, {', '.join(map(str, consts))})" if consts else v
            return self._cap(out)
        if isinstance(e, ast.Call) and isinstance(e.func, ast.Name) and e.func.id == "int" and e.args:
            return self.wit(f, e.args[0], depth + 1)
        if isinstance(e, ast.IfExp):
            out = dict(self.wit(f, e.body, depth + 1))
            out.update(self.wit(f, e.orelse, depth + 1))
            return self._cap(out)
        if isinstance(e, ast.Name):
            key = (f, e.id)
            if key in self._memo:
                return self._memo[key]
            if key in self._stack:
                return {}
            self._stack.add(key)
            res = self._name_wit(f, e.id, depth)
            self._stack.discard(key)
            self._memo[key] = res
            return res
        return {}

    def _name_wit(self, f: FuncInfo, name: str, depth: int) -> Dict[int, str]:
        out: Dict[int, str] = {}
        for st in body_nodes(f):
            if isinstance(st, ast.Assign):
                for tg in st.targets:
                    if isinstance(tg, ast.Name) and tg.id == name:
                        out.update(self.wit(f, st.value, depth + 1))
                    elif isinstance(tg, (ast.Tuple, ast.List)):
                        for i, el in enumerate(tg.elts):
                            if isinstance(el, ast.Name) and el.id == name:
                                out.update(self._tuple_elem_wit(f, st.value, i, depth))
            elif isinstance(st, ast.For) and isinstance(st.target, ast.Name) and st.target.id == name:
                it = st.iter
                if isinstance(it, ast.Call) and isinstance(it.func, ast.Name) and it.func.id == "range" and it.args:
                    if len(it.args) == 1:
                        out[0] = f"range(...) starts at 0 ({f.module.relpath}:{st.lineno})"
                    elif not (len(it.args) == 3 and isinstance(it.args[2], ast.UnaryOp)):
                        out.update({k: f"range start {v}" for k, v in self.wit(f, it.args[0], depth + 1).items()})
            elif isinstance(st, ast.For) and isinstance(st.target, ast.Tuple):
                for i, el in enumerate(st.target.elts):
                    if isinstance(el, ast.Name) and el.id == name and i == 0 and isinstance(st.iter, ast.Call) and isinstance(st.iter.func, ast.Name) \
                            and st.iter.func.id == "enumerate":
                        out[0] = f"enumerate index starts at 0 ({f.module.relpath}:{st.lineno})"
        if name in [a.arg for a in f.params]:
            pos = f.pos_params
            for g, call in self.callsites(f):
                off = 1 if (isinstance(call.func, ast.Attribute) and f.cls is not None and f.parent is None and not f.is_static) else 0
                arg = None
                if name in pos:
                    i = pos.index(name) - off
                    if 0 <= i < len(call.args):
                        arg = call.args[i]
                for k in call.keywords:
                    if k.arg == name:
                        arg = k.value
                if arg is None:
                    d = f.default_of(name)
                    sub = self.wit(f, d, depth + 1) if d is not None else {}
                else:
                    sub = self.wit(g, arg, depth + 1)
                for k, v in sub.items():
                    out.setdefault(k, v + f" -> {f.name}({name}) at {g.module.relpath}:{call.lineno}")
        return self._cap(out)

    def _tuple_elem_wit(self, f: FuncInfo, value: ast.AST, i: int, depth: int) -> Dict[int, str]:
        if isinstance(value, (ast.Tuple, ast.List)) and i < len(value.elts):
            return self.wit(f, value.elts[i], depth + 1)
        out: Dict[int, str] = {}
        if isinstance(value, ast.Call):
            for t in self.r.resolve_call(f, value):
                if isinstance(t, FuncInfo) and not isinstance(t.node, ast.Lambda):
                    for rt in body_nodes(t):
                        if isinstance(rt, ast.Return) and isinstance(rt.value, ast.Tuple) and i < len(rt.value.elts):
                            for k, v in self.wit(t, rt.value.elts[i], depth + 1).items():
                                out.setdefault(k, v + f" returned by {t.name}()")
        return out


def _guard_names(f: FuncInfo, node: ast.AST) -> Set[str]:
    """names tested by enclosing if-statements / conditional expressions of `node`"""
    out: Set[str] = set()

    def walk(cur, guards):
        if cur is node:
            out.update(guards)
            return True
        for child in ast.iter_child_nodes(cur):
            g2 = guards
            if isinstance(cur, (ast.If, ast.IfExp, ast.While)) and child is not cur.test:
                g2 = guards | {x.id for x in ast.walk(cur.test) if isinstance(x, ast.Name)}
            if isinstance(child, (ast.FunctionDef, ast.AsyncFunctionDef, ast.ClassDef)):
                continue
            if walk(child, g2):
                return True
        return False
    walk(f.node, frozenset())
    return out


def check_wrap(ctx: CheckContext, p: Program, r: Resolver, funcs: List[FuncInfo], rule: str = "WRAP"):
    ctx.rule(rule, "an index or slice start that is a variable expression must not take a negative value on a syntactic path (witness values: literal / "
                   "returned literal / range start, propagated through arguments, tuple returns and +/- constants); max(..., 0) and dominating tests on the "
                   "index discharge it; sites without any witness are counted as undecided, never reported")
    ib = IntBounds(p, r)
    n = und = 0
    for f in funcs:
        if isinstance(f.node, ast.Lambda):
            continue
        for node in body_nodes(f):
            if not isinstance(node, ast.Subscript):
                continue
            sl = node.slice
            cands: List[Tuple[str, ast.AST]] = []
            parts = sl.elts if isinstance(sl, ast.Tuple) else [sl]
            for part in parts:
                if isinstance(part, ast.Slice):
                    if part.lower is not None:
                        cands.append(("slice start", part.lower))
                elif isinstance(part, (ast.Name, ast.BinOp)):
                    cands.append(("index", part))
            for kind_, e in cands:
                names = {x.id for x in ast.walk(e) if isinstance(x, ast.Name)}
                if not names:
                    continue
                if not any(isinstance(x, (ast.Name, ast.BinOp)) for x in [e]):
                    continue
                # only integer-looking index expressions (Name, Name +/- const)
                if isinstance(e, ast.BinOp) and not isinstance(e.op, (ast.Add, ast.Sub)):
                    continue
                ws = ib.wit(f, e)
                if not ws:
                    und += 1
                    continue
                n += 1
                guarded = bool(names & _guard_names(f, node))
                # a negative value that is a plain literal (-1 = "the last row") is the Python idiom, chosen on purpose; only a negative value that
                # comes out of arithmetic on a value that can be 0 (x - 1) is a wrap-around
                neg = sorted(k for k in ws if k < 0 and (" - " in ws[k] or " + " in ws[k]))
                ok = not neg or guarded
                ctx.ob(rule, f"{f.qualname}:{norm_stmt(node)}:{kind_}", f"{f.module.relpath}:{node.lineno}", ok,
                       "" if ok else f"{kind_} `{ast.unparse(e)}` can be {neg[0]} (witness: {ws[neg[0]]}); a negative {kind_} counts from the END of the array, "
                                     f"so `{ast.unparse(node)}` silently selects the wrong rows",
                       witnesses=sorted(ws), guarded=guarded)
    ctx.info["wrap_sites_with_unknown_bound"] = und
    return n


# =========================================================================================
# PAIR / ACC / NAME-MATCH
# =========================================================================================
def check_assignment_booking(ctx: CheckContext, p: Program, r: Resolver, rule: str = "PAIR-1"):
    """In a loop that sizes successive utility duties with a running total A (A is an argument of the call that computes q):
    every X.set_heat_flow(q) sits in the same block as `A += q` and vice versa."""
    ctx.rule(rule, "in the utility assignment loop each `u.set_heat_flow(q)` is paired, in the same block, with `Q_assigned += q` for the same q, where Q_assigned "
                   "is the running total passed to the routine that sizes q; the loop's early exit compares that total with the side's target")
    n = 0
    m = p.modules.get("OpenPinch.analysis.utility_targeting")
    if m is None:
        raise AnalysisError("utility_targeting module not found")
    for f in [x for x in p.all_funcs if x.module is m and not isinstance(x.node, ast.Lambda)]:
        for loop in [x for x in body_nodes(f) if isinstance(x, ast.For)]:
            sets = [c for c in ast.walk(loop) if isinstance(c, ast.Call) and isinstance(c.func, ast.Attribute) and c.func.attr == "set_heat_flow"]
            if not sets:
                continue
            # accumulator: name that is AugAssign-added in the loop and passed to a call whose result is the duty
            accs = [s.target.id for s in ast.walk(loop) if isinstance(s, ast.AugAssign) and isinstance(s.op, ast.Add) and isinstance(s.target, ast.Name)]
            duty_vars: Dict[str, str] = {}
            all_acc_candidates = set(accs)
            for s in ast.walk(loop):
                if isinstance(s, ast.Assign) and len(s.targets) == 1 and isinstance(s.targets[0], ast.Name) and isinstance(s.value, ast.Call):
                    argn = {a.id for a in s.value.args if isinstance(a, ast.Name)} | {k.value.id for k in s.value.keywords if isinstance(k.value, ast.Name)}
                    # running totals initialised before the loop and passed into the sizing call
                    for a in argn:
                        if any(isinstance(st, ast.Assign) and any(isinstance(t, ast.Name) and t.id == a for t in st.targets) and isinstance(st.value, ast.Constant)
                               and st.value.value in (0, 0.0) for st in body_nodes(f)):
                            duty_vars[s.targets[0].id] = a
                            all_acc_candidates.add(a)
            if not duty_vars:
                continue
            blocks: List[List[ast.stmt]] = []

            def collect(stmts):
                blocks.append(stmts)
                for st in stmts:
                    for fld in ("body", "orelse"):
                        sub = getattr(st, fld, None)
                        if isinstance(sub, list) and sub and isinstance(sub[0], ast.stmt):
                            collect(sub)
            collect(loop.body)
            for blk in blocks:
                for st in blk:
                    if isinstance(st, ast.Expr) and st.value in sets:
                        n += 1
                        q = st.value.args[0] if st.value.args else None
                        acc = duty_vars.get(q.id) if isinstance(q, ast.Name) else None
                        booked = acc is not None and any((aa := aug_add(s2)) is not None and isinstance(aa[0], ast.Name) and aa[0].id == acc
                                                         and isinstance(aa[1], ast.Name) and aa[1].id == q.id for s2 in blk)
                        ctx.ob(rule, f"{f.qualname}:{norm_stmt(st)}", f"{f.module.relpath}:{st.lineno}", booked,
                               "" if booked else f"duty {ast.unparse(q) if q else '?'} is assigned to a utility but not added to the running total "
                                                 f"'{acc or '/'.join(sorted(set(duty_vars.values())))}' in the same block: the next level is sized as if nothing had been assigned")
                    aa = aug_add(st)
                    if aa is not None and isinstance(aa[0], ast.Name) and aa[0].id in set(duty_vars.values()) and isinstance(aa[1], ast.Name):
                        n += 1
                        q = aa[1].id
                        assigned = any(isinstance(s2, ast.Expr) and s2.value in sets and s2.value.args and isinstance(s2.value.args[0], ast.Name)
                                       and s2.value.args[0].id == q for s2 in blk)
                        ctx.ob(rule, f"{f.qualname}:{norm_stmt(st)}", f"{f.module.relpath}:{st.lineno}", assigned,
                               "" if assigned else f"'{q}' is added to the running total but no utility receives it in the same block")
            # early exit compares the total with the limit
            brk = [x for x in ast.walk(loop) if isinstance(x, ast.If) and any(isinstance(y, ast.Break) for y in x.body)]
            for b in brk:
                names = {x.id for x in ast.walk(b.test) if isinstance(x, ast.Name)}
                ok = bool(names & set(duty_vars.values()))
                n += 1
                ctx.ob(rule, f"{f.qualname}:exit {norm_stmt(b.test)}", f"{f.module.relpath}:{b.lineno}", ok,
                       "" if ok else "the assignment loop's early exit does not test the running total")
    return n


def check_gen_use_matching(ctx: CheckContext, p: Program, r: Resolver, rule: str = "PAIR-2"):
    ctx.rule(rule, "generation/use matching subtracts the same amount Q from both utilities, and Q is min() of exactly those two duties (keeps Qh - Qc and non-negativity)")
    n = 0
    f = p.func("OpenPinch.analysis.indirect_integration_entry:_match_utility_gen_and_use_at_same_level")
    if f is None:
        raise AnalysisError("_match_utility_gen_and_use_at_same_level not found")
    calls = [c for c in body_nodes(f) if isinstance(c, ast.Call) and isinstance(c.func, ast.Attribute) and c.func.attr == "set_heat_flow"]
    recvs = []
    amounts = []
    for c in calls:
        recv = ast.unparse(c.func.value)
        a = c.args[0] if c.args else None
        ok = isinstance(a, ast.BinOp) and isinstance(a.op, ast.Sub) and ast.unparse(a.left) == f"{recv}.heat_flow" and isinstance(a.right, ast.Name)
        n += 1
        ctx.ob(rule, f"{f.qualname}:{norm_stmt(c)}", f"{f.module.relpath}:{c.lineno}", ok,
               "" if ok else f"{recv} is not reduced as `{recv}.heat_flow - Q`")
        if ok:
            recvs.append(recv)
            amounts.append(a.right.id)
    ok2 = len(recvs) == 2 and recvs[0] != recvs[1] and len(set(amounts)) == 1
    n += 1
    ctx.ob(rule, f"{f.qualname}:same-amount", f.loc, ok2, "" if ok2 else f"the two sides are not reduced by one common amount (receivers {recvs}, amounts {amounts})")
    if ok2:
        q = amounts[0]
        defs = [st for st in body_nodes(f) if isinstance(st, ast.Assign) and any(isinstance(t, ast.Name) and t.id == q for t in st.targets)]
        ok3 = len(defs) == 1 and isinstance(defs[0].value, ast.Call) and isinstance(defs[0].value.func, ast.Name) and defs[0].value.func.id == "min" \
            and sorted(ast.unparse(a) for a in defs[0].value.args) == sorted(f"{x}.heat_flow" for x in recvs)
        n += 1
        ctx.ob(rule, f"{f.qualname}:min", f"{f.module.relpath}:{defs[0].lineno if defs else f.node.lineno}", ok3,
               "" if ok3 else f"the matched amount '{q}' is not min() of exactly the two duties: one side can go negative or the balance Qh - Qc changes")
    return n


def check_pair_source(ctx: CheckContext, p: Program, r: Resolver, funcs: List[FuncInfo], rule: str = "PAIR-SRC"):
    ctx.rule(rule, "hot_utility_target / cold_utility_target that are read from a table come from the SAME table and column, first row for hot and last row for cold "
                   "(so that Qh - Qc is the net of one cascade)")
    n = 0

    def loc_parts(e: ast.AST):
        if isinstance(e, ast.Subscript) and isinstance(e.value, ast.Attribute) and e.value.attr in ("loc", "iloc") and isinstance(e.slice, ast.Tuple) and len(e.slice.elts) == 2:
            return ast.unparse(e.value.value), ast.unparse(e.slice.elts[0]), ast.unparse(e.slice.elts[1])
        return None
    for f in funcs:
        if isinstance(f.node, ast.Lambda):
            continue
        found: Dict[str, Tuple[tuple, ast.AST]] = {}
        for node in body_nodes(f):
            def which(nm):
                for suf in ("hot_utility_target", "cold_utility_target"):
                    if isinstance(nm, str) and nm.endswith(suf):
                        return suf
                return None
            if isinstance(node, ast.Assign) and len(node.targets) == 1 and isinstance(node.targets[0], ast.Name) and which(node.targets[0].id):
                lp = loc_parts(node.value)
                if lp:
                    found[which(node.targets[0].id)] = (lp, node)
            if isinstance(node, ast.Dict):
                for k, v in zip(node.keys, node.values):
                    if isinstance(k, ast.Constant) and which(k.value):
                        lp = loc_parts(v)
                        if lp:
                            found[which(k.value)] = (lp, v)
        if len(found) == 2:
            (th, rh, ch), nh = found["hot_utility_target"]
            (tc, rc, cc), nc = found["cold_utility_target"]
            n += 1
            ok = th == tc and ch == cc and rh == "0" and rc == "-1"
            ctx.ob(rule, f"{f.qualname}:hot/cold", f"{f.module.relpath}:{nh.lineno}", ok,
                   "" if ok else f"hot target is read from {th}[{rh}, {ch}] but cold target from {tc}[{rc}, {cc}]: the two are not the ends of one cascade")
    return n


from .accsum import check_zone_sum  # noqa: E402  (symbolic evaluation; replaces the shape-matching version)


def check_name_match(ctx: CheckContext, p: Program, r: Resolver, funcs: List[FuncInfo], rule: str = "NAME-MATCH"):
    ctx.rule(rule, "a positional argument that is a plain variable named exactly like one of the callee's parameters is passed in that parameter's position "
                   "(catches swapped hot/cold, pt/pt_real, target/limit arguments)")
    n = 0
    for f in funcs:
        if isinstance(f.node, ast.Lambda):
            continue
        for call, tg in r.calls_of(f):
            for t in tg:
                callee = t if isinstance(t, FuncInfo) else (r.find_method(t, "__init__") if isinstance(t, ClassInfo) else None)
                if callee is None or isinstance(callee.node, ast.Lambda):
                    continue
                off = 1 if (isinstance(t, ClassInfo) or (isinstance(call.func, ast.Attribute) and callee.cls is not None and callee.parent is None
                                                          and not callee.is_static)) else 0
                pos = callee.pos_params[off:]
                named = [(i, a.id) for i, a in enumerate(call.args) if isinstance(a, ast.Name)]
                hits = [(i, nm) for i, nm in named if nm in pos]
                if not hits:
                    continue
                n += 1
                bad = [(i, nm) for i, nm in hits if i < len(pos) and pos[i] != nm and pos.index(nm) != i]
                ok = not bad
                ctx.ob(rule, f"{f.qualname}:{norm_stmt(call)[:90]}", f"{f.module.relpath}:{call.lineno}", ok,
                       "" if ok else f"argument '{bad[0][1]}' is passed in position {bad[0][0] + 1} of {callee.name}(), whose parameter there is "
                                     f"'{pos[bad[0][0]]}' while '{bad[0][1]}' is parameter {pos.index(bad[0][1]) + 1}: arguments are permuted")
    return n


# =========================================================================================
# ROLE
# =========================================================================================
def role(name: str) -> Optional[str]:
    toks = re.split(r"[_\W]+", name.lower())
    h = "hot" in toks or name.lower().endswith("_h") or name.lower().startswith("hot")
    c = "cold" in toks or name.lower().endswith("_c") or name.lower().startswith("cold")
    if h and not c:
        return "hot"
    if c and not h:
        return "cold"
    return None


def expr_role(e: ast.AST) -> Optional[str]:
    roles = {role(x.id) for x in ast.walk(e) if isinstance(x, ast.Name)} | {role(x.attr) for x in ast.walk(e) if isinstance(x, ast.Attribute)} \
        | {role(x.value) for x in ast.walk(e) if isinstance(x, ast.Constant) and isinstance(x.value, str)}
    roles.discard(None)
    return roles.pop() if len(roles) == 1 else None


def _pinchy(s: str) -> bool:
    return "pinch" in s.lower()


def check_pinch_roles(ctx: CheckContext, p: Program, r: Resolver, funcs: List[FuncInfo], rule: str = "ROLE"):
    ctx.rule(rule, "along the chain pinch rows -> pinch temperatures -> entry functions -> result record -> serialised record, every tuple pack/unpack, positional "
                   "argument, keyword, dict entry, property and boolean side flag keeps the hot/cold role (role read from the identifiers)")
    n = 0
    for f in funcs:
        if isinstance(f.node, ast.Lambda):
            continue
        fpinchy = _pinchy(f.name)
        for node in body_nodes(f):
            # R1 tuple unpack from a call returning a tuple
            if isinstance(node, ast.Assign) and len(node.targets) == 1 and isinstance(node.targets[0], ast.Tuple) and isinstance(node.value, ast.Call):
                tg_names = [e.id if isinstance(e, ast.Name) else None for e in node.targets[0].elts]
                if not any(t and (_pinchy(t) or fpinchy) for t in tg_names):
                    continue
                for t in r.resolve_call(f, node.value):
                    if isinstance(t, FuncInfo) and not isinstance(t.node, ast.Lambda):
                        for rt in body_nodes(t):
                            if isinstance(rt, ast.Return) and isinstance(rt.value, ast.Tuple) and len(rt.value.elts) == len(tg_names):
                                for i, (tn, re_) in enumerate(zip(tg_names, rt.value.elts)):
                                    if tn is None:
                                        continue
                                    a, b = role(tn), expr_role(re_)
                                    if a and b:
                                        n += 1
                                        ok = a == b
                                        ctx.ob(rule, f"{f.qualname}:{tn}<-{t.name}[{i}]", f"{f.module.relpath}:{node.lineno}", ok,
                                               "" if ok else f"'{tn}' ({a}) receives element {i} of {t.name}()'s result, which is `{ast.unparse(re_)}` ({b}): hot and cold pinch are swapped")
            # R2/R5 calls
            if isinstance(node, ast.Call):
                for t in r.resolve_call(f, node):
                    callee = t if isinstance(t, FuncInfo) else None
                    if callee is None or isinstance(callee.node, ast.Lambda):
                        continue
                    off = 1 if (isinstance(node.func, ast.Attribute) and callee.cls is not None and callee.parent is None and not callee.is_static) else 0
                    pos = callee.pos_params[off:]
                    pairs = [(pos[i], a) for i, a in enumerate(node.args) if i < len(pos)] + [(k.arg, k.value) for k in node.keywords if k.arg]
                    for pn, a in pairs:
                        if isinstance(a, ast.Name) and (_pinchy(a.id) or _pinchy(pn)):
                            ra, rp = role(a.id), role(pn)
                            if ra and rp:
                                n += 1
                                ok = ra == rp
                                ctx.ob(rule, f"{f.qualname}:{a.id}->{callee.name}.{pn}", f"{f.module.relpath}:{node.lineno}", ok,
                                       "" if ok else f"{ra} pinch value '{a.id}' is passed as {callee.name}()'s {rp} parameter '{pn}'")
                    # side flag next to a pinch row
                    flag = [(pn, a) for pn, a in pairs if pn.startswith("is_hot") and isinstance(a, ast.Constant) and isinstance(a.value, bool)]
                    rows = [(pn, a) for pn, a in pairs if isinstance(a, ast.Name) and _pinchy(a.id) and role(a.id)]
                    if flag and len(rows) == 1:
                        n += 1
                        ok = (role(rows[0][1].id) == "hot") == flag[0][1].value
                        ctx.ob(rule, f"{f.qualname}:{rows[0][1].id}&{flag[0][0]}={flag[0][1].value}", f"{f.module.relpath}:{node.lineno}", ok,
                               "" if ok else f"{callee.name}() gets the {role(rows[0][1].id)} pinch row together with {flag[0][0]}={flag[0][1].value}")
            # R3 dict entries / keyword-like records
            if isinstance(node, ast.Dict):
                for k, v in zip(node.keys, node.values):
                    if isinstance(k, ast.Constant) and isinstance(k.value, str) and (_pinchy(k.value) or _pinchy(ast.unparse(v))):
                        rk, rv = role(k.value), expr_role(v)
                        if rk and rv:
                            n += 1
                            ok = rk == rv
                            ctx.ob(rule, f"{f.qualname}:{k.value!r}", f"{f.module.relpath}:{k.lineno}", ok,
                                   "" if ok else f"record entry {k.value!r} ({rk}) is filled with `{ast.unparse(v)}` ({rv})")
            # R6 returns of pinch functions: (hot, cold[, ...]) order
            if isinstance(node, ast.Return) and isinstance(node.value, ast.Tuple) and fpinchy and len(node.value.elts) >= 2:
                r0, r1 = expr_role(node.value.elts[0]), expr_role(node.value.elts[1])
                if r0 and r1:
                    n += 1
                    ok = (r0, r1) == ("hot", "cold")
                    ctx.ob(rule, f"{f.qualname}:return-order", f"{f.module.relpath}:{node.lineno}", ok,
                           "" if ok else f"{f.name} returns ({r0}, {r1}, ...) but every consumer unpacks (hot, cold, ...)")
        # R4 properties
        if f.cls is not None and f.is_property and _pinchy(f.name):
            for rt in body_nodes(f):
                if isinstance(rt, ast.Return) and rt.value is not None:
                    a, b = role(f.name), expr_role(rt.value)
                    if a and b:
                        n += 1
                        ctx.ob(rule, f"{f.qualname}:getter", f.loc, a == b, "" if a == b else f"property {f.name} ({a}) returns `{ast.unparse(rt.value)}` ({b})")
    # setters
    for ci in p.all_classes:
        for nm, f in ci.setters.items():
            if _pinchy(nm) and f in funcs or (_pinchy(nm) and ci.name == "EnergyTarget"):
                for st in body_nodes(f):
                    if isinstance(st, ast.Assign) and isinstance(st.targets[0], ast.Attribute):
                        a, b = role(nm), role(st.targets[0].attr)
                        if a and b:
                            n += 1
                            ctx.ob(rule, f"{f.qualname}:setter", f.loc, a == b, "" if a == b else f"setter of {nm} ({a}) stores into {st.targets[0].attr} ({b})")
    return n


def _alias_source(f: FuncInfo, e: ast.AST) -> ast.AST:
    """`cold = self.cold_pinch [if ... else None]`: the expression a once-assigned local stands for"""
    if isinstance(e, ast.Name):
        defs = [n.value for n in body_nodes(f) if isinstance(n, ast.Assign) and any(isinstance(t, ast.Name) and t.id == e.id for t in n.targets)]
        defs = [d for d in defs if not (isinstance(d, ast.Constant) and d.value is None)]
        if len(defs) == 1:
            d = defs[0]
            if isinstance(d, ast.IfExp):
                d = d.orelse if isinstance(d.body, ast.Constant) else d.body
            return d
    return e


def check_symmetric_collapse(ctx: CheckContext, p: Program, r: Resolver, funcs: List[FuncInfo], rule: str = "ROLE-SYM"):
    """A tolerance test that decides whether the hot and the cold pinch coincide must be symmetric: abs(hot - cold) < tol."""
    ctx.rule(rule, "a tolerance comparison of the difference between a hot and a cold pinch value is taken on abs(...): a one-sided test collapses every "
                   "record whose pinches are in the usual order")
    n = 0
    for f in funcs:
        if isinstance(f.node, ast.Lambda):
            continue
        for node in body_nodes(f):
            if not (isinstance(node, ast.Compare) and len(node.ops) == 1 and isinstance(node.ops[0], (ast.Lt, ast.LtE, ast.Gt, ast.GtE))):
                continue
            for side in (node.left, node.comparators[0]):
                inner, has_abs = side, False
                if isinstance(side, ast.Call) and isinstance(side.func, ast.Name) and side.func.id == "abs" and side.args:
                    inner, has_abs = side.args[0], True
                elif isinstance(side, ast.Call) and isinstance(side.func, ast.Attribute) and side.func.attr in ("abs", "fabs", "isclose") and side.args:
                    inner, has_abs = side.args[0], True
                if isinstance(inner, ast.BinOp) and isinstance(inner.op, ast.Sub):
                    il, ir = _alias_source(f, inner.left), _alias_source(f, inner.right)
                    la, lb_ = ast.unparse(il), ast.unparse(ir)
                    if _pinchy(la) and _pinchy(lb_) and {expr_role(il), expr_role(ir)} == {"hot", "cold"}:
                        n += 1
                        ctx.ob(rule, f"{f.qualname}:{norm_stmt(node)}", f"{f.module.relpath}:{node.lineno}", has_abs,
                               "" if has_abs else f"`{ast.unparse(node)}` compares a signed hot/cold pinch difference with a tolerance: it is true for every record "
                                                  f"whose difference has that sign, so distinct pinches are reported as one")
    return n


def check_default_filter(ctx: CheckContext, p: Program, r: Resolver, rule: str = "DEFAULT-FILTER"):
    """The decision that a default utility is NOT needed may only be based on utilities that will actually be instantiated:
    the list builder keeps a utility iff `u.active and u.type in [...]`; every statement that clears a 'need default' flag
    must sit under a condition that tests the same attributes of the utility it looks at."""
    ctx.rule(rule, "producer/consumer agreement: the attributes by which the utility list builder filters (active, type) are also tested wherever a "
                   "supplied utility is taken as reason not to add a default utility - for the hot and for the cold side alike")
    m = p.modules.get("OpenPinch.analysis.data_preparation")
    if m is None:
        raise AnalysisError("data_preparation module not found")
    # consumer filter: attributes tested in a comprehension/generator filter over the utilities in the function that builds Stream objects
    filt: Set[str] = set()
    for f in [x for x in p.all_funcs if x.module is m and not isinstance(x.node, ast.Lambda)]:
        builds = any(isinstance(c, ast.Call) and any(isinstance(t, ClassInfo) and t.name == "Stream" for t in r.resolve_call(f, c)) for c in body_nodes(f) if isinstance(c, ast.Call))
        if not builds:
            continue
        for n in body_nodes(f):
            if isinstance(n, ast.comprehension) and n.ifs and isinstance(n.target, ast.Name):
                for cond in n.ifs:
                    for x in ast.walk(cond):
                        if isinstance(x, ast.Attribute) and isinstance(x.value, ast.Name) and x.value.id == n.target.id:
                            filt.add(x.attr)
    if not filt:
        raise AnalysisError("utility list builder's filter not recognised (anchor vanished)")
    ctx.info["utility_list_filter_attributes"] = sorted(filt)
    n_sites = 0
    for f in [x for x in p.all_funcs if x.module is m and not isinstance(x.node, ast.Lambda)]:
        # flags: locals initialised True, cleared inside a loop over utilities, and returned
        inits = {t.id for st in f.node.body if isinstance(st, ast.Assign) and isinstance(st.value, ast.Constant) and st.value.value is True
                 for t in st.targets if isinstance(t, ast.Name)}
        returned = {x.id for rt in body_nodes(f) if isinstance(rt, ast.Return) and rt.value is not None for x in ast.walk(rt.value) if isinstance(x, ast.Name)}
        flags = inits & returned
        if not flags:
            continue
        for loop in [x for x in f.node.body if isinstance(x, ast.For) and isinstance(x.target, ast.Name)]:
            uv = loop.target.id

            def walk(stmts, conds):
                nonlocal n_sites
                for st in stmts:
                    if isinstance(st, ast.Assign) and isinstance(st.value, ast.Constant) and st.value.value is False \
                            and any(isinstance(t, ast.Name) and t.id in flags for t in st.targets):
                        tested: Set[str] = set()
                        for c in conds:
                            for x in ast.walk(c):
                                if isinstance(x, ast.Attribute) and isinstance(x.value, ast.Name) and x.value.id == uv:
                                    tested.add(x.attr)
                                if isinstance(x, ast.Call):
                                    # predicate helper applied to the utility: the attributes its result tests
                                    for t in r.resolve_call(f, x):
                                        if isinstance(t, FuncInfo) and t.module is m and any(isinstance(a, ast.Name) and a.id == uv for a in x.args):
                                            pn = t.pos_params[[i for i, a in enumerate(x.args) if isinstance(a, ast.Name) and a.id == uv][0]]
                                            for y in ast.walk(t.node):
                                                if isinstance(y, ast.Attribute) and isinstance(y.value, ast.Name) and y.value.id == pn:
                                                    tested.add(y.attr)
                        n_sites += 1
                        missing = sorted(filt - tested)
                        flag = [t.id for t in st.targets if isinstance(t, ast.Name)][0]
                        ctx.ob(rule, f"{f.qualname}:{flag}", f"{f.module.relpath}:{st.lineno}", not missing,
                               "" if not missing else f"'{flag}' is cleared because of a supplied utility without testing its {', '.join(missing)} attribute(s), "
                                                      f"by which the utility list is filtered: a utility that will not be instantiated suppresses the default utility, "
                                                      f"so the side's duties cannot sum to the target")
                    if isinstance(st, ast.If):
                        walk(st.body, conds + [st.test])
                        walk(st.orelse, conds)
                    elif isinstance(st, (ast.For, ast.While, ast.With)):
                        walk(st.body, conds)
            walk(loop.body, [])
    return n_sites


def check_zero_seeded_utilities(ctx: CheckContext, p: Program, r: Resolver, rule: str = "SEED"):
    """Utility Stream objects are created without a duty: the allocator only writes duties it assigns (> tol) and the zone summation
    only resets its own copies, so both rely on every utility starting at zero."""
    ctx.rule(rule, "where preparation turns utility definitions into Stream objects no heat_flow is passed (or a literal 0): "
                   "a pre-seeded duty on a level that a zone does not use would be reported and summed as if assigned")
    m = p.modules.get("OpenPinch.analysis.data_preparation")
    n = 0
    for f in [x for x in p.all_funcs if x.module is m and not isinstance(x.node, ast.Lambda)]:
        for c in [x for x in body_nodes(f) if isinstance(x, ast.Call)]:
            if not any(isinstance(t, ClassInfo) and t.name == "Stream" for t in r.resolve_call(f, c)):
                continue
            kws = {k.arg: k.value for k in c.keywords if k.arg}
            is_util = isinstance(kws.get("is_process_stream"), ast.Constant) and kws["is_process_stream"].value is False
            if not is_util:
                continue
            n += 1
            hf = kws.get("heat_flow")
            ok = hf is None or (isinstance(hf, ast.Constant) and hf.value in (0, 0.0))
            ctx.ob(rule, f"{f.qualname}:{norm_stmt(c)[:60]}", f"{f.module.relpath}:{c.lineno}", ok,
                   "" if ok else f"utility streams are created with heat_flow={ast.unparse(hf)}: levels the allocator does not touch keep that duty")
    return n


def check_sibling_branches(ctx: CheckContext, p: Program, r: Resolver, qualname: str, strip: List[str], rule: str = "SIBLING"):
    """`if flag: A else: B` where B handles the sibling data set (e.g. net_ streams): the branches must be identical up to the naming difference."""
    ctx.rule(rule, "the two branches that prepare the destination collections for the process streams and for the net streams are identical up to the "
                   "`net_` naming difference (a flag honoured in one branch only makes repeated imports accumulate)")
    f = p.func(qualname)
    if f is None:
        raise AnalysisError(f"{qualname} not found")
    import copy

    def norm(stmts):
        mod = copy.deepcopy(ast.Module(body=stmts, type_ignores=[]))
        for n in ast.walk(mod):
            if isinstance(n, ast.Attribute):
                for s_ in strip:
                    n.attr = n.attr.replace(s_, "")
            if isinstance(n, ast.Name):
                for s_ in strip:
                    n.id = n.id.replace(s_, "")
        return ast.dump(mod)
    n = 0
    for st in f.node.body:
        if isinstance(st, ast.If) and st.orelse and any(s_ in ast.unparse(st) for s_ in strip):
            n += 1
            ok = norm(st.body) == norm(st.orelse)
            ctx.ob(rule, f"{f.qualname}:{norm_stmt(st.test)}", f"{f.module.relpath}:{st.lineno}", ok,
                   "" if ok else f"the branches of `if {ast.unparse(st.test)}` in {f.name} are not the same code up to the {strip} naming difference")
    return n


def check_fresh_destination(ctx: CheckContext, p: Program, r: Resolver, qualname: str, new_flag: str, rule: str = "FRESH-DST"):
    """For every assignment of the method's boolean parameters with `new_flag` True, the collection the sub-zone streams are imported
    into has been re-created (`self.<field> = StreamCollection()`) on that path: a second import must not append to the first one's result."""
    from ..core.flow import Flow
    import itertools
    ctx.rule(rule, f"with {new_flag}=True the destination collections of the sub-zone import are fresh on every path, for the process streams and for the net streams alike "
                   "(all assignments of the method's boolean parameters are enumerated)")
    f = p.func(qualname)
    if f is None:
        raise AnalysisError(f"{qualname} not found")
    flags = [a.arg for a in f.params if isinstance(f.default_of(a.arg), ast.Constant) and isinstance(f.default_of(a.arg).value, bool)]
    has_flag = new_flag in flags      # without the switch the import must ALWAYS start from fresh (or cleared) destinations
    me = f.pos_params[0]
    results: Dict[str, List[Tuple[dict, bool, ast.AST]]] = {}
    # destination variables: receivers of .add(...) inside the import loops; a receiver bound by `for a, b in ((x, y), ...)` stands for the tuple members
    dst_names: Set[str] = set()
    for loop in [x for x in ast.walk(f.node) if isinstance(x, ast.For)]:
        for c in ast.walk(loop):
            if isinstance(c, ast.Call) and isinstance(c.func, ast.Attribute) and c.func.attr in ("add", "add_many") and isinstance(c.func.value, ast.Name):
                dst_names.add(c.func.value.id)
    for loop in [x for x in ast.walk(f.node) if isinstance(x, ast.For)]:
        if isinstance(loop.target, ast.Tuple) and isinstance(loop.iter, (ast.Tuple, ast.List)):
            for i, tv in enumerate(loop.target.elts):
                if isinstance(tv, ast.Name) and tv.id in dst_names:
                    for tup in loop.iter.elts:
                        if isinstance(tup, (ast.Tuple, ast.List)) and i < len(tup.elts) and isinstance(tup.elts[i], ast.Name):
                            dst_names.add(tup.elts[i].id)

    class FL(Flow):
        def __init__(self, env):
            self.env = env

        def copy(self, s):
            return {"fresh": set(s["fresh"]), "alias": dict(s["alias"])}

        def join(self, a, b):
            return {"fresh": a["fresh"] & b["fresh"], "alias": {k: v for k, v in a["alias"].items() if b["alias"].get(k) == v}}

        def val(self, t):
            if isinstance(t, ast.Name) and t.id in self.env:
                return self.env[t.id]
            if isinstance(t, ast.UnaryOp) and isinstance(t.op, ast.Not):
                v = self.val(t.operand)
                return None if v is None else not v
            if isinstance(t, ast.BoolOp):
                vs = [self.val(v) for v in t.values]
                if isinstance(t.op, ast.And):
                    return False if any(v is False for v in vs) else (True if all(v is True for v in vs) else None)
                return True if any(v is True for v in vs) else (False if all(v is False for v in vs) else None)
            return None

        def branch(self, test, s):
            v = self.val(test)
            if v is True:
                return s, None
            if v is False:
                return None, s
            return s, self.copy(s)

        def field_of(self, e):
            if isinstance(e, ast.IfExp):
                v = self.val(e.test)
                if v is not None:
                    return self.field_of(e.body if v else e.orelse)
                return None
            if isinstance(e, ast.Attribute) and isinstance(e.value, ast.Name) and e.value.id == me:
                return e.attr
            return None

        def transfer(self, st, s):
            s = self.copy(s)
            if isinstance(st, ast.Assign) and len(st.targets) > 1:
                # dst = self._x = StreamCollection()
                v = st.value
                is_new = isinstance(v, ast.Call) and any(isinstance(x, ClassInfo) and x.name == "StreamCollection" for x in r.resolve_call(f, v)) and not v.args
                flds = [t.attr for t in st.targets if isinstance(t, ast.Attribute) and isinstance(t.value, ast.Name) and t.value.id == me]
                for fld in flds:
                    (s["fresh"].add if is_new else s["fresh"].discard)(fld)
                for t in st.targets:
                    if isinstance(t, ast.Name) and flds:
                        s["alias"][t.id] = flds[0]
                        if t.id in dst_names:
                            results.setdefault(t.id, []).append((dict(self.env), is_new, st))
                return s
            if isinstance(st, ast.Expr) and isinstance(st.value, ast.Call) and isinstance(st.value.func, ast.Attribute) and st.value.func.attr == "clear":
                fld = self.field_of(st.value.func.value)
                if fld is not None:
                    s["fresh"].add(fld)          # emptied in place: as good as new for the import
            if (isinstance(st, ast.Assign) and len(st.targets) == 1) or (isinstance(st, ast.AnnAssign) and st.value is not None):
                t, v = (st.targets[0] if isinstance(st, ast.Assign) else st.target), st.value
                if isinstance(t, ast.Attribute) and isinstance(t.value, ast.Name) and t.value.id == me:
                    is_new = isinstance(v, ast.Call) and any(isinstance(x, ClassInfo) and x.name == "StreamCollection" for x in r.resolve_call(f, v)) and not v.args
                    (s["fresh"].add if is_new else s["fresh"].discard)(t.attr)
                elif isinstance(t, ast.Name):
                    fld = self.field_of(v)
                    if fld is not None:
                        s["alias"][t.id] = fld
                        if t.id in dst_names:
                            results.setdefault(t.id, []).append((dict(self.env), fld in s["fresh"], st))
            return s

        def stmt(self, st, s):
            if isinstance(st, (ast.For, ast.While)):
                return s          # the import loop itself: destinations are fixed before it
            return super().stmt(st, s)

    for combo in itertools.product([False, True], repeat=len(flags)):
        env = dict(zip(flags, combo))
        FL(env).run(f.node, {"fresh": set(), "alias": {}})
    if not results:
        raise AnalysisError(f"{f.loc}: destination collections of the sub-zone import not recognised")
    n = 0
    for dst, lst in sorted(results.items()):
        bad = [(env, st) for env, fresh, st in lst if (not has_flag or env[new_flag]) and not fresh]
        n += 1
        ok = not bad
        msg = ""
        if bad:
            env, st = bad[0]
            cond = ", ".join(f"{k}={v}" for k, v in sorted(env.items())) or "every call"
            msg = (f"with {cond} the destination '{dst}' ({norm_stmt(st)}) is the collection left by the previous import: "
                   f"sub-zone streams are appended again, so the zone's own targets are computed on duplicated streams")
        ctx.ob(rule, f"{f.qualname}:{dst}", f"{f.module.relpath}:{lst[0][2].lineno}", ok, msg, assignments_explored=len(lst))
    if not has_flag:
        return n
    # every caller (the recursive descent included) asks for fresh collections: omitted (default True), literal True, or its own flag forwarded
    default_true = isinstance(f.default_of(new_flag), ast.Constant) and f.default_of(new_flag).value is True
    pos_index = f.pos_params.index(new_flag) - 1 if new_flag in f.pos_params else None
    for g in p.all_funcs:
        if isinstance(g.node, ast.Lambda):
            continue
        for call, tg in r.calls_of(g):
            if f not in tg and not (isinstance(call.func, ast.Attribute) and call.func.attr == f.name):
                continue
            val = next((k.value for k in call.keywords if k.arg == new_flag), None)
            if val is None and pos_index is not None and pos_index < len(call.args):
                val = call.args[pos_index]
            n += 1
            if val is None:
                ok, how = default_true, "the default"
            elif isinstance(val, ast.Constant):
                ok, how = val.value is True, repr(val.value)
            elif isinstance(val, ast.Name) and g is f and val.id == new_flag:
                ok, how = True, "forwarded"
            else:
                continue                 # computed value: not decided here
            ctx.ob(rule, f"{g.qualname}:call:{new_flag}", f"{g.module.relpath}:{call.lineno}", ok,
                   "" if ok else f"{g.name} calls {f.name} with {new_flag}={how}: the (sub-)zone's collections are not re-created, so streams already present "
                                 f"(from an earlier import or a relative-path match) are kept and the children's streams are appended to them")
    return n

"""ORDER / ATTR / T4 - the service is total on every option path (C14).

ORDER: the per-zone target registry is defined before it is read on every path through the zone-type
handlers, with the option flags and child zone types as free conditions.
ATTR:  every attribute read on a Configuration-typed expression is declared by the class.
T4:    the handler table covers every root zone type preparation can produce, in the label form the lookup uses."""
from __future__ import annotations

import ast
import itertools
from dataclasses import dataclass, field
from typing import Dict, FrozenSet, List, Optional, Set, Tuple

from ..core.model import AnalysisError, ClassInfo, FuncInfo, Program
from ..core.report import CheckContext, norm_stmt
from ..core.resolve import Resolver, body_nodes


# =========================================================================================
# registry summaries of the integration entry functions
# =========================================================================================
@dataclass
class RegSummary:
    requires: List[Tuple[str, str, ast.AST]] = field(default_factory=list)    # (who: self|sub, K, node)
    defines: List[str] = field(default_factory=list)                          # K defined for self on the straight path


def _enum_member(r: Resolver, f: FuncInfo, e: ast.AST, enum: ClassInfo) -> Optional[Tuple[str, str]]:
    """('text'|'member', name) if e denotes Enum.X.value / Enum.X"""
    node, form = e, "member"
    if isinstance(e, ast.Attribute) and e.attr == "value":
        node, form = e.value, "text"
    b = r.resolve_static(f, f.module, node) if isinstance(node, (ast.Name, ast.Attribute)) else None
    if b is not None and b.kind == "classattr" and b.target[0] is enum:
        return (form, b.target[1])
    return None


def _key_target(r: Resolver, f: FuncInfo, key: ast.AST, tt: ClassInfo) -> Optional[Tuple[str, str]]:
    """(zone variable, K) from  f"{X.name}/{TargetType.K.value}"  or  key_name(X.name, TargetType.K.value)"""
    if isinstance(key, ast.JoinedStr):
        zvar = k = None
        for part in key.values:
            if isinstance(part, ast.FormattedValue):
                v = part.value
                if isinstance(v, ast.Attribute) and v.attr == "name" and isinstance(v.value, ast.Name):
                    zvar = v.value.id
                else:
                    m = _enum_member(r, f, v, tt)
                    if m:
                        k = m[1]
        if zvar and k:
            return zvar, k
    if isinstance(key, ast.Call) and len(key.args) >= 1:
        tg = r.resolve_call(f, key)
        if any(isinstance(t, FuncInfo) and t.name == "key_name" for t in tg):
            a0 = key.args[0]
            k = None
            if len(key.args) > 1:
                m = _enum_member(r, f, key.args[1], tt)
                k = m[1] if m else None
            else:
                kn = [t for t in tg if isinstance(t, FuncInfo)][0]
                d = kn.default_of(kn.pos_params[1]) if len(kn.pos_params) > 1 else None
                m = _enum_member(r, kn, d, tt) if d is not None else None
                k = m[1] if m else None
            if isinstance(a0, ast.Attribute) and a0.attr == "name" and isinstance(a0.value, ast.Name) and k:
                return a0.value.id, k
    return None


class Registry:
    def __init__(self, p: Program, r: Resolver):
        self.p, self.r = p, r
        self.tt = p.find_class("TargetType")
        self.zt = p.find_class("ZoneType")
        if self.tt is None or self.zt is None:
            raise AnalysisError("TargetType / ZoneType not found")
        self.summ: Dict[FuncInfo, RegSummary] = {}

    def zone_param(self, f: FuncInfo) -> Optional[str]:
        zone_cls = self.p.find_class("Zone")
        for a in f.params:
            if self.r.class_from_annotation(f.module, a.annotation, f) is zone_cls:
                return a.arg
        return None

    def summary(self, f: FuncInfo, depth=0) -> RegSummary:
        if f in self.summ:
            return self.summ[f]
        sm = RegSummary()
        self.summ[f] = sm
        zp = self.zone_param(f)
        if zp is None:
            return sm
        defined: Set[str] = set()

        def visit(stmts, subvars: Set[str]):
            for st in stmts:
                if isinstance(st, (ast.For,)) and isinstance(st.target, ast.Name) and _is_subzones_iter(st.iter, zp):
                    visit(st.body, subvars | {st.target.id})
                    continue
                if isinstance(st, (ast.If, ast.For, ast.While, ast.With, ast.Try)):
                    # conditional definitions are not relied upon; requirements inside are collected
                    for fld in ("body", "orelse", "finalbody"):
                        sub = getattr(st, fld, None)
                        if isinstance(sub, list):
                            saved = set(defined)
                            visit([x for x in sub if isinstance(x, ast.stmt)], subvars)
                            defined.clear()
                            defined.update(saved)
                    if isinstance(st, ast.If):
                        scan_expr(st.test, subvars)
                    continue
                scan_expr(st, subvars)

        def scan_expr(node, subvars):
            # evaluation order within a statement: reads before the (single) define
            for n in ast.walk(node):
                if isinstance(n, ast.Subscript) and isinstance(n.value, ast.Attribute) and n.value.attr == "targets" and isinstance(n.value.value, ast.Name):
                    kt = _key_target(self.r, f, n.slice, self.tt)
                    if kt is None:
                        continue
                    zvar, k = kt
                    if zvar == zp and n.value.value.id == zp:
                        if k not in defined:
                            sm.requires.append(("self", k, n))
                    elif zvar in subvars and n.value.value.id == zvar:
                        sm.requires.append(("sub", k, n))
            for n in ast.walk(node):
                if isinstance(n, ast.Call):
                    if isinstance(n.func, ast.Attribute) and n.func.attr == "add_target_from_results" and isinstance(n.func.value, ast.Name) \
                            and n.func.value.id == zp and n.args:
                        m = _enum_member(self.r, f, n.args[0], self.tt)
                        if m:
                            defined.add(m[1])
                            if m[1] not in sm.defines:
                                sm.defines.append(m[1])
                    else:
                        for t in self.r.resolve_call(f, n):
                            if isinstance(t, FuncInfo) and t is not f and depth < 4:
                                tz = self.zone_param(t)
                                if tz is None:
                                    continue
                                # callee applied to our own zone?
                                arg0 = None
                                pos = t.pos_params
                                for i, a in enumerate(n.args):
                                    if i < len(pos) and pos[i] == tz:
                                        arg0 = a
                                for kw in n.keywords:
                                    if kw.arg == tz:
                                        arg0 = kw.value
                                if isinstance(arg0, ast.Name) and arg0.id == zp:
                                    cs = self.summary(t, depth + 1)
                                    for who, k, nn in cs.requires:
                                        if who == "self" and k in defined:
                                            continue
                                        sm.requires.append((who, k, nn))
                                    for k in cs.defines:
                                        defined.add(k)
                                        if k not in sm.defines:
                                            sm.defines.append(k)
        visit(f.node.body, set())
        return sm


def _is_subzones_iter(e: ast.AST, zp: str) -> bool:
    # zone.subzones.values()
    return isinstance(e, ast.Call) and isinstance(e.func, ast.Attribute) and e.func.attr == "values" and isinstance(e.func.value, ast.Attribute) \
        and e.func.value.attr == "subzones" and isinstance(e.func.value.value, ast.Name) and e.func.value.value.id == zp


# =========================================================================================
# symbolic exploration of the handlers
# =========================================================================================
class HandlerExplorer:
    def __init__(self, p: Program, r: Resolver, reg: Registry, handlers: Dict[str, FuncInfo], ctx: CheckContext, rule: str):
        self.p, self.r, self.reg, self.handlers, self.ctx, self.rule = p, r, reg, handlers, ctx, rule
        self.handler_set = set(handlers.values())
        self.entry_fns = {}
        self.flags: List[str] = []
        for h in self.handler_set:
            for n in body_nodes(h):
                if isinstance(n, ast.Attribute) and isinstance(n.value, ast.Attribute) and n.value.attr == "config" and n.attr.isupper():
                    if n.attr not in self.flags:
                        self.flags.append(n.attr)
        self.memo: Dict[Tuple[FuncInfo, FrozenSet], Set[str]] = {}
        self.findings: Dict[str, dict] = {}
        self.paths = 0
        self.requirement_sites: Dict[str, bool] = {}

    def flag_value(self, test: ast.AST, env) -> Optional[bool]:
        if isinstance(test, ast.Attribute) and isinstance(test.value, ast.Attribute) and test.value.attr == "config":
            return env.get(test.attr)
        if isinstance(test, ast.UnaryOp) and isinstance(test.op, ast.Not):
            v = self.flag_value(test.operand, env)
            return None if v is None else not v
        return None

    def explore_all(self):
        all_k = {nm for nm in self.reg.tt.class_attrs}
        for combo in itertools.product([False, True], repeat=len(self.flags)):
            env = dict(zip(self.flags, combo))
            key = frozenset(env.items())
            # greatest fix-point for must-define summaries of (mutually) recursive handlers
            for h in self.handler_set:
                self.memo[(h, key)] = set(all_k)
            for _ in range(6):
                changed = False
                for h in self.handler_set:
                    new = self.run_handler(h, env, record=False)
                    if new != self.memo[(h, key)]:
                        self.memo[(h, key)] = new
                        changed = True
                if not changed:
                    break
            for h in self.handler_set:
                self.run_handler(h, env, record=True)

    def run_handler(self, h: FuncInfo, env: Dict[str, bool], record: bool) -> Set[str]:
        zp = self.reg.zone_param(h) or (h.pos_params[0] if h.pos_params else None)
        if zp is None:
            raise AnalysisError(f"{h.loc}: handler without a zone parameter")
        exits: List[Set[str]] = []
        self._exec(h, h.node.body, zp, env, {"self": set(), "sub": None, "has_subs": None}, exits, record)
        if not exits:
            return set(self.reg.tt.class_attrs)
        out = set(exits[0])
        for e in exits[1:]:
            out &= e
        return out

    def _exec(self, h, stmts, zp, env, st, exits, record) -> Optional[dict]:
        """returns the fall-through state or None"""
        key = frozenset(env.items())
        for s in stmts:
            if st is None:
                return None
            if isinstance(s, ast.Expr) and isinstance(s.value, ast.Constant):
                continue
            if isinstance(s, ast.AnnAssign) and s.value is None:
                continue
            if isinstance(s, ast.Return):
                self.paths += 1
                exits.append(set(st["self"]))
                return None
            if isinstance(s, ast.Raise):
                return None
            if isinstance(s, ast.If):
                fv = self.flag_value(s.test, env)
                if fv is not None:
                    st = self._exec(h, s.body if fv else s.orelse, zp, env, st, exits, record)
                    continue
                # len(zone.subzones) > 0
                if _is_has_subzones(s.test, zp):
                    a = self._exec(h, s.body, zp, env, dict(st, self=set(st["self"]), has_subs=True), exits, record)
                    b = self._exec(h, s.orelse, zp, env, dict(st, self=set(st["self"]), has_subs=False), exits, record)
                    st = _join_states(a, b)
                    continue
                raise AnalysisError(f"{h.module.relpath}:{s.lineno}: handler branch condition not understood: {ast.unparse(s.test)}")
            if isinstance(s, ast.For) and isinstance(s.target, ast.Name) and _is_subzones_iter(s.iter, zp):
                per_type = self._loop_body(h, s, env, record)
                # ∀ child: K defined iff every non-raising branch defines it
                st = dict(st, self=set(st["self"]), sub=per_type)
                continue
            call = s.value if isinstance(s, (ast.Expr, ast.Assign)) and isinstance(s.value, ast.Call) else None
            if call is not None:
                self._apply_call(h, call, zp, env, st, record)
                continue
            raise AnalysisError(f"{h.module.relpath}:{s.lineno}: handler statement not understood: {norm_stmt(s)}")
        if st is not None:
            self.paths += 1
        return st

    def _loop_body(self, h, loop: ast.For, env, record) -> Dict[str, Set[str]]:
        """child zone type -> set of K certainly defined for that child after its branch"""
        zv = loop.target.id
        key = frozenset(env.items())
        out: Dict[str, Set[str]] = {}
        body = [s for s in loop.body if not (isinstance(s, ast.AnnAssign) and s.value is None)]
        if len(body) == 1 and isinstance(body[0], ast.If) and _identifier_test(self.r, h, body[0].test, zv, self.reg.zt):
            node = body[0]
            while True:
                m = _identifier_test(self.r, h, node.test, zv, self.reg.zt)
                if m is None:
                    raise AnalysisError(f"{h.module.relpath}:{node.lineno}: child dispatch test not understood: {ast.unparse(node.test)}")
                out[m] = self._child_branch(h, node.body, zv, env, record)
                if len(node.orelse) == 1 and isinstance(node.orelse[0], ast.If):
                    node = node.orelse[0]
                    continue
                if node.orelse and not all(isinstance(x, ast.Raise) for x in node.orelse):
                    out["<other>"] = self._child_branch(h, node.orelse, zv, env, record)
                break
        else:
            out["<any>"] = self._child_branch(h, body, zv, env, record)
        return out

    def _child_branch(self, h, stmts, zv, env, record) -> Set[str]:
        key = frozenset(env.items())
        defined: Set[str] = set()
        for s in stmts:
            if isinstance(s, ast.If):
                fv = self.flag_value(s.test, env)
                if fv is None:
                    raise AnalysisError(f"{h.module.relpath}:{s.lineno}: condition in child branch not understood: {ast.unparse(s.test)}")
                defined |= self._child_branch(h, s.body if fv else s.orelse, zv, env, record)
                continue
            if isinstance(s, ast.Raise):
                return set(self.reg.tt.class_attrs)     # path leaves; imposes nothing
            call = s.value if isinstance(s, (ast.Expr, ast.Assign)) and isinstance(s.value, ast.Call) else None
            if call is None:
                raise AnalysisError(f"{h.module.relpath}:{s.lineno}: child-branch statement not understood: {norm_stmt(s)}")
            for t in self.r.resolve_call(h, call):
                if isinstance(t, FuncInfo) and call.args and isinstance(call.args[0], ast.Name) and call.args[0].id == zv:
                    if t in self.handler_set:
                        defined |= self.memo[(t, key)]
                    else:
                        sm = self.reg.summary(t)
                        defined |= set(sm.defines)
        return defined

    def _apply_call(self, h, call, zp, env, st, record):
        key = frozenset(env.items())
        for t in self.r.resolve_call(h, call):
            if not isinstance(t, FuncInfo):
                continue
            on_self = bool(call.args) and isinstance(call.args[0], ast.Name) and call.args[0].id == zp
            if not on_self:
                continue
            if t in self.handler_set:
                st["self"] |= self.memo[(t, key)]
                continue
            sm = self.reg.summary(t)
            for who, k, node in sm.requires:
                site = f"{h.qualname}:{t.name} requires {k}({'zone' if who == 'self' else 'every sub-zone'})"
                if who == "self":
                    ok = k in st["self"]
                    if record:
                        self._req(site, ok, h, call, env, f"{t.name}(zone) reads the zone's own '{self._kval(k)}' record before it is computed")
                else:
                    per_type = st.get("sub")
                    if per_type is None:
                        ok = False
                        if record:
                            self._req(site, ok, h, call, env, f"{t.name}(zone) reads every sub-zone's '{self._kval(k)}' record but no loop over the sub-zones precedes it")
                        continue
                    for zt, defs in sorted(per_type.items()):
                        ok = k in defs
                        if record:
                            self._req(site + f" [child type {zt}]", ok, h, call, env,
                                      f"{t.name}(zone) reads the '{self._kval(k)}' record of every sub-zone, but a sub-zone of type {self._zval(zt)} gets none on this path")
            for k in sm.defines:
                st["self"].add(k)

    def _kval(self, k):
        v = self.reg.tt.class_attrs.get(k)
        return v.value if isinstance(v, ast.Constant) else k

    def _zval(self, z):
        v = self.reg.zt.class_attrs.get(z)
        return f"'{v.value}'" if isinstance(v, ast.Constant) else z

    def _req(self, site: str, ok: bool, h: FuncInfo, call: ast.Call, env, msg: str):
        prev = self.requirement_sites.get(site, True)
        self.requirement_sites[site] = prev and ok
        if not ok:
            d = self.findings.setdefault(site, {"h": h, "call": call, "msg": msg, "envs": []})
            d["envs"].append(dict(env))


def _join_states(a, b):
    if a is None:
        return b
    if b is None:
        return a
    sub = a["sub"] if a["sub"] is not None else b["sub"]
    return {"self": a["self"] & b["self"], "sub": sub, "has_subs": None}


def _is_has_subzones(test: ast.AST, zp: str) -> bool:
    # len(zone.subzones) > 0
    if isinstance(test, ast.Compare) and len(test.ops) == 1 and isinstance(test.ops[0], ast.Gt) and isinstance(test.left, ast.Call) \
            and isinstance(test.left.func, ast.Name) and test.left.func.id == "len" and test.left.args:
        a = test.left.args[0]
        return isinstance(a, ast.Attribute) and a.attr == "subzones" and isinstance(a.value, ast.Name) and a.value.id == zp
    return False


def _identifier_test(r: Resolver, f: FuncInfo, test: ast.AST, zv: str, zt: ClassInfo) -> Optional[str]:
    if isinstance(test, ast.Compare) and len(test.ops) == 1 and isinstance(test.ops[0], ast.Eq):
        l, rr = test.left, test.comparators[0]
        if isinstance(l, ast.Attribute) and l.attr == "identifier" and isinstance(l.value, ast.Name) and l.value.id == zv:
            m = _enum_member(r, f, rr, zt)
            return m[1] if m else None
    return None


def check_order(ctx: CheckContext, p: Program, r: Resolver, rule: str = "ORDER"):
    ctx.rule(rule, "every read of a zone's target registry is preceded by its definition on every path through the zone-type handlers, with option flags "
                   "and child zone types as free conditions (requirements of the integration entry functions derived from their own bodies)")
    main = p.modules["OpenPinch.main"]
    tab = r.dispatch_table(main, "_TARGET_HANDLERS")
    if not tab:
        # locate any module-level dict of functions used by get_targets
        raise AnalysisError("handler table not found in OpenPinch.main (anchor vanished)")
    handlers = {f.name: f for f in tab}
    reg = Registry(p, r)
    ex = HandlerExplorer(p, r, reg, handlers, ctx, rule)
    ex.explore_all()
    ctx.info["handlers"] = sorted(handlers)
    ctx.info["option_flags_explored"] = ex.flags
    ctx.info["flag_assignments"] = 2 ** len(ex.flags)
    ctx.info["handler_paths_explored"] = ex.paths
    ctx.info["registry_summaries"] = {f.qualname.split(":")[1]: {"requires": sorted({f"{w}:{k}" for w, k, _ in sm.requires}), "defines": sm.defines}
                                      for f, sm in reg.summ.items() if sm.requires or sm.defines}
    for site, ok in sorted(ex.requirement_sites.items()):
        if ok:
            ctx.ob(rule, site, site.split(":")[0], True)
    for site, d in sorted(ex.findings.items()):
        envs = d["envs"]
        # minimal description of the flag assignments under which it fails
        always = {k for k in ex.flags if all(e[k] for e in envs)}
        never = {k for k in ex.flags if all(not e[k] for e in envs)}
        cond = ", ".join([f"{k}=True" for k in sorted(always)] + [f"{k}=False" for k in sorted(never)]) or "every option combination"
        ctx.ob(rule, site, f"{d['h'].module.relpath}:{d['call'].lineno}", False, d["msg"] + f"  [path condition: {cond}]",
               failing_flag_assignments=len(envs))
    return ex


# =========================================================================================
def check_config_attrs(ctx: CheckContext, p: Program, r: Resolver, funcs: List[FuncInfo], rule: str = "ATTR"):
    ctx.rule(rule, "every attribute read or written on an expression typed Configuration is declared in the class body or assigned in __init__")
    cfg = p.find_class("Configuration")
    if cfg is None:
        raise AnalysisError("Configuration class not found")
    declared = set(cfg.class_attrs) | set(cfg.methods)
    init = cfg.methods.get("__init__")
    if init is not None:
        for n in body_nodes(init):
            if isinstance(n, ast.Attribute) and isinstance(n.ctx, ast.Store) and isinstance(n.value, ast.Name) and n.value.id == "self":
                declared.add(n.attr)
    ctx.info["configuration_declared_attributes"] = len(declared)
    seen: Dict[Tuple[str, str], Tuple[bool, ast.AST, FuncInfo]] = {}
    module_as_config = []
    for f in funcs:
        if isinstance(f.node, ast.Lambda):
            continue
        for n in body_nodes(f):
            if isinstance(n, ast.Attribute) and not isinstance(n.ctx, ast.Del):
                t = r.type_of(f, n.value)
                if t is cfg:
                    k = (f.qualname, n.attr)
                    ok = n.attr in declared
                    if k not in seen:
                        seen[k] = (ok, n, f)
            if isinstance(n, ast.keyword) and n.arg and "config" in n.arg and isinstance(n.value, ast.Name):
                b = r.lookup(f, f.module, n.value.id)
                if b is not None and b.kind == "module":
                    module_as_config.append(f"{f.module.relpath}:{n.value.lineno} {n.arg}={n.value.id} is the module {b.target}")
    for (q, attr), (ok, n, f) in sorted(seen.items()):
        ctx.ob(rule, f"{q}:{attr}", f"{f.module.relpath}:{n.lineno}", ok,
               "" if ok else f"Configuration has no attribute '{attr}' (only a commented-out default exists): {f.name} raises AttributeError as soon as this path runs")
    ctx.info["observation_module_passed_as_configuration"] = module_as_config
    return len(seen)


def check_handler_table(ctx: CheckContext, p: Program, r: Resolver, rule: str = "T4"):
    ctx.rule(rule, "the handler table has an entry, in the label form the lookup uses, for every root zone type preparation can produce; "
                   "comparisons of a zone identifier use the text form of the enumeration")
    main = p.modules["OpenPinch.main"]
    b = main.ns.get("_TARGET_HANDLERS")
    zt = p.find_class("ZoneType")
    if b is None or b.kind != "var" or not isinstance(b.target[2], ast.Dict) or zt is None:
        raise AnalysisError("handler table / ZoneType not found")
    d: ast.Dict = b.target[2]
    keys = {}
    for k in d.keys:
        m = None
        if k is not None:
            # resolve at module level
            node, form = (k.value, "text") if isinstance(k, ast.Attribute) and k.attr == "value" else (k, "member")
            bb = p.resolve_attr_chain(main, node)
            if bb is not None and bb.kind == "classattr" and bb.target[0] is zt:
                m = (form, bb.target[1])
        if m is None:
            raise AnalysisError(f"{main.relpath}:{k.lineno}: handler key not understood: {ast.unparse(k)}")
        keys[m[1]] = (m[0], k)
    # what form does the lookup use?  identifiers are produced by _get_validated_zone_info
    prep = p.modules.get("OpenPinch.analysis.data_preparation")
    info = prep.funcs.get("_get_validated_zone_info") if prep else None
    if info is None:
        raise AnalysisError("_get_validated_zone_info not found")
    produced: Dict[str, Set[str]] = {}
    for n in body_nodes(info):
        vals = []
        if isinstance(n, ast.Assign) and any(isinstance(t, ast.Name) and t.id == "zone_type" for t in n.targets):
            vals = [n.value]
        elif isinstance(n, ast.Dict):
            vals = list(n.values)
        for v in vals:
            m = _enum_member(r, info, v, zt)
            if m:
                produced.setdefault(m[1], set()).add(m[0])
    # types rejected up-front (raise guarded by a comparison with that type)
    rejected = set()
    for f in prep.funcs.values():
        for n in body_nodes(f):
            if isinstance(n, ast.If) and n.body and isinstance(n.body[0], ast.Raise) and isinstance(n.test, ast.Compare) and len(n.test.ops) == 1 \
                    and isinstance(n.test.ops[0], ast.Eq):
                m = _enum_member(r, f, n.test.comparators[0], zt)
                if m:
                    rejected.add(m[1])
    ctx.info["root_zone_types_produced"] = {k: sorted(v) for k, v in sorted(produced.items())}
    ctx.info["root_zone_types_rejected"] = sorted(rejected)
    for member, forms in sorted(produced.items()):
        if member in rejected:
            continue
        for form in sorted(forms):
            have = keys.get(member)
            ok = have is not None and have[0] == form
            ctx.ob(rule, f"handlers:{member}:{form}", f"{main.relpath}:{d.lineno}", ok,
                   "" if ok else (f"no handler for root zone type ZoneType.{member}" if have is None else
                                  f"handler for ZoneType.{member} is keyed by the enumeration {have[0]} but zone identifiers hold the {form}: "
                                  f"a root zone of that type finds no handler"))
    # identifier comparisons anywhere in the cone use the text form
    n_cmp = 0
    for f in p.all_funcs:
        if isinstance(f.node, ast.Lambda):
            continue
        for n in body_nodes(f):
            if isinstance(n, ast.Compare) and len(n.ops) == 1:
                sides = [n.left, n.comparators[0]]
                if any(isinstance(s, ast.Attribute) and s.attr == "identifier" for s in sides):
                    others = [s for s in sides if not (isinstance(s, ast.Attribute) and s.attr == "identifier")]
                    for o in others:
                        elts = o.elts if isinstance(o, (ast.List, ast.Tuple, ast.Set)) else [o]
                        for e in elts:
                            m = _enum_member(r, f, e, zt)
                            if m:
                                n_cmp += 1
                                ok = m[0] == "text"
                                ctx.ob(rule + "-FORM", f"{f.qualname}:{norm_stmt(n)}", f"{f.module.relpath}:{n.lineno}", ok,
                                       "" if ok else f"zone identifier (text) is compared with the enumeration member ZoneType.{m[1]}: never equal")
    return n_cmp


def check_division_guards(ctx: CheckContext, p: Program, r: Resolver, funcs: List[FuncInfo], rule: str = "DIV-GUARD"):
    """`(a / X) if X <cmp> 0 else c`: a guard that is meant to protect a division by X must exclude X == 0."""
    ctx.rule(rule, "a conditional whose guarded arm divides by X and whose test compares X with zero uses a strict comparison (X > 0, X != 0, X < 0): "
                   "a non-strict guard lets 0/0 = NaN into the result record")
    n = 0
    for f in funcs:
        if isinstance(f.node, ast.Lambda):
            continue
        for node in body_nodes(f):
            test = body = None
            if isinstance(node, ast.IfExp):
                test, body = node.test, [node.body]
            elif isinstance(node, ast.If):
                test, body = node.test, node.body
            if test is None or not (isinstance(test, ast.Compare) and len(test.ops) == 1):
                continue
            l, op, rr = test.left, test.ops[0], test.comparators[0]
            zero = lambda e: isinstance(e, ast.Constant) and isinstance(e.value, (int, float)) and not isinstance(e.value, bool) and e.value == 0
            if zero(rr):
                x = l
            elif zero(l):
                x = rr
            else:
                continue
            xt = ast.unparse(x)
            divides = False
            for b in body:
                for d in ast.walk(b):
                    if isinstance(d, ast.BinOp) and isinstance(d.op, (ast.Div, ast.FloorDiv, ast.Mod)) and ast.unparse(d.right).strip("()") == xt.strip("()"):
                        divides = True
            if not divides:
                continue
            n += 1
            ok = isinstance(op, (ast.Gt, ast.Lt, ast.NotEq))
            ctx.ob(rule, f"{f.qualname}:{norm_stmt(test)}", f"{f.module.relpath}:{test.lineno}", ok,
                   "" if ok else f"`{ast.unparse(test)}` guards a division by `{xt}` but admits {xt} == 0: the result is NaN/inf (0/0) instead of the fallback value")
    return n

"""BOUND/SHEET - every sheet name handed to the workbook writer is legal for all zone names (C16)."""
from __future__ import annotations

import ast
import re
from typing import Dict, List, Optional, Set

from ..core.model import AnalysisError, FuncInfo, Program
from ..core.report import CheckContext, norm_stmt
from ..core.resolve import Resolver, body_nodes
from .strbound import INF, StrLen

FORBIDDEN = set(":\\/?*[]")
MAXLEN = 31


def _regex_class(pattern: str) -> Optional[Set[str]]:
    import re._parser as sre_parse  # type: ignore
    try:
        parsed = sre_parse.parse(pattern)
    except Exception:
        return None
    items = list(parsed)
    if len(items) != 1:
        return None
    op, av = items[0]
    if str(op) in ("MAX_REPEAT", "MIN_REPEAT"):
        lo, hi, sub = av
        if lo < 1 or len(list(sub)) != 1:
            return None
        op, av = list(sub)[0]
    out: Set[str] = set()
    if str(op) == "LITERAL":
        return {chr(av)}
    if str(op) != "IN":
        return None
    for kind, val in av:
        k = str(kind)
        if k == "LITERAL":
            out.add(chr(val))
        elif k == "RANGE":
            for c in range(val[0], val[1] + 1):
                out.add(chr(c))
        elif k == "NEGATE":
            return None
        else:
            return None
    return out


def check_sheet_names(ctx: CheckContext, p: Program, r: Resolver, rule: str = "BOUND"):
    ctx.rule(rule, "every sheet_name= is a legal literal or flows from the allocator; string-length abstract interpretation proves every "
                   "allocator return <= 31 for all names; each returned name was tested `not in used` and added; one `used` set per workbook; "
                   "the sanitiser's character class covers : \\ / ? * [ ]")
    m = p.modules.get("OpenPinch.utils.export")
    if m is None:
        raise AnalysisError("OpenPinch.utils.export not found")
    # ---- locate allocator: the function whose returns are all preceded by `X not in used` / used.add(X)
    alloc: Optional[FuncInfo] = None
    for f in m.funcs.values():
        has_slice = any(isinstance(n, ast.Subscript) and isinstance(n.slice, ast.Slice) for n in body_nodes(f))
        adds = [n for n in body_nodes(f) if isinstance(n, ast.Call) and isinstance(n.func, ast.Attribute) and n.func.attr == "add"
                and isinstance(n.func.value, ast.Name) and n.func.value.id in f.pos_params]
        rets = [n for n in body_nodes(f) if isinstance(n, ast.Return) and n.value is not None]
        if has_slice and adds and rets:
            alloc = f
    if alloc is None:
        raise AnalysisError("sheet-name allocator not found in utils/export.py (anchor vanished)")
    used_param = None
    for n in body_nodes(alloc):
        if isinstance(n, ast.Call) and isinstance(n.func, ast.Attribute) and n.func.attr == "add" and isinstance(n.func.value, ast.Name) \
                and n.func.value.id in alloc.pos_params:
            used_param = n.func.value.id
    # ---- sanitiser: function called by the allocator on its name argument that applies re.sub
    sanit: Optional[FuncInfo] = None
    for call, tg in r.calls_of(alloc):
        for t in tg:
            if isinstance(t, FuncInfo) and t.module is m:
                if any(isinstance(n, ast.Call) and isinstance(n.func, ast.Attribute) and n.func.attr == "sub" for n in body_nodes(t)):
                    sanit = t
    if sanit is None:
        name_params = [a for a in alloc.pos_params if a != used_param]
        through_call = any(isinstance(c, ast.Call) and any(isinstance(a, ast.Name) and a.id in name_params for a in c.args) for c in body_nodes(alloc))
        if through_call:
            # the name does go through some function (str.translate, a helper ...) this rule does not interpret as a sanitiser: undecided
            ctx.info.setdefault("bound_undecided", []).append(f"{alloc.qualname}: the name is cleaned by a call that is not a recognised re.sub sanitiser")
        else:
            ctx.ob(rule + "-CHARS", f"{alloc.qualname}:sanitiser", alloc.loc, False, "the allocator uses the raw name: it is never passed through a sanitiser")
    else:
        cls = None

        def const_str(e):
            """literal string, or a module-level name bound to one"""
            if isinstance(e, ast.Constant) and isinstance(e.value, str):
                return e.value
            if isinstance(e, ast.Name):
                b = m.ns.get(e.id)
                if b is not None and b.kind == "var" and isinstance(b.target[2], ast.Constant) and isinstance(b.target[2].value, str):
                    return b.target[2].value
            return None

        def sub_parts(call: ast.Call):
            """(pattern text, replacement node, subject node) of  re.sub(p, r, s)  or  <compiled>.sub(r, s)  with <compiled> = re.compile(p) at module level"""
            recv = call.func.value
            if isinstance(recv, ast.Name) and recv.id == "re":
                if len(call.args) >= 3:
                    return const_str(call.args[0]), call.args[1], call.args[2]
                return None
            if isinstance(recv, ast.Name):
                b = m.ns.get(recv.id)
                v = b.target[2] if b is not None and b.kind == "var" else None
                if isinstance(v, ast.Call) and isinstance(v.func, ast.Attribute) and v.func.attr == "compile" and v.args and len(call.args) >= 2:
                    return const_str(v.args[0]), call.args[0], call.args[1]
            return None
        for n in body_nodes(sanit):
            if isinstance(n, ast.Call) and isinstance(n.func, ast.Attribute) and n.func.attr == "sub" and n.args:
                parts = sub_parts(n)
                if parts is None or parts[0] is None:
                    raise AnalysisError(f"{sanit.loc}: the sanitiser's substitution pattern cannot be resolved to a literal: {ast.unparse(n)[:80]}")
                cls = _regex_class(parts[0])
                repl = parts[1].value if isinstance(parts[1], ast.Constant) else None
                subject = parts[2]
                pattern_text = parts[0]
                if cls is None:
                    raise AnalysisError(f"{sanit.loc}: sanitiser pattern is not a plain character class: {pattern_text!r}")
                missing = FORBIDDEN - cls
                ok = not missing
                ctx.ob(rule + "-CHARS", f"{sanit.qualname}:class", f"{sanit.module.relpath}:{n.lineno}", ok,
                       "" if ok else f"sanitiser does not replace forbidden character(s) {sorted(missing)}")
                ok2 = isinstance(repl, str) and not (set(repl) & FORBIDDEN)
                ctx.ob(rule + "-CHARS", f"{sanit.qualname}:replacement", f"{sanit.module.relpath}:{n.lineno}", ok2,
                       "" if ok2 else f"replacement text {repl!r} itself contains a forbidden character")
                ok3 = isinstance(subject, ast.Name) and subject.id in sanit.pos_params
                ctx.ob(rule + "-CHARS", f"{sanit.qualname}:subject", f"{sanit.module.relpath}:{n.lineno}", ok3,
                       "" if ok3 else "sanitiser substitutes in something other than its argument")
        if cls is None:
            raise AnalysisError(f"{sanit.loc}: no literal re.sub pattern in the sanitiser")
        # every return of the sanitiser derives from the substituted text or is a legal literal
        for n in body_nodes(sanit):
            if isinstance(n, ast.Return) and n.value is not None:
                lits = [c.value for c in ast.walk(n.value) if isinstance(c, ast.Constant) and isinstance(c.value, str)]
                bad = [l for l in lits if set(l) & FORBIDDEN]
                # the argument may appear as the SUBJECT of the substitution; anywhere else in the returned expression it is the raw text
                inside_sub = set()
                for c in ast.walk(n.value):
                    if isinstance(c, ast.Call) and isinstance(c.func, ast.Attribute) and c.func.attr == "sub":
                        inside_sub |= {id(x) for a in c.args for x in ast.walk(a)}
                names = {x.id for x in ast.walk(n.value) if isinstance(x, ast.Name) and id(x) not in inside_sub}
                ok = not bad and not (names & set(sanit.pos_params))
                ctx.ob(rule + "-CHARS", f"{sanit.qualname}:{norm_stmt(n)}", f"{sanit.module.relpath}:{n.lineno}", ok,
                       "" if ok else "sanitiser can return the raw argument or a literal with forbidden characters")
    # ---- length proof for the allocator
    constants = {}
    for nm, b in m.ns.items():
        if b.kind == "var" and b.target[0] == m.name and isinstance(b.target[2], ast.Constant) and isinstance(b.target[2].value, int) \
                and not isinstance(b.target[2].value, bool):
            constants[nm] = b.target[2].value
    helpers = {nm: fx.node for nm, fx in m.funcs.items() if fx is not alloc and fx is not sanit}
    sl = StrLen(alloc.node, where=alloc.loc, constants=constants, helpers=helpers)
    rets = sl.run()
    if not rets:
        raise AnalysisError(f"{alloc.loc}: allocator has no analysable return")
    for ret, ub in rets:
        ok = ub <= MAXLEN
        if not ok and ub >= INF and getattr(sl, "unknown", None):
            # no bound could be derived because a string comes out of a call the interpreter does not model (a generator pipeline, str.translate ...):
            # that is "not decided", not "unbounded"
            ctx.info.setdefault("bound_undecided", []).append(f"{alloc.qualname}: {norm_stmt(ret)}: length depends on {sorted(set(sl.unknown))[:3]}")
            continue
        ctx.ob(rule + "-LEN", f"{alloc.qualname}:{norm_stmt(ret)}", f"{alloc.module.relpath}:{ret.lineno}", ok,
               "" if ok else f"returned sheet name can be {ub if ub < INF else 'unboundedly'} characters long (> {MAXLEN})", bound=ub)
    # ---- uniqueness discipline: on every path to `return v`, v was tested absent from `used` (enclosing `if v not in used`
    #      or a preceding `while v in used` loop) and then recorded with used.add(v), with no rebinding in between
    from ..core.flow import Flow

    class _Uniq(Flow):
        def __init__(self):
            self.rets = []

        def copy(self, s):
            return dict(s)

        def join(self, a, b):
            out = {}
            for k in set(a) | set(b):
                x, y = a.get(k, (False, False)), b.get(k, (False, False))
                out[k] = None if (x is None or y is None) else (x[0] and y[0], x[1] and y[1])
            return out

        def _absent_test(self, test):
            if isinstance(test, ast.Compare) and len(test.ops) == 1 and isinstance(test.left, ast.Name) and isinstance(test.comparators[0], ast.Name) \
                    and test.comparators[0].id == used_param:
                if isinstance(test.ops[0], ast.NotIn):
                    return test.left.id, True
                if isinstance(test.ops[0], ast.In):
                    return test.left.id, False
            return None

        def branch(self, test, s):
            t, f_ = dict(s), dict(s)
            at = self._absent_test(test)
            if at is not None:
                v, absent_on_true = at
                (t if absent_on_true else f_)[v] = (True, False)
            return t, f_

        def transfer(self, st, s):
            s = dict(s)
            if isinstance(st, ast.Assign):
                opaque = isinstance(st.value, ast.Call) and isinstance(st.value.func, ast.Name) and st.value.func.id in ("next", "min", "max", "first")
                for tg in st.targets:
                    for n in ast.walk(tg):
                        if isinstance(n, ast.Name):
                            s[n.id] = None if opaque else (False, False)       # None: chosen by a search this rule does not interpret
            elif isinstance(st, ast.AugAssign) and isinstance(st.target, ast.Name):
                s[st.target.id] = (False, False)
            elif isinstance(st, ast.Expr) and isinstance(st.value, ast.Call) and isinstance(st.value.func, ast.Attribute) and st.value.func.attr == "add" \
                    and isinstance(st.value.func.value, ast.Name) and st.value.func.value.id == used_param and len(st.value.args) == 1 \
                    and isinstance(st.value.args[0], ast.Name):
                v = st.value.args[0].id
                if (s.get(v) or (False, False))[0]:
                    s[v] = (True, True)
            elif isinstance(st, ast.Return):
                v = st.value.id if isinstance(st.value, ast.Name) else None
                if v is None or (v in s and s[v] is None):
                    self.rets.append((st, None))
                else:
                    self.rets.append((st, s.get(v, (False, False)) == (True, True)))
            return s

    uf = _Uniq()
    uf.run(alloc.node, {})
    for ret, ok in uf.rets:
        if ok is None:
            ctx.info.setdefault("bound_undecided", []).append(f"{alloc.qualname}: {norm_stmt(ret)}: the returned name is chosen by an expression this rule does not interpret")
            continue
        ctx.ob(rule + "-UNIQ", f"{alloc.qualname}:{norm_stmt(ret)}", f"{alloc.module.relpath}:{ret.lineno}", ok,
               "" if ok else "a sheet name is returned without having been tested absent from `used` and recorded in `used` on every path")
    # ---- call sites: every sheet_name= in the module; the used set is created once per workbook
    n_sites = 0
    for f in m.funcs.values():
        local_from_alloc: Set[str] = set()
        used_vars: Dict[str, ast.stmt] = {}
        for n in body_nodes(f):
            if isinstance(n, ast.Assign) and len(n.targets) == 1 and isinstance(n.targets[0], ast.Name) and isinstance(n.value, ast.Call):
                tg = r.resolve_call(f, n.value)
                if alloc in tg:
                    local_from_alloc.add(n.targets[0].id)
                    # the used-set argument
                    idx = alloc.pos_params.index(used_param)
                    arg = n.value.args[idx] if len(n.value.args) > idx else next((k.value for k in n.value.keywords if k.arg == used_param), None)
                    if isinstance(arg, ast.Name):
                        used_vars[arg.id] = n
                    else:
                        ctx.ob(rule + "-SET", f"{f.qualname}:{norm_stmt(n)}", f"{f.module.relpath}:{n.lineno}", False,
                               "the allocator is called with a fresh/temporary `used` set, so names cannot be unique across the workbook")
        for uv, site in used_vars.items():
            # must be assigned exactly once, at the top level of the function body (outside every loop), as set()
            assigns = [st for st in ast.walk(f.node) if isinstance(st, (ast.Assign, ast.AnnAssign))
                       and any(isinstance(t, ast.Name) and t.id == uv for t in (st.targets if isinstance(st, ast.Assign) else [st.target]))]
            top = [st for st in assigns if st in f.node.body]
            ok = len(assigns) == 1 and len(top) == 1 or (uv in f.pos_params and not assigns)
            ctx.ob(rule + "-SET", f"{f.qualname}:{uv}", f"{f.module.relpath}:{site.lineno}", ok,
                   "" if ok else f"the `used` set '{uv}' is (re)created inside a loop or branch; names are only unique within one iteration")
        for n in body_nodes(f):
            if isinstance(n, ast.Call):
                for kw in n.keywords:
                    if kw.arg == "sheet_name":
                        n_sites += 1
                        v = kw.value
                        if isinstance(v, ast.Constant) and isinstance(v.value, str):
                            ok = 0 < len(v.value) <= MAXLEN and not (set(v.value) & FORBIDDEN)
                            why = "literal sheet name is illegal"
                        elif isinstance(v, ast.Name) and v.id in local_from_alloc:
                            ok, why = True, ""
                        else:
                            ok, why = False, f"sheet_name={ast.unparse(v)} does not come from the allocator"
                        ctx.ob(rule + "-SITE", f"{f.qualname}:{norm_stmt(n)[:80]}", f"{f.module.relpath}:{n.lineno}", ok, "" if ok else why)
    ctx.info["sheet_name_sites"] = n_sites
    return alloc

"""C02 - energy-balance bookkeeping: cold window cannot wrap (WRAP), generation/use matching removes one bounded duty from both sides (PAIR-2),
paired hot/cold targets come from one cascade (PAIR-SRC), zone sums feed each accumulator once (ACC)."""
from ..core.model import Program
from ..core.report import CheckContext
from ..core.resolve import Resolver
from ..rules import bookkeeping as bk
from ..rules import inval as _inval_rl
from .common import run_control, generic_rules, anchor_funcs


def analyse(ctx: CheckContext, p: Program):
    r = Resolver(p)
    ctx.guard(generic_rules, ctx, p, r, "C02")
    ctx.guard(_inval_rl.check_round_last, ctx, p, r, anchor_funcs(p, "C02"))
    fs = [f for f in p.all_funcs if f.module.name in ("OpenPinch.analysis.utility_targeting",)]
    ctx.guard(bk.check_wrap, ctx, p, r, fs)
    ctx.guard(bk.check_gen_use_matching, ctx, p, r)
    ctx.guard(bk.check_pair_source, ctx, p, r, [f for f in p.all_funcs if f.module.name.startswith("OpenPinch.analysis.")])
    ctx.guard(bk.check_zone_sum, ctx, p, r)
    ctx.guard(bk.check_default_filter, ctx, p, r)
    ctx.guard(bk.check_name_match, ctx, p, r, [f for f in p.all_funcs if f.module.name in ("OpenPinch.analysis.indirect_integration_entry", "OpenPinch.analysis.direct_integration_entry")])


def run(ctx: CheckContext):
    p = Program()
    analyse(ctx, p)
    ctx.floor("WRAP", 2)
    ctx.floor("PAIR-2", 4)
    ctx.floor("PAIR-SRC", 2)
    ctx.floor("ACC", 7)
    ctx.assumptions += [
        "decides necessary bookkeeping conditions of the first-law balance (no wrapped cold window, equal subtraction in generation/use matching, both site targets read "
        "from one cascade, every zone total fed once); the balance identity itself is numeric and NOT decided",
    ]
    ind = "OpenPinch/analysis/indirect_integration_entry.py"
    run_control(ctx, "C02/cold-target-from-other-table", analyse, p.root, ind,
                "cold_utility_target = pt.loc[-1, PT.H_NET_UT.value]", "cold_utility_target = pt_real.loc[-1, PT.H_NET_UT.value]", "PAIR-SRC")
    run_control(ctx, "C02/unequal-subtraction", analyse, p.root, ind, "u_c.set_heat_flow(u_c.heat_flow - Q)", "u_c.set_heat_flow(u_c.heat_flow - u_h.heat_flow)", "PAIR-2")
    run_control(ctx, "C02/matched-amount-max", analyse, p.root, ind, "Q = min(u_h.heat_flow, u_c.heat_flow)", "Q = max(u_h.heat_flow, u_c.heat_flow)", "PAIR-2")
    run_control(ctx, "C02/accumulator-forgotten", analyse, p.root, ind, "        cold_utility_target += t.cold_utility_target\n", "", "ACC")
    run_control(ctx, "C02/targets-swapped", analyse, p.root, ind,
                "        hot_utility_target,\n        cold_utility_target,\n        heat_recovery_target,\n        heat_recovery_limit,\n    )\n    zone.add_target_from_results(\n        TargetType.TZ.value,",
                "        cold_utility_target,\n        hot_utility_target,\n        heat_recovery_target,\n        heat_recovery_limit,\n    )\n    zone.add_target_from_results(\n        TargetType.TZ.value,", "NAME-MATCH")

"""Placeholder for legacy energy-transfer targeting routines (currently unused)."""

# import copy
# from typing import Optional
# from ..utils import *
# from ..classes import *
# from ..analysis.support_methods import *


# # TODO: Refactor this entire file.

# __all__ = ["_get_unit_operation_targets"]

# #######################################################################################################
# # Public API --- TODO: Need to restore energy transfer diagram analysis
# #######################################################################################################


# def etd(site: Zone):
#     """
#     Calculates the ETD and retrofit targets.
#     """

#     # Prepares variables and arrays
#     ETD = [ [0, 0] for i in range(1 + len(site.subzones) * 3) ]
#     ETD_star = copy.deepcopy(ETD)

#     for z in site.subzones:
#         # Redefine heat exchanger pockets based on detailed ETD retrofit analysis
#         Req_ut = True if z.hot_utility_target + z.cold_utility_target > tol else False
#         if site.config.GCC_VERT_CUT_KINK_OPTION and not Req_ut:
#             z.graphs['GCC_etc'] = site.Reshape_GCC_Pockets(z.graphs['PT_star'], z.graphs['GCC_etc'])
#         site.Extract_Pro_ETC(ETD_star, z, z.graphs['PT_star'], Req_ut)
#         site.Extract_Pro_ETC(ETD, z, z.graphs['PT'], Req_ut)

#     site_tit: Zone = site.targets[TargetType.DI.value]
#     PT_TIT = site_tit.graphs['PT']
#     PT_star_TIT = site_tit.graphs['PT_star']

#     # Forms a complete set of temperature intervals
#     T_int_star = site.Compile_ETD_T_int(ETD_star, PT_star_TIT)
#     T_int = site.Compile_ETD_T_int(ETD, PT_TIT)

#     # Expands Heat Cascade Table to be based on the complete set of temperature intervals
#     ETD_star = site.Transpose_ETD_T(ETD_star, T_int_star)
#     ETD = site.Transpose_ETD_T(ETD, T_int)

#     # Calculates the ETD
#     ETD_star_header = site.Stack_ETD(ETD_star, PT_star_TIT, 'ETD', True)
#     ETD_header = site.Stack_ETD(ETD, PT_TIT, 'ETD', False)

#     # Shift thermodynamic limiting curve to match the end of the ETD
#     dh = ETD_star[-1][1] - PT_TIT[10][0]
#     PT_TIT = shift_heat_cascade(PT_TIT, dh, 10)

#     # Determines the Advanced Composite Curve that combines conventional CC and the ETD
#     ACC_star = site.Calc_ACCN(ETD_star, PT_star_TIT)
#     ACC = site.Calc_ACCN(ETD, PT_TIT)

#     # Reduces the number of T int to the minimum
#     site.Simplify_ETD(ETD_star)
#     site.Simplify_ETD(ETD)
#     site.Simplify_ETD(ACC_star)
#     site.Simplify_ETD(ACC)

#     # Record retrofit targets
#     Hot_Pinch, Cold_Pinch = get_pinch_temperatures(PT_star_TIT, 10, 0)

#     Retrofit = Zone(name=TargetType.ET.value, config=site.config)
#     Retrofit.hot_pinch = Hot_Pinch
#     Retrofit.hot_utility_target = ETD_star[-1][1]
#     Retrofit.cold_utility_target = ETD_star[-1][-1]
#     Retrofit.retrofit_target = Retrofit.hot_utility_target - site_tit.hot_utility_target
#     Retrofit.heat_recovery_target = site_tit.heat_recovery_target - Retrofit.retrofit_target
#     Retrofit.degree_of_int = Retrofit.heat_recovery_target / site_tit.heat_recovery_limit if site_tit.heat_recovery_limit > 0 else 1
#     Retrofit.add_graph('ETD', ETD)
#     Retrofit.add_graph('ETD_star', ETD_star)
#     Retrofit.add_graph('ACC', ACC)
#     Retrofit.add_graph('ACC_star', ACC_star)
#     Retrofit.add_graph('ETD_header', ETD_header)
#     site.add_zone(Retrofit)


# #######################################################################################################
# # Helper Functions
# #######################################################################################################

# def Reshape_GCC_Pockets(site, PT_star, GCC_etc):
#     """Redefine GCC pockets based on possible HEN retrofit design considerations.
#     """
#     GCC_etc = GCC_etc[:2]
#     for i in range(len(GCC_etc)):
#         GCC_etc[i] = GCC_etc[i][:len(PT_star[0])]

#     min_H_cross = 1E+35

#     for j in range(len(PT_star[0])):
#         GCC_etc[1][j] = PT_star[1][j]
#         if j == 0 or j == len(PT_star[0]):
#             GCC_etc[2][j] = 0
#         else:
#             if abs(PT_star[9][j]) > tol:
#                 if PT_star[3][j] > PT_star[6][j]:
#                     GCC_etc[2][j] = GCC_etc[2][j - 1] + PT_star[2][j] * PT_star[3][j]
#                 else:
#                     GCC_etc[2][j] = GCC_etc[2][j - 1] - PT_star[2][j] * PT_star[6][j]
#             else:
#                 GCC_etc[2][j] = GCC_etc[2][j - 1]
#             if PT_star[3][j] > tol and PT_star[6][j] > tol:
#                 min_H_cross = min(PT_star[11][j], min_H_cross)
#                 min_H_cross = min(PT_star[11][j - 1], min_H_cross)

#     DH_shift = GCC_etc[2][len(GCC_etc[0])]
#     for j in range(len(PT_star[0])):
#         GCC_etc[2][j] = GCC_etc[2][j] - DH_shift

#     for j in range(1, len(PT_star[0])):
#         if min_H_cross > (min(GCC_etc[2][j], GCC_etc[2][j - 1])) + tol and min_H_cross < (max(GCC_etc[2][j], GCC_etc[2][j - 1])) - tol:
#             j_0 = j
#             h_0 = min_H_cross
#             T_new = linear_interpolation(h_0, GCC_etc[2][j_0], GCC_etc[2][j_0 - 1], GCC_etc[1][j_0], GCC_etc[1][j_0 - 1])
#             PT_star = insert_temperature_interval_into_pt(PT_star, T_new, j_0)
#             j_0 = j
#             GCC_etc = insert_temperature_interval_into_pt(GCC_etc, T_new, j_0)

#     for j in range(len(PT_star[0])):
#         if PT_star[11][j] > min_H_cross:
#             PT_star[11][j] = min_H_cross
#     return GCC_etc

# def Write_HSDT(site, ETD, ETD_header, sheet, row=4, col=1, exclude_small_DH=False):
#     """Prints the ETD table to a spreadsheet.
#     """
#     # DoEvents
#     if not sheet.visible:
#         sheet.visible = True

#     k = 1
#     row_0 = row
#     sheet.cells(1, col).value = 'Ti'
#     # sheet.cells(1, col).characters[1].font.defscript = True
#     sheet.cells(3, col).value = chr(176)

#     for i in range(1, len(ETD), 3):
#         sheet.cells(1, col + k).value = ETD[i][0]
#         sheet.cells(2, col + k).value = chr(916) + 'Hnet'
#         # sheet.cells(2, col + k).characters[2:5].font.defscript = True
#         sheet.cells(3, col + k).value = 'kW'
#         k += 1

#     k = 0
#     for j in range(len(ETD[0])):
#         sheet.cells(row + (j - 1), col + k).value = ETD[0][j]

#     k = 1
#     for i in range(1, len(ETD), 3):
#         for j in range(1, len(ETD[0])):
#             sheet.cells(row + (j - 1), col + k).value = ETD[i][j] if ETD_header[i + 1][5] == 0 or exclude_small_DH == False else 0
#         k += 1

#     # With Range(sheet.cells(row_0, 2), sheet.cells(row_0 + len(ETD[0]) - 1, (len(ETD) - 1) / 3 + 3))
#     #     Add conditional formatting to Table
#     #     .FormatConditions.AddColorScale ColorScaleType:=3
#     #     .FormatConditions(.FormatConditions.count).SetFirstPriority
#     #     .FormatConditions(1).ColorScaleCriteria(1).Type = xlConditionValueLowestValue
#     #     With .FormatConditions(1).ColorScaleCriteria(1).FormatColor
#     #         .ThemeColor = xlThemeColorAccent1
#     #         .TintAndShade = 0
#     #     End With
#     #     .FormatConditions(1).ColorScaleCriteria(2).Type = xlConditionValueNumber
#     #     .FormatConditions(1).ColorScaleCriteria(2).Value = 0
#     #     With .FormatConditions(1).ColorScaleCriteria(2).FormatColor
#     #         .ThemeColor = xlThemeColorDark1
#     #         .TintAndShade = 0
#     #     End With
#     #     .FormatConditions(1).ColorScaleCriteria(3).Type = xlConditionValueHighestValue
#     #     With .FormatConditions(1).ColorScaleCriteria(3).FormatColor
#     #         .Color = 255
#     #         .TintAndShade = 0
#     #     End With

#     #     Draw boarders for Table
#     #     With .Borders(xlEdgeLeft)
#     #         .LineStyle = xlContinuous
#     #         .ThemeColor = 1
#     #         .TintAndShade = -0.149998474074526
#     #         .Weight = xlThin
#     #     End With
#     #     With .Borders(xlEdgeTop)
#     #         .LineStyle = xlContinuous
#     #         .ThemeColor = 1
#     #         .TintAndShade = -0.149998474074526
#     #         .Weight = xlThin
#     #     End With
#     #     With .Borders(xlEdgeBottom)
#     #         .LineStyle = xlContinuous
#     #         .ThemeColor = 1
#     #         .TintAndShade = -0.149998474074526
#     #         .Weight = xlThin
#     #     End With
#     #     With .Borders(xlEdgeRight)
#     #         .LineStyle = xlContinuous
#     #         .ThemeColor = 1
#     #         .TintAndShade = -0.149998474074526
#     #         .Weight = xlThin
#     #     End With
#     #     With .Borders(xlInsideVertical)
#     #         .LineStyle = xlContinuous
#     #         .ThemeColor = 1
#     #         .TintAndShade = -0.149998474074526
#     #         .Weight = xlThin
#     #     End With
#     #     With .Borders(xlInsideHorizontal)
#     #         .LineStyle = xlContinuous
#     #         .ThemeColor = 1
#     #         .TintAndShade = -0.149998474074526
#     #         .Weight = xlThin
#     #     End With
#     # End With

# def Compile_ETD_T_int(site, ETD, PT_TIT):
#     """Grabs temperatures from every process operation GCC with a defined system,
#     order, and remove duplicates.
#     """
#     T_int = [ [None for i in range(10000)] ]

#     n = 0
#     j = 1
#     while j < len(ETD):
#         for i in range(1, len(ETD[0])):
#             if ETD[j][i] == None:
#                 break
#             T_int[0][n] = ETD[j][i]
#             n += 1
#         j += 3

#     j_0 = j + 1

#     for j in range(0, len(PT_TIT), 3):
#         for i in range(len(PT_TIT[0])):
#             if PT_TIT[j][i] == None:
#                 break
#             T_int[0][n] = PT_TIT[j][i]
#             n += 1

#     T_int = T_int.sort(reverse=True)

#     # TODO: I think this is unnecessary because the None values would be removed in get_ordered_list.
#     # if T_int[0][len(T_int[0])] < tol or T_int[0][len(T_int[0])] == None:
#     #     for i in range(len(T_int[0]) - 1, -1, -1):
#     #         if T_int[0][i] == None:
#     #             break
#     #     T_int[0][i] = 0
#     return T_int

# def Transpose_ETD_T(site, ETD, T_int):
#     """Transposes temperature intervals from individual GCC cascades to a common set of temperature intervals for the entire system.
#     """
#     ETD_temp = [ [ None for j in range(len(T_int[0]) + 1)] for i in range(len(ETD))]

#     ETD_temp[0][0] = 'T'
#     for i in range(1, len(ETD_temp[0])):
#         ETD_temp[0][i] = T_int[0][i - 1]

#     for j in range(1, len(ETD), 3):
#         k = 2
#         ETD_temp[j][0] = ETD[j][0]
#         ETD_temp[j + 1][0] = None
#         ETD_temp[j + 2][0] = ETD[j + 2][0]

#         ETD_temp[j][1] = None
#         ETD_temp[j + 1][1] = ETD[j + 2][1]
#         ETD_temp[j + 2][1] = 0

#         for i in range(2, len(ETD_temp[0])):
#             if k >= len(ETD[0]):
#                 ETD_temp[j][i] = 0
#                 ETD_temp[j + 1][i] = ETD_temp[j + 1][i - 1]
#                 continue
#             if (ETD_temp[0][i - 1] <= ETD[j][k - 1] + tol) and (ETD_temp[0][i] >= ETD[j][k] - tol):
#                 CPnet = ETD[j + 1][k]
#                 dt = ETD_temp[0][i - 1] - ETD_temp[0][i]
#                 ETD_temp[j][i] = dt * CPnet
#                 ETD_temp[j + 1][i] = ETD_temp[j + 1][i - 1] + dt * CPnet
#                 if abs(ETD_temp[0][i] - ETD[j][k]) < tol:
#                     k += 1
#             else:
#                 ETD_temp[j][i] = 0
#                 ETD_temp[j + 1][i] = ETD_temp[j + 1][i - 1]
#     return ETD_temp

# def Simplify_ETD(site, ETD):
#     """Reduces the ETD (and HSDT) to the minimum number of T intervals by removing all
#     intervals between which there are not changes in CP for all process operations.
#     """
#     # Remove low temperature intervals that exceed the maximum temperatures
#     # for i in range(len(ETD[0]) - 1, 1, -1): # Loop from lowerest to highest temperature
#     #     for j in range(1, len(ETD), 3):
#     #         if ETD[j][i] > tol:
#     #             break # Temperature interval cannot be removed if true
#     #     else:
#     #         continue
#     #     break

#     # if i < len(ETD[0]):
#     #     for j in range(len(ETD)):
#     #         ETD[j] = ETD[j][:i]

#     # # Remove high temperature intervals that exceed the maximum temperatures
#     # for i in range(2, len(ETD[0])): # Loop from highest to lowerest temperature
#     #     for j in range(1, len(ETD), 3):
#     #         if abs(ETD[j][i]) > tol:
#     #             break # Temperature interval cannot be removed if true
#     #     else:
#     #         continue
#     #     break

#     # i = i - 2
#     # if i > 0:
#     #     for n in range(1, len(ETD[0]) - i):
#     #         for m in range(len(ETD)):
#     #             ETD[m][n] = ETD[m][n + i]
#     #     for row in ETD:
#     #         row.pop()

#     # Join two T intervals where CP is constant for all zones
#     for i in range(len(ETD[0]) - 1, 2, -1): # Loop from lowest to highest temperature
#         for j in range(1, len(ETD), 3):
#             CP_0 = ETD[j][i] / (ETD[0][i - 1] - ETD[0][i])
#             CP_1 = ETD[j][i - 1] / (ETD[0][i - 2] - ETD[0][i - 1])
#             if abs(CP_0 - CP_1) > tol:
#                 break # Temperature interval cannot be removed if true
#         else:
#             n = i
#             ETD[0][n - 1] = ETD[0][n]
#             for m in range(1, len(ETD), 3):
#                 ETD[m][n - 1] = ETD[m][n - 1] + ETD[m][n]
#                 ETD[m + 1][n - 1] = ETD[m + 1][n - 1] + ETD[m][n]
#                 ETD[m + 2][n - 1] = ETD[m + 2][n - 1] + ETD[m][n]
#             for n in range(i, len(ETD[0]) - 1):
#                 for m in range(len(ETD)):
#                     ETD[m][n] = ETD[m][n + 1]
#             for row in ETD:
#                 row.pop()

# def Stack_ETD(site, ETD, PT, Diagram_type, is_shifted):
#     """Determine the order and stack individual heat cascades of process operations.
#     """
#     Hot_Pinch, Cold_Pinch = get_pinch_temperatures(PT, 10, 0)

#     ETD_header = [ [None for j in range(11)] for i in range(len(ETD))]

#     for j in range(1, len(ETD), 3):
#         site.Characterise_ETC(ETD, ETD_header, Hot_Pinch, Cold_Pinch, j + 1, ETD[j + 2][0])

#     # Reorder HX in the ETD
#     ETD_temp = copy.deepcopy(ETD)

#     for j in range(1, len(ETD)):
#         ETD[j] = [None for k in range(len(ETD[0]))]

#     ETD_header_temp = copy.deepcopy(ETD_header)

#     col_ETD = 2
#     site.Write_Next_ETC(ETD, ETD_temp, ETD_header, ETD_header_temp, col_ETD)

#     HX_type_1 = 'C'
#     HX_type_2 = 'R'
#     HX_type_3 = 'H'

#     j_0 = 0
#     for j in range(3, len(ETD), 3):
#         if ETD[j][0] == HX_type_1[:1] or \
#                 ETD[j][0] == HX_type_2[:1] or \
#                 ETD[j][0] == HX_type_3[:1]:
#             if j_0 == 0:
#                 j_0 = j
#             for i in range(1, len(ETD[0])):
#                 if j == j_0:
#                     ETD[j][i] = 0 if ETD_header[j - 1][5] == 1 and is_shifted else ETD[j - 1][i]
#                 else:
#                     ETD[j][i] = ETD[j_0][i] if ETD_header[j - 1][5] == 1 and is_shifted else ETD[j - 1][i] + ETD[j_0][i]
#             j_0 = j

#     return ETD_header

# def Calc_ACCN(site, ETD, PT_TIT):
#     """Calculate Adv CC with integrated ETD.
#     """
#     ACC = [
#         [ None for j in range(len(ETD[0])) ] for i in range(len(ETD) + 3)
#     ]

#     i = 0
#     ACC[0][0] = ETD[0][0]
#     ACC[1][0] = 'HCC'

#     for j in range(1, len(ETD), 3):
#         ACC[j + 3][0] = ETD[j][0]
#         ACC[j + 4][0] = ETD[j + 1][0]
#         ACC[j + 5][0] = ETD[j + 2][0]

#     for i in range(1, len(ACC[0])):
#         ACC[0][i] = ETD[0][i]

#         if abs(ACC[0][i] - PT_TIT[0][i]) > tol:
#             PT_TIT = insert_temperature_interval_into_pt(PT_TIT, ACC[0][i], i)

#         if i > 1:
#             ACC[1][i] = PT_TIT[4][i] - PT_TIT[4][i - 1]
#         ACC[2][i] = PT_TIT[4][i]
#         ACC[3][i] = PT_TIT[4][i]

#     for i in range(1, len(ACC[0])):
#         for j in range(1, len(ETD), 3):
#             ACC[j + 3][i] = ETD[j][i]
#             ACC[j + 4][i] = ETD[j + 1][i]
#             ACC[j + 5][i] = ETD[j + 2][i] + ACC[3][i]

#     return ACC

# def Characterise_ETC(site, ETD, ETD_header, Hot_Pinch, Cold_Pinch, Col_j, HX_mode):
#     """Characterises the shape, enclosed area, and temperature driving force of each heat cascade.
#     """
#     TH_tot_area = 0
#     TH_w_tot_area = 0
#     T_h_max = -1000
#     H_max = 0
#     ETD_header[Col_j][0] = 0 # Check for Cross-Pinch Heat Transfer
#     t_const = 99 # tune weghting constant
#     for i in range(2, len(ETD[0])):
#         TH_sub_area = abs(0.5 * (ETD[Col_j][i - 1] + ETD[Col_j][i]) / (ETD[0][i - 1] - ETD[0][i])) # Determine T-H area (row 1)
#         # Determine weighting factor
#         if ETD[0][i] > Hot_Pinch + tol:
#             w = 1 / (abs((ETD[0][i - 1] + ETD[0][i]) / 2 - Hot_Pinch) / t_const + 1)
#         elif ETD[0][i] < Cold_Pinch - tol:
#             w = 1 / (abs((ETD[0][i - 1] + ETD[0][i]) / 2 - Cold_Pinch) / t_const + 1)
#         else:
#             w = 1
#             if abs(ETD[Col_j][i]) > tol:
#                 ETD_header[Col_j][4] = 1
#         TH_tot_area += TH_sub_area
#         TH_w_tot_area += w * TH_sub_area
#         if H_max < abs(ETD[Col_j][i]):
#             H_max = abs(ETD[Col_j][i])
#         if T_h_max == -1000 and abs(ETD[Col_j - 1][i]) > tol:
#             T_h_max = (ETD[0][i - 1] + 273.15) if HX_mode == 'C' else 1 / (ETD[0][i - 1] + 273.15)

#     ETD_header[Col_j][0] = ETD[Col_j - 1][0]
#     ETD_header[Col_j][1] = TH_w_tot_area
#     ETD_header[Col_j][2] = TH_tot_area
#     ETD_header[Col_j][3] = H_max
#     ETD_header[Col_j][4] = T_h_max

#     ETD_header[Col_j][10] = 1 / T_h_max if HX_mode == 'C' else T_h_max

# def Write_Next_ETC(site, ETD, ETD_temp, ETD_header, ETD_header_temp, k):
#     H_thres = site.config.THRESHOLD
#     TH_area_thres = site.config.AREA_THRESHOLD * 1000
#     for HX_Type in ['C', 'R', 'H']:
#         HX_num = 0
#         for i in range(3, len(ETD), 3):
#             if ETD_temp[i][0] == HX_Type:
#                 HX_num += 1

#         if HX_num > 0:
#             k_max = k + (HX_num - 1) * 3 + 1
#             for k in range(k, k_max, 3):
#                 Var_temp = 0
#                 for j in range(2, len(ETD_temp), 3):
#                     if ETD_header_temp[j][10] > Var_temp and ETD_temp[j + 1][0] == HX_Type:
#                         Var_temp = ETD_header_temp[j][10]
#                         k_1 = j
#                 ETD_header_temp[k_1][10] = 0
#                 for i in range(len(ETD_temp[0])):
#                     ETD[k - 1][i] = ETD_temp[k_1 - 1][i]
#                     ETD[k][i] = ETD_temp[k_1][i]

#                 ETD[k + 1][0] = ETD_temp[k_1 + 1][0]
#                 for i in range(len(ETD_header_temp[0])):
#                     ETD_header[k][i] = ETD_header_temp[k_1][i]
#                 ETD_header[k][5] = 0
#                 if (site.config.SET_MIN_DH_THRES and ETD_header[k][3] < H_thres) or (site.config.SET_MIN_TH_AREA and ETD_header[k][1] < TH_area_thres):
#                     if HX_Type[:1] == 'R': # (RetrofitForm.Excl_UE_Option.Value and (HX_Type[:1] = 'H' or HX_Type[:1] = 'C')) Or
#                         ETD_header[k][6] = 1
#             k += 3

# def Extract_Pro_ETC(site, ETD, z, PT, Req_ut):
#         """Save an individual process operation GCC for the ETD.
#         """
#         j = z.zone_num * 3 - 1
#         ETD[j - 1][0] = z.name
#         ETD[j][0] = 'CP net'
#         if Req_ut:
#             ETD[j + 1][0] = 'H' if PT[10][0] > tol else 'C'
#         else:
#             ETD[j + 1][0] = 'R'

#         n = max(len(ETD[0]) - 1, len(PT[0])) + 1
#         if n != len(ETD[0]):
#             for i in range(len(ETD)):
#                 ETD[i] += [None for k in range(n - len(ETD[i]))]
#         for i in range(len(PT[0])):
#             ETD[j - 1][i + 1] = PT[0][i]
#             ETD[j][i + 1] = PT[8][i]

#         ETD[j + 1][1] = PT[10][0]

"""COL-CACHE - a problem-table column is never consulted to decide whether the routine that fills it runs.

``if np.isnan(pt.col[K]).all(): fill(pt)`` (or ``if flag or <K not yet there>: fill(pt)``) turns column K into a cache of
``fill``'s result with no invalidation at all: the other columns ``fill`` derives K from can change between two calls (the
cascade is updated in place, a copy of a processed table is given a new cascade) and K - and everything computed from it -
keeps describing the old contents.  The columns a routine certainly writes are taken from the must-write summaries of COLDEF
(all callees followed); the test is matched structurally: the If test reads ``X.col[K]`` / ``X.loc[.., K]`` / ``X[K]`` of the
very table X the guarded call receives, and K is among the columns that call certainly writes.
"""
from __future__ import annotations

import ast
from typing import List, Optional, Set, Tuple

from ..core.model import FuncInfo, Program
from ..core.report import CheckContext
from ..core.resolve import Resolver, body_nodes
from .coldef import ColEngine, _ColFlow
from .tables import label_of


def _cols_read(r: Resolver, eng: ColEngine, f: FuncInfo, e: ast.AST) -> Set[Tuple[str, str]]:
    out: Set[Tuple[str, str]] = set()
    for n in ast.walk(e):
        if not isinstance(n, ast.Subscript):
            continue
        base, key = n.value, n.slice
        if isinstance(base, ast.Attribute) and base.attr in ("col", "loc", "iloc", "icol") and isinstance(base.value, ast.Name):
            tv = base.value.id
            if isinstance(key, ast.Tuple) and len(key.elts) == 2:
                key = key.elts[1]
        elif isinstance(base, ast.Name):
            tv = base.id
        else:
            continue
        lab = label_of(r, f, f.module, key, eng.lab)
        if lab is not None:
            out.add((tv, lab))
    return out


def check_column_not_cache(ctx: CheckContext, p: Program, r: Resolver, funcs: List[FuncInfo], rule: str = "COL-CACHE") -> int:
    ctx.rule(rule, "no `if` decides from the current contents of column K of a table whether to call the routine that (certainly) writes column K of that table: "
                   "the column would be a cache of the routine's result that nothing invalidates (must-write summaries of every callee)")
    eng = ColEngine(p, r)
    n = 0
    for f in funcs:
        if isinstance(f.node, ast.Lambda):
            continue
        tparams = set(eng.table_params(f))
        for nd in body_nodes(f):
            if not isinstance(nd, ast.If):
                continue
            reads = _cols_read(r, eng, f, nd.test)
            if not reads:
                continue
            for st in nd.body + nd.orelse:
                for c in ast.walk(st):
                    if not isinstance(c, ast.Call):
                        continue
                    for g in r.resolve_call(f, c):
                        if not isinstance(g, FuncInfo) or isinstance(g.node, ast.Lambda):
                            continue
                        # the callee's column parameters (`col_H_NP: str = PT.H_NET_NP.value`) are resolved from the call, as COLDEF does
                        tabs = {a.id: frozenset() for a in list(c.args) + [k.value for k in c.keywords] if isinstance(a, ast.Name)}
                        known = eng.call_context(_ColFlow(eng, f, {}, None), g, c, {"tabs": tabs, "dicts": {}, "top": set()})
                        sm = eng.summarise(g, known)
                        pos = g.pos_params
                        off = 1 if (isinstance(c.func, ast.Attribute) and g.cls is not None and g.parent is None and not g.is_static) else 0
                        pairs = [(pos[i + off], a) for i, a in enumerate(c.args) if i + off < len(pos)] + [(k.arg, k.value) for k in c.keywords if k.arg]
                        for pn, a in pairs:
                            if not isinstance(a, ast.Name):
                                continue
                            mw = sm["must_write"].get(pn, frozenset())
                            hit = sorted(lab for (tv, lab) in reads if tv == a.id and lab in mw)
                            if (a.id in tparams or mw) and any(tv == a.id for tv, _ in reads):
                                n += 1
                                ctx.ob(rule, f"{f.qualname}:{g.name}:{a.id}", f"{f.module.relpath}:{nd.lineno}", not hit,
                                       "" if not hit else
                                       f"whether {g.name}({a.id}) runs depends on what column {hit[0]} of '{a.id}' holds now (`{ast.unparse(nd.test)[:80]}`), and {g.name} is the "
                                       f"routine that writes {hit[0]}: once filled the column is never recomputed, although the columns it is derived from can change")
    return n

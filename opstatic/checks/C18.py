"""C18 - order-independence clause: no query method of the cycle classes writes instance state (QEFFECT)."""
from ..core.model import AnalysisError, Program
from ..core.report import CheckContext
from ..core.resolve import Resolver
from ..rules import own
from .common import run_control, generic_rules


def analyse(ctx: CheckContext, p: Program):
    r = Resolver(p)
    ctx.guard(generic_rules, ctx, p, r, "C18")
    ctx.guard(_specific, ctx, p, r)


def _specific(ctx: CheckContext, p: Program, r: Resolver):
    s = p.find_class("SimpleHeatPumpCycle")
    b = p.find_class("SimpleBraytonHeatPumpCycle")
    if s is None:
        raise AnalysisError("SimpleHeatPumpCycle not found")
    ctx.guard(own.check_query_effects, ctx, p, r, s, "solve", "_state")
    if b is not None and "solve" in b.methods:
        ctx.guard(own.check_query_effects, ctx, p, r, b, "solve", None, rule="QEFFECT")


def run(ctx: CheckContext):
    p = Program()
    analyse(ctx, p)
    ctx.floor("QEFFECT", 20)
    ctx.floor("QEFFECT-SCRATCH", 2)
    ctx.assumptions += [
        "decides the order-independence clause only ('stream sets do not depend on the order in which they are requested'); first/second-law balances, saturation pressures "
        "and stream duties come from CoolProp numerics and are NOT decided",
    ]
    f = "OpenPinch/classes/simple_heat_pump.py"
    run_control(ctx, "C18/solve-skipped-on-partial-key", analyse, p.root, "OpenPinch/classes/simple_heat_pump.py",
                "        self._refrigerant = refrigerant\n        self._T_evap = Te", "        if self._solved and (Te, Tc, refrigerant) == (self._T_evap, self._T_cond, self._refrigerant):\n            return self._work\n        self._refrigerant = refrigerant\n        self._T_evap = Te", "MEMO-KEY")
    run_control(ctx, "C18/m_dot-written-in-query", analyse, p.root, f,
                "            m_dot = self._Q_cond / abs(self._cycle_states[1, 'H'] - self._cycle_states[2, 'H'])\n",
                "            m_dot = self._Q_cond / abs(self._cycle_states[1, 'H'] - self._cycle_states[2, 'H'])\n            self._m_dot = m_dot\n", "QEFFECT")
    run_control(ctx, "C18/scratch-read-before-update", analyse, p.root, f,
                "        self._state.update(CoolProp.PQ_INPUTS, p_low, 1.0)\n        h_sat_vapor = self._state.hmass()\n        T_sat_vapor = self._state.T()\n    \n        # Assemble the 3-point",
                "        h_sat_vapor = self._state.hmass()\n        T_sat_vapor = self._state.T()\n    \n        # Assemble the 3-point", "QEFFECT-SCRATCH")

"""DISPATCH - exhaustive evaluation of enum-label if/elif chains (C20), and the LMTD refusal guard."""
from __future__ import annotations

import ast
from typing import Dict, List, Optional, Tuple

from ..core.model import AnalysisError, ClassInfo, FuncInfo, Program
from ..core.report import CheckContext, norm_stmt
from ..core.resolve import Resolver, body_nodes


def enum_members(ci: ClassInfo) -> Dict[str, object]:
    out = {}
    for nm, val in ci.class_attrs.items():
        if nm.startswith("_"):
            continue
        if isinstance(val, ast.Constant):
            out[nm] = val.value
    return out


def is_enum(r: Resolver, ci: ClassInfo) -> bool:
    return any(b.split(".")[-1] in ("Enum", "IntEnum", "StrEnum", "Flag") for b in r.ext_bases(ci))


def enum_eq_text(r: Resolver, ci: ClassInfo) -> bool:
    """Does `member == member.value` hold?  Only for mixed-in str/int enums."""
    return any(b.split(".")[-1] in ("str", "int", "StrEnum", "IntEnum") for b in r.ext_bases(ci))


class _Chain:
    def __init__(self, fi: FuncInfo, first_if: ast.If, param: str, enum: ClassInfo):
        self.fi, self.first_if, self.param, self.enum = fi, first_if, param, enum
        self.branches: List[Tuple[ast.expr, ast.If]] = []
        self.has_else = False
        node = first_if
        while True:
            self.branches.append((node.test, node))
            if len(node.orelse) == 1 and isinstance(node.orelse[0], ast.If):
                node = node.orelse[0]
            else:
                self.has_else = bool(node.orelse)
                self.else_body = node.orelse
                break


def _abs_operand(r: Resolver, fi: FuncInfo, e: ast.expr, enum: ClassInfo, members: Dict[str, object]):
    """('member', m) | ('text', m) | ('other', repr)"""
    if isinstance(e, ast.Attribute) and e.attr == "value":
        b = r.resolve_static(fi, fi.module, e.value)
        if b is not None and b.kind == "classattr" and b.target[0] is enum:
            return ("text", b.target[1])
    b = r.resolve_static(fi, fi.module, e) if isinstance(e, (ast.Name, ast.Attribute)) else None
    if b is not None and b.kind == "classattr" and b.target[0] is enum:
        return ("member", b.target[1])
    if isinstance(e, ast.Constant):
        for m, v in members.items():
            if v == e.value and type(v) is type(e.value):
                return ("text", m)
        return ("other", repr(e.value))
    return ("other", ast.unparse(e))


def _names_param(e: ast.expr, param: str) -> bool:
    return isinstance(e, ast.Name) and e.id == param


def _test_members(r, fi, test: ast.expr, param: str, enum, members) -> Optional[List[Tuple[str, str]]]:
    """List of (form, member) the test accepts for `param`, or None if the test is not a pure
    label test on param."""
    if isinstance(test, ast.Compare) and len(test.ops) == 1:
        l, op, rr = test.left, test.ops[0], test.comparators[0]
        if isinstance(op, (ast.Eq, ast.Is)):
            other = rr if _names_param(l, param) else (l if _names_param(rr, param) else None)
            if other is None:
                return None
            a = _abs_operand(r, fi, other, enum, members)
            return [a] if a[0] != "other" else None
        if isinstance(op, ast.In) and _names_param(l, param) and isinstance(rr, (ast.Tuple, ast.List, ast.Set)):
            out = []
            for el in rr.elts:
                a = _abs_operand(r, fi, el, enum, members)
                if a[0] == "other":
                    return None
                out.append(a)
            return out
        return None
    if isinstance(test, ast.BoolOp) and isinstance(test.op, ast.Or):
        out = []
        for v in test.values:
            x = _test_members(r, fi, v, param, enum, members)
            if x is None:
                return None
            out += x
        return out
    return None


def find_chains(p: Program, r: Resolver, fi: FuncInfo) -> List[_Chain]:
    chains = []
    seen_if = set()
    params = set(fi.pos_params) | set(fi.kwonly_params)
    for n in body_nodes(fi):
        if not isinstance(n, ast.If) or id(n) in seen_if:
            continue
        # candidate: test is a label test of some parameter against some Enum class
        for cmpnode in ast.walk(n.test):
            if not isinstance(cmpnode, ast.Compare):
                continue
            for side in [cmpnode.left] + list(cmpnode.comparators):
                e = side.value if isinstance(side, ast.Attribute) and side.attr == "value" else side
                b = r.resolve_static(fi, fi.module, e) if isinstance(e, (ast.Name, ast.Attribute)) else None
                if b is not None and b.kind == "classattr" and is_enum(r, b.target[0]):
                    enum = b.target[0]
                    pn = None
                    for s2 in [cmpnode.left] + list(cmpnode.comparators):
                        if isinstance(s2, ast.Name) and s2.id in params:
                            pn = s2.id
                    if pn is None:
                        continue
                    ch = _Chain(fi, n, pn, enum)
                    label_tests = [t for t, _ in ch.branches if _test_members(r, fi, t, pn, enum, enum_members(enum)) is not None]
                    if len(label_tests) >= 3:
                        for _, ifn in ch.branches:
                            seen_if.add(id(ifn))
                        chains.append(ch)
                    break
            else:
                continue
            break
    return chains


def _eval_label_expr(r: Resolver, fi: FuncInfo, e: ast.AST, var: str, form: str, enum: ClassInfo, depth: int = 0) -> Optional[str]:
    """Abstract value ('member' | 'text') of expression e when variable `var` holds a label of the given form; None = not understood."""
    if isinstance(e, ast.Name) and e.id == var:
        return form
    if isinstance(e, ast.Attribute) and e.attr == "value" and isinstance(e.value, ast.Name) and e.value.id == var:
        return "text" if form == "member" else None          # a str has no .value: would raise
    if isinstance(e, ast.Call):
        fn = e.func
        if isinstance(fn, ast.Name) and fn.id == "getattr" and len(e.args) == 3 and _names_param(e.args[0], var) \
                and isinstance(e.args[1], ast.Constant) and e.args[1].value == "value":
            if form == "member":
                return "text"
            return _eval_label_expr(r, fi, e.args[2], var, form, enum, depth)
        b = r.resolve_static(fi, fi.module, fn) if isinstance(fn, (ast.Name, ast.Attribute)) else None
        if b is not None and b.kind == "class" and b.target is enum and len(e.args) == 1 and _names_param(e.args[0], var):
            return "member"
        if b is not None and b.kind == "func" and depth < 2 and len(e.args) >= 1 and _names_param(e.args[0], var):
            g: FuncInfo = b.target
            if not isinstance(g.node, ast.Lambda) and g.pos_params:
                return _eval_label_function(r, g, g.pos_params[0], form, enum, depth + 1)
        return None
    if isinstance(e, ast.IfExp):
        c = _eval_label_test(r, fi, e.test, var, form, enum)
        if c is None:
            return None
        return _eval_label_expr(r, fi, e.body if c else e.orelse, var, form, enum, depth)
    return None


def _eval_label_test(r: Resolver, fi: FuncInfo, t: ast.AST, var: str, form: str, enum: ClassInfo) -> Optional[bool]:
    if isinstance(t, ast.UnaryOp) and isinstance(t.op, ast.Not):
        v = _eval_label_test(r, fi, t.operand, var, form, enum)
        return None if v is None else not v
    if isinstance(t, ast.Call) and isinstance(t.func, ast.Name) and t.func.id == "hasattr" and len(t.args) == 2 and _names_param(t.args[0], var) \
            and isinstance(t.args[1], ast.Constant) and t.args[1].value == "value":
        return form == "member"
    if isinstance(t, ast.Call) and isinstance(t.func, ast.Name) and t.func.id == "isinstance" and len(t.args) == 2 and _names_param(t.args[0], var):
        cls = t.args[1]
        if isinstance(cls, ast.Name) and cls.id == "str":
            return form == "text"
        b = r.resolve_static(fi, fi.module, cls) if isinstance(cls, (ast.Name, ast.Attribute)) else None
        if b is not None and b.kind == "class" and b.target is enum:
            return form == "member"
        if b is not None and b.kind == "ext" and b.target.split(".")[-1] == "Enum":
            return form == "member"
    return None


def _eval_label_function(r: Resolver, g: FuncInfo, var: str, form: str, enum: ClassInfo, depth: int) -> Optional[str]:
    """result form of a small normalising helper: a sequence of `if <test on var>: return <expr>` and a final `return <expr>`"""
    for st in g.node.body:
        if isinstance(st, ast.Expr) and isinstance(st.value, ast.Constant):
            continue
        if isinstance(st, ast.Return):
            return _eval_label_expr(r, g, st.value, var, form, enum, depth) if st.value is not None else None
        if isinstance(st, ast.If):
            c = _eval_label_test(r, g, st.test, var, form, enum)
            if c is None:
                return None
            blk = st.body if c else st.orelse
            for s2 in blk:
                if isinstance(s2, ast.Return):
                    return _eval_label_expr(r, g, s2.value, var, form, enum, depth) if s2.value is not None else None
                return None
            continue
        return None
    return None


# ---- concrete fallback: fold the normalisation over the finite label domain with Python's own str methods ----
class _Unknown(Exception):
    pass


class _Mem:
    """an enumeration member as a symbolic constant"""
    def __init__(self, enum: ClassInfo, name: str, value):
        self.enum, self.name, self.value = enum, name, value

    def __eq__(self, o):
        return isinstance(o, _Mem) and o.name == self.name and o.enum is self.enum

    def __hash__(self):
        return hash(self.name)


_STR_METHODS = {"split", "rsplit", "join", "title", "strip", "lstrip", "rstrip", "lower", "upper", "casefold", "capitalize", "replace", "swapcase",
                "removeprefix", "removesuffix", "partition", "rpartition", "startswith", "endswith", "format", "zfill", "center", "ljust", "rjust",
                "expandtabs", "translate", "isspace", "isalpha"}


def _conc(r: Resolver, fi: FuncInfo, e: ast.AST, env: Dict[str, object], enum: ClassInfo, depth: int = 0):
    """value of an expression over concrete labels (str constants / symbolic members); raises _Unknown outside the fragment"""
    if isinstance(e, ast.Constant):
        return e.value
    if isinstance(e, ast.Name):
        if e.id in env:
            return env[e.id]
        raise _Unknown(e.id)
    if isinstance(e, ast.Attribute):
        if isinstance(e.value, (ast.Name, ast.Attribute)):
            b = r.resolve_static(fi, fi.module, e) if not (isinstance(e.value, ast.Name) and e.value.id in env) else None
            if b is not None and b.kind == "classattr" and b.target[0] is enum:
                return _Mem(enum, b.target[1], enum_members(enum).get(b.target[1]))
        base = _conc(r, fi, e.value, env, enum, depth)
        if isinstance(base, _Mem) and e.attr == "value":
            return base.value
        if isinstance(base, _Mem) and e.attr == "name":
            return base.name
        raise _Unknown(ast.unparse(e))
    if isinstance(e, ast.JoinedStr):
        out = ""
        for part in e.values:
            v = _conc(r, fi, part.value if isinstance(part, ast.FormattedValue) else part, env, enum, depth)
            out += v if isinstance(v, str) else _str_of(v)
        return out
    if isinstance(e, ast.IfExp):
        return _conc(r, fi, e.body if _truth(_conc(r, fi, e.test, env, enum, depth)) else e.orelse, env, enum, depth)
    if isinstance(e, ast.UnaryOp) and isinstance(e.op, ast.Not):
        return not _truth(_conc(r, fi, e.operand, env, enum, depth))
    if isinstance(e, ast.BoolOp):
        val = None
        for v in e.values:
            val = _conc(r, fi, v, env, enum, depth)
            if isinstance(e.op, ast.And) and not _truth(val):
                return val
            if isinstance(e.op, ast.Or) and _truth(val):
                return val
        return val
    if isinstance(e, ast.Compare) and len(e.ops) == 1:
        a, b = _conc(r, fi, e.left, env, enum, depth), _conc(r, fi, e.comparators[0], env, enum, depth)
        op = e.ops[0]
        eqv = (a == b) if not (isinstance(a, _Mem) != isinstance(b, _Mem)) else (enum_eq_text(r, enum) and (a.value if isinstance(a, _Mem) else a) == (b.value if isinstance(b, _Mem) else b))
        if isinstance(op, (ast.Eq, ast.Is)):
            return eqv
        if isinstance(op, (ast.NotEq, ast.IsNot)):
            return not eqv
        if isinstance(op, ast.In) and isinstance(b, (list, tuple, set, str)) and not isinstance(a, _Mem):
            return a in b
        raise _Unknown(ast.unparse(e))
    if isinstance(e, (ast.Tuple, ast.List)):
        return [_conc(r, fi, x, env, enum, depth) for x in e.elts]
    if isinstance(e, ast.Call):
        fn = e.func
        if isinstance(fn, ast.Name):
            if fn.id == "getattr" and len(e.args) == 3 and isinstance(e.args[1], ast.Constant):
                o = _conc(r, fi, e.args[0], env, enum, depth)
                if isinstance(o, _Mem) and e.args[1].value in ("value", "name"):
                    return o.value if e.args[1].value == "value" else o.name
                if isinstance(o, str):
                    return _conc(r, fi, e.args[2], env, enum, depth)
                raise _Unknown("getattr")
            if fn.id == "hasattr" and len(e.args) == 2 and isinstance(e.args[1], ast.Constant):
                o = _conc(r, fi, e.args[0], env, enum, depth)
                return isinstance(o, _Mem) and e.args[1].value in ("value", "name")
            if fn.id == "isinstance" and len(e.args) == 2:
                o = _conc(r, fi, e.args[0], env, enum, depth)
                classes = e.args[1].elts if isinstance(e.args[1], ast.Tuple) else [e.args[1]]
                for c in classes:
                    if isinstance(c, ast.Name) and c.id == "str":
                        if isinstance(o, str) or (isinstance(o, _Mem) and enum_eq_text(r, enum) and isinstance(o.value, str)):
                            return True
                        continue
                    b = r.resolve_static(fi, fi.module, c) if isinstance(c, (ast.Name, ast.Attribute)) else None
                    if b is not None and ((b.kind == "class" and b.target is enum) or (b.kind == "ext" and b.target.split(".")[-1] == "Enum")):
                        if isinstance(o, _Mem):
                            return True
                        continue
                    raise _Unknown("isinstance class")
                return False
            if fn.id == "str" and len(e.args) == 1:
                return _str_of(_conc(r, fi, e.args[0], env, enum, depth))
            b = r.resolve_static(fi, fi.module, fn)
            if b is not None and b.kind == "class" and b.target is enum and len(e.args) == 1:
                o = _conc(r, fi, e.args[0], env, enum, depth)
                if isinstance(o, _Mem):
                    return o
                for m, v in enum_members(enum).items():
                    if v == o:
                        return _Mem(enum, m, v)
                return ("raises", f"{enum.name}({o!r})")
            if b is not None and b.kind == "func" and depth < 3:
                g: FuncInfo = b.target
                if not isinstance(g.node, ast.Lambda):
                    args = [_conc(r, fi, a, env, enum, depth) for a in e.args]
                    env2 = dict(zip(g.pos_params, args))
                    for k in e.keywords:
                        if k.arg:
                            env2[k.arg] = _conc(r, fi, k.value, env, enum, depth)
                    return _conc_block(r, g, g.node.body, env2, enum, depth + 1)
            raise _Unknown(fn.id)
        if isinstance(fn, ast.Attribute) and fn.attr in _STR_METHODS:
            o = _conc(r, fi, fn.value, env, enum, depth)
            if isinstance(o, str):
                args = [_conc(r, fi, a, env, enum, depth) for a in e.args]
                if any(isinstance(a, _Mem) for a in args) or e.keywords:
                    raise _Unknown("str method args")
                try:
                    return getattr(o, fn.attr)(*args)
                except Exception as ex:      # e.g. wrong argument type: the real code would raise as well
                    return ("raises", repr(ex))
            if isinstance(o, _Mem):
                if enum_eq_text(r, enum) and isinstance(o.value, str):
                    return getattr(o.value, fn.attr)(*[_conc(r, fi, a, env, enum, depth) for a in e.args])
                return ("raises", f"member has no attribute {fn.attr}")
        raise _Unknown(ast.unparse(fn))
    raise _Unknown(type(e).__name__)


def _str_of(v) -> str:
    if isinstance(v, _Mem):
        return f"{v.enum.name}.{v.name}"
    if isinstance(v, (str, int, float, bool)) or v is None:
        return str(v)
    raise _Unknown("str()")


def _truth(v) -> bool:
    if isinstance(v, _Mem):
        return True
    if isinstance(v, tuple) and v and v[0] == "raises":
        raise _Unknown("raises in test")
    return bool(v)


class _Ret(Exception):
    def __init__(self, v):
        self.v = v


def _conc_block(r: Resolver, g: FuncInfo, stmts, env: Dict[str, object], enum: ClassInfo, depth: int):
    """run a straight-line / if-else helper body concretely; returns the returned value"""
    try:
        _conc_stmts(r, g, stmts, env, enum, depth)
    except _Ret as rt:
        return rt.v
    return None


def _conc_stmts(r, g, stmts, env, enum, depth):
    for st in stmts:
        if isinstance(st, ast.Expr) and isinstance(st.value, ast.Constant):
            continue
        if isinstance(st, ast.Return):
            raise _Ret(_conc(r, g, st.value, env, enum, depth) if st.value is not None else None)
        if isinstance(st, ast.Assign) and len(st.targets) == 1 and isinstance(st.targets[0], ast.Name):
            env[st.targets[0].id] = _conc(r, g, st.value, env, enum, depth)
            continue
        if isinstance(st, ast.If):
            c = _truth(_conc(r, g, st.test, env, enum, depth))
            _conc_stmts(r, g, st.body if c else st.orelse, env, enum, depth)
            continue
        if isinstance(st, ast.Raise):
            raise _Ret(("raises", ast.unparse(st)[:60]))
        raise _Unknown(type(st).__name__)


def _concrete_normalisation(r: Resolver, fi: FuncInfo, chain: _Chain, init: Optional[Dict[Tuple[str, str], object]] = None):
    """{(member, incoming form): value at the chain}; value is a _Mem, a str, or ('raises', why).  None if outside the fragment.
    `init` gives the value the parameter has on entry (a private helper fed by its callers); default: the label as the caller passed it."""
    out = {}
    pre = [st for st in fi.node.body if st.lineno < chain.first_if.lineno]
    for m, v in enum_members(chain.enum).items():
        for form in ("member", "text"):
            start = init[(m, form)] if init is not None else (_Mem(chain.enum, m, v) if form == "member" else v)
            if isinstance(start, tuple):
                out[(m, form)] = start
                continue
            env: Dict[str, object] = {chain.param: start}
            try:
                for st in pre:
                    if not any(isinstance(x, ast.Name) and x.id == chain.param and isinstance(x.ctx, ast.Store) for x in ast.walk(st)):
                        continue
                    try:
                        _conc_stmts(r, fi, [st], env, chain.enum, 0)
                    except _Ret:
                        pass
                out[(m, form)] = env[chain.param]
            except _Unknown:
                return None
    return out


def _helper_entry_values(p: Program, r: Resolver, fi: FuncInfo, chain: _Chain):
    """For a chain that lives in a private helper: the value its label parameter receives from every caller, per (member, form the PUBLIC caller was given).
    None when the callers cannot be interpreted (then the chain is left undecided)."""
    callers = []
    for g in p.all_funcs:
        if g is fi or isinstance(g.node, ast.Lambda):
            continue
        for st in g.node.body:
            for c in ast.walk(st):
                if isinstance(c, ast.Call) and fi in r.resolve_call(g, c):
                    callers.append((g, st, c))
    if not callers:
        return None
    merged: Dict[Tuple[str, str], object] = {}
    for g, st, call in callers:
        arg = None
        if chain.param in fi.pos_params and fi.pos_params.index(chain.param) < len(call.args):
            arg = call.args[fi.pos_params.index(chain.param)]
        for k in call.keywords:
            if k.arg == chain.param:
                arg = k.value
        if arg is None:
            return None
        # names the argument depends on, back to a parameter of the caller
        closure = {x.id for x in ast.walk(arg) if isinstance(x, ast.Name)}
        pre = [s2 for s2 in g.node.body if s2.lineno < st.lineno]
        for _ in range(4):
            for s2 in pre:
                if isinstance(s2, ast.Assign) and any(isinstance(t, ast.Name) and t.id in closure for t in s2.targets):
                    closure |= {x.id for x in ast.walk(s2.value) if isinstance(x, ast.Name)}
        qs = [q for q in g.pos_params + g.kwonly_params if q in closure]
        if len(qs) != 1 or g.name.startswith("_"):
            return None
        q = qs[0]
        for m, v in enum_members(chain.enum).items():
            for form in ("member", "text"):
                env: Dict[str, object] = {q: _Mem(chain.enum, m, v) if form == "member" else v}
                try:
                    for s2 in pre:
                        if isinstance(s2, ast.Assign) and any(isinstance(t, ast.Name) and t.id in closure for t in s2.targets):
                            try:
                                _conc_stmts(r, g, [s2], env, chain.enum, 0)
                            except _Ret:
                                pass
                    val = _conc(r, g, arg, env, chain.enum, 0)
                except _Unknown:
                    return None
                if (m, form) in merged and merged[(m, form)] != val and not (isinstance(val, str) and merged[(m, form)] == val):
                    return None                       # callers disagree: leave undecided
                merged[(m, form)] = val
    return merged


def _normalisation(r: Resolver, fi: FuncInfo, chain: _Chain) -> Dict[str, str]:
    """Effect of the statements that precede the chain on the label parameter, per incoming form:
    {'member': form at the chain, 'text': form at the chain}.  Unknown assignment forms raise AnalysisError."""
    cur = {"member": "member", "text": "text"}
    var = chain.param
    for n in body_nodes(fi):
        if getattr(n, "lineno", 10**9) >= chain.first_if.lineno:
            continue
        if isinstance(n, ast.Assign) and any(isinstance(t, ast.Name) and t.id == var for t in n.targets):
            # skip assignments nested in a guarded normalisation handled below
            new = {}
            for inc, f0 in cur.items():
                res = _eval_label_expr(r, fi, n.value, var, f0, chain.enum)
                if res is None:
                    raise AnalysisError(f"{fi.loc}: unrecognised normalisation of label parameter: {norm_stmt(n)}")
                new[inc] = res
            if _inside_guard(fi, n, var):
                continue
            cur = new
        if isinstance(n, ast.If):
            # guarded normalisation:  if isinstance(P, Enum) / hasattr(P, "value"):  P = P.value
            for s2 in n.body:
                if isinstance(s2, ast.Assign) and any(isinstance(t, ast.Name) and t.id == var for t in s2.targets):
                    new = {}
                    for inc, f0 in cur.items():
                        c = _eval_label_test(r, fi, n.test, var, f0, chain.enum)
                        if c is None:
                            raise AnalysisError(f"{fi.loc}: unrecognised guard of a label normalisation: {norm_stmt(n.test)}")
                        if c:
                            res = _eval_label_expr(r, fi, s2.value, var, f0, chain.enum)
                            if res is None:
                                raise AnalysisError(f"{fi.loc}: unrecognised normalisation of label parameter: {norm_stmt(s2)}")
                            new[inc] = res
                        else:
                            new[inc] = f0
                    cur = new
    return cur


def _inside_guard(fi: FuncInfo, node: ast.AST, var: str) -> bool:
    for n in body_nodes(fi):
        if isinstance(n, ast.If) and any(node is x for s2 in n.body for x in ast.walk(s2)):
            return True
    return False


def check_dispatch(ctx: CheckContext, p: Program, r: Resolver, rule: str = "DISPATCH") -> int:
    """Returns number of chains analysed."""
    ctx.rule(rule, "every (arrangement member, label form in {member, text}) must reach the branch whose test names that "
                   "member in every dispatching function; never the fall-through; sibling dispatchers cover the same members")
    total = 0
    per_enum: Dict[ClassInfo, List[Tuple[FuncInfo, set]]] = {}
    for fi in p.all_funcs:
        for ch in find_chains(p, r, fi):
            total += 1
            members = enum_members(ch.enum)
            eq_text = enum_eq_text(r, ch.enum)
            concrete = None
            if fi.name.startswith("_") and not fi.name.startswith("__"):
                # a private helper sees what its callers hand it (usually the already normalised text), not the two label forms of the public API
                entry = _helper_entry_values(p, r, fi, ch)
                if entry is None:
                    ctx.info.setdefault("dispatch_undecided", []).append(f"{fi.qualname}: label values reaching this private helper could not be derived from its callers")
                    total -= 1
                    continue
                concrete = _concrete_normalisation(r, fi, ch, entry)
                if concrete is None:
                    ctx.info.setdefault("dispatch_undecided", []).append(f"{fi.qualname}: normalisation inside the helper not interpreted")
                    total -= 1
                    continue
                mode = {"member": "?", "text": "?"}
            else:
                try:
                    mode = _normalisation(r, fi, ch)
                except AnalysisError:
                    concrete = _concrete_normalisation(r, fi, ch)
                    if concrete is None:
                        raise
                    mode = {"member": "?", "text": "?"}
            dedicated = set()
            branch_accepts = []
            for test, ifn in ch.branches:
                acc = _test_members(r, fi, test, ch.param, ch.enum, members)
                branch_accepts.append(acc)
                if acc:
                    dedicated |= {m for _, m in acc}
            per_enum.setdefault(ch.enum, []).append((fi, dedicated))
            for m in members:
                for form in ("member", "text"):
                    eff_form = mode[form]
                    eff_m = m
                    note = ""
                    if concrete is not None:
                        cv = concrete[(m, form)]
                        if isinstance(cv, _Mem):
                            eff_form, eff_m = "member", cv.name
                        elif isinstance(cv, str):
                            eff_form = "text"
                            eff_m = next((mm for mm, vv in members.items() if vv == cv), None)
                            note = f"; it is normalised to {cv!r}" + ("" if eff_m == m else ", which is not its label")
                        else:
                            eff_form, eff_m, note = "none", None, f"; the normalisation raises ({cv[1] if isinstance(cv, tuple) else cv})"
                    reached = None
                    for i, acc in enumerate(branch_accepts):
                        if acc is None:
                            continue   # non-label test: cannot be decided, skip (treated as false for a label value)
                        for (f2, m2) in acc:
                            if m2 == m and eff_m == m and (f2 == eff_form or eq_text):
                                reached = i
                                break
                        if reached is not None:
                            break
                    key = f"{fi.qualname}:{ch.enum.name}.{m}:{form}"
                    if m not in dedicated:
                        # member has no branch at all in this function: reported once per function below
                        continue
                    ok = reached is not None
                    ctx.ob(rule, key, f"{fi.module.relpath}:{ch.first_if.lineno}", ok,
                           "" if ok else f"label {ch.enum.name}.{m} given as {form} does not reach its own branch in {fi.name} "
                                         f"(falls through to {'the else branch' if ch.has_else else 'no branch'}){note}",
                           normalisation=f"member->{mode['member']}, text->{mode['text']}")
    # sibling coverage: dispatchers over the same enum must have a dedicated branch for the same members
    for enum, lst in per_enum.items():
        if len(lst) < 2:
            continue
        union = set().union(*[d for _, d in lst])
        for fi, ded in lst:
            for m in sorted(union):
                key = f"{fi.qualname}:{enum.name}.{m}:branch"
                ok = m in ded
                ctx.ob(rule + "-SIB", key, fi.loc, ok,
                       "" if ok else f"{fi.name} has no branch for {enum.name}.{m} although a sibling dispatcher has")
    ctx.info.setdefault("dispatch_chains", total)
    return total


def _positivity_guards(r: Resolver, fi: FuncInfo, stop: ast.stmt, params: List[str]):
    """Which of `params` are refused (raise) when non-positive by the statements of fi that precede `stop`.
    Returns (guarded names, definitely-weaker tests, saw a raising test this analysis cannot interpret)."""
    guarded, weak, unknown = set(), [], False
    pre: List[ast.stmt] = []
    for st in fi.node.body:
        if st is stop:
            break
        pre.append(st)
    expanded: List[Tuple[ast.stmt, Dict[str, str]]] = []
    for st in pre:
        if isinstance(st, ast.Expr) and isinstance(st.value, ast.Call):
            # a call of a module function whose body is such a guard counts, with its parameters mapped to our arguments
            hit = False
            for t in r.resolve_call(fi, st.value):
                if isinstance(t, FuncInfo) and t.module is fi.module and not isinstance(t.node, ast.Lambda):
                    mp: Dict[str, str] = {}
                    for k, a in enumerate(st.value.args):
                        if isinstance(a, ast.Name) and k < len(t.pos_params):
                            mp[t.pos_params[k]] = a.id
                    for k in st.value.keywords:
                        if k.arg and isinstance(k.value, ast.Name):
                            mp[k.arg] = k.value.id
                    for s2 in t.node.body:
                        expanded.append((s2, mp))
                    hit = True
            if not hit and any(isinstance(a, ast.Name) and a.id in params for a in st.value.args):
                unknown = True            # an unresolved call on the very arguments: may be the validator
        else:
            expanded.append((st, {}))

    def zero(e):
        return isinstance(e, ast.Constant) and isinstance(e.value, (int, float)) and e.value == 0

    def tiny(e):
        return isinstance(e, ast.Constant) and isinstance(e.value, (int, float)) and 0 < e.value <= 1e-3

    for st, mp in expanded:
        if not (isinstance(st, ast.If) and st.body and isinstance(st.body[-1], ast.Raise) and not st.orelse):
            continue
        known = set(params) | set(mp)

        def view(e, subst: Dict[str, List[str]]):
            """the parameters `e` is a monotone (order-preserving, min-taking) view of; None if not such a view"""
            nonlocal unknown
            ok_meth = {"round", "min", "astype", "flatten", "ravel", "item"}
            ok_np = {"array", "asarray", "min", "amin", "nanmin", "round", "around", "atleast_1d"}
            cur = e
            while True:
                if isinstance(cur, ast.Name):
                    if cur.id in subst:
                        return set(subst[cur.id])
                    return {cur.id} if cur.id in known else set()
                if isinstance(cur, ast.Call) and isinstance(cur.func, ast.Attribute):
                    if isinstance(cur.func.value, ast.Name) and cur.func.value.id in ("np", "numpy", "math") and cur.func.attr in ok_np and cur.args:
                        cur = cur.args[0]
                        continue
                    if cur.func.attr in ok_meth:
                        cur = cur.func.value
                        continue
                if isinstance(cur, ast.Call) and isinstance(cur.func, ast.Name) and cur.func.id in ("min", "float") and len(cur.args) == 1:
                    cur = cur.args[0]
                    continue
                if any(isinstance(x, ast.BinOp) for x in ast.walk(cur)):
                    weak.append(norm_stmt(e))          # arithmetic on the differences (a product, a sum): certainly weaker than testing each
                else:
                    unknown = True
                return set()

        def cmp_guard(d, subst):
            if isinstance(d, ast.Compare) and len(d.ops) == 1:
                l, op, rr = d.left, d.ops[0], d.comparators[0]
                back = (lambda S: {mp.get(x, x) for x in S}) if mp else (lambda S: S)
                if (isinstance(op, ast.LtE) and zero(rr)) or (isinstance(op, ast.Lt) and tiny(rr)):
                    return back(view(l, subst))
                if (isinstance(op, ast.GtE) and zero(l)) or (isinstance(op, ast.Gt) and tiny(l)):
                    return back(view(rr, subst))
                if isinstance(op, (ast.Lt, ast.Gt)) and (zero(rr) or zero(l)):
                    weak.append(norm_stmt(d))
            return set()

        test = st.test
        if isinstance(test, ast.BoolOp) and isinstance(test.op, ast.And):
            weak.append(norm_stmt(test))
            continue
        disj = test.values if isinstance(test, ast.BoolOp) and isinstance(test.op, ast.Or) else [test]
        for d in disj:
            # any(<cmp on x> for x in (p1, p2))
            if isinstance(d, ast.Call) and isinstance(d.func, ast.Name) and d.func.id == "any" and len(d.args) == 1 and isinstance(d.args[0], (ast.GeneratorExp, ast.ListComp)) \
                    and len(d.args[0].generators) == 1 and isinstance(d.args[0].generators[0].target, ast.Name) \
                    and isinstance(d.args[0].generators[0].iter, (ast.Tuple, ast.List)) and all(isinstance(x, ast.Name) for x in d.args[0].generators[0].iter.elts):
                g = d.args[0].generators[0]
                guarded |= cmp_guard(d.args[0].elt, {g.target.id: [x.id for x in g.iter.elts]})
            elif isinstance(d, ast.Compare):
                guarded |= cmp_guard(d, {})
            else:
                unknown = True
    return guarded, weak, unknown


def check_lmtd_guard(ctx: CheckContext, p: Program, r: Resolver, rule: str = "LMTD-GUARD"):
    """Every function that takes the logarithm of a ratio of two of its parameters must, before it, raise when either parameter is
    non-positive - in the function itself or, for a private helper, in every caller before the call."""
    ctx.rule(rule, "a raising guard `p <= 0` for both end differences dominates the logarithm (in the function, in a validator it calls, or - for a private "
                   "helper - in each caller before the call); a guard on a product/sum of the differences is weaker and reported; a guard this rule cannot "
                   "interpret leaves the site undecided")
    n = 0
    mod_funcs = [f for f in p.all_funcs if f.module.name == "OpenPinch.utils.heat_exchanger" or f.module.name.startswith("OpenPinch.utils._hx")]
    for fi in mod_funcs:
        if isinstance(fi.node, ast.Lambda):
            continue
        params = fi.pos_params
        log_stmt, log_params = None, []
        for st in fi.node.body:
            for c in ast.walk(st):
                if isinstance(c, ast.Call) and isinstance(c.func, ast.Attribute) and c.func.attr == "log" and c.args \
                        and isinstance(c.args[0], ast.BinOp) and isinstance(c.args[0].op, ast.Div) \
                        and isinstance(c.args[0].left, ast.Name) and isinstance(c.args[0].right, ast.Name):
                    # the two end differences: parameters, or locals computed in this function (a "fast path" that takes the logarithm itself)
                    names = [x.id for x in (c.args[0].left, c.args[0].right)]
                    if len(set(names)) >= 2:
                        log_stmt, log_params = st, sorted(set(names))
            if log_stmt is not None:
                break
        if log_stmt is None:
            continue
        n += 1
        guarded, weak, unknown = _positivity_guards(r, fi, log_stmt, list(params) + log_params)
        missing = [pn for pn in log_params if pn not in guarded]
        if missing and fi.name.startswith("_") and all(pn in params for pn in missing):
            # private helper: the refusal may live in the callers
            callers = []
            for g in mod_funcs:
                if g is fi or isinstance(g.node, ast.Lambda):
                    continue
                for st in g.node.body:
                    for c in ast.walk(st):
                        if isinstance(c, ast.Call) and fi in r.resolve_call(g, c):
                            callers.append((g, st, c))
            if callers:
                still = set(missing)
                all_cover = True
                for g, st, c in callers:
                    amap = {fi.pos_params[k]: a.id for k, a in enumerate(c.args) if isinstance(a, ast.Name) and k < len(fi.pos_params)}
                    amap.update({k.arg: k.value.id for k in c.keywords if k.arg and isinstance(k.value, ast.Name)})
                    if not all(pn in amap for pn in missing):
                        unknown = True
                        all_cover = False
                        continue
                    g2, w2, u2 = _positivity_guards(r, g, st, list(g.pos_params) + list(amap.values()))
                    weak += w2
                    unknown = unknown or u2
                    if not all(amap[pn] in g2 for pn in missing):
                        all_cover = False
                if all_cover:
                    missing = []
        for pn in log_params:
            ok = pn not in missing
            if not ok and unknown and not weak:
                ctx.info.setdefault("lmtd_undecided", []).append(f"{fi.qualname}:{pn}")
                continue
            ctx.ob(rule, f"{fi.qualname}:{pn}", fi.loc, ok,
                   "" if ok else f"logarithm of a ratio involving '{pn}' is not dominated by a guard raising on {pn} <= 0"
                                 + (f" (found weaker test: {'; '.join(weak)})" if weak else ""))
        # callers must hand the refusing function the signed differences: |x| can never trip the `<= 0` refusal
        if not missing:
            for g in p.all_funcs:
                if isinstance(g.node, ast.Lambda) or g is fi:
                    continue
                for c in body_nodes(g):
                    if isinstance(c, ast.Call) and fi in r.resolve_call(g, c):
                        for k, a in enumerate(c.args):
                            pn = fi.pos_params[k] if k < len(fi.pos_params) else None
                            if pn in log_params and isinstance(a, ast.Call) and (
                                    (isinstance(a.func, ast.Name) and a.func.id == "abs") or
                                    (isinstance(a.func, ast.Attribute) and a.func.attr in ("abs", "absolute", "fabs"))):
                                ctx.ob(rule, f"{g.qualname}:{fi.name}.{pn}<-abs", f"{g.module.relpath}:{c.lineno}", False,
                                       f"{g.name} passes `{ast.unparse(a)[:60]}` as '{pn}' of {fi.name}(): the magnitude is never <= 0 unless it is exactly 0, so the refusal of "
                                       f"non-positive end differences (a temperature cross) can no longer fire and a finite LMTD is returned instead")
    ctx.info["lmtd_functions"] = n
    return n

"""Unit-aware scalar wrapper powered by Pint quantities."""

from pint import UnitRegistry

from ..lib.schema import ValueWithUnit

ureg = UnitRegistry()
Q_ = ureg.Quantity


class Value:
    """Thin wrapper around a Pint ``Quantity`` with helpers for serialisation and arithmetic."""

    def __init__(self, data=None, unit: str = None):
        """Create a unit-aware value from a raw number or :class:`ValueWithUnit`."""
        if data is None:
            self._quantity = Q_(0)
        elif isinstance(data, ValueWithUnit):
            self._quantity = Q_(data.value, data.units)
            try:
                self._quantity.to(unit)
            except:
                pass
        else:
            self._quantity = Q_(data, unit) if unit else Q_(data)

    @property
    def value(self):
        """Return the magnitude component of the quantity."""
        return self._quantity.magnitude

    @value.setter
    def value(self, data):
        self._quantity = Q_(data, self.unit)

    @property
    def unit(self):
        """Return the unit in a human-friendly compact representation."""
        return format(self._quantity.units, "~").replace("°", "deg").replace(" ", "")

    @unit.setter
    def unit(self, unit_str):
        self._quantity = Q_(self.value, unit_str)

    def to(self, new_unit: str) -> "Value":
        """Return a copy converted to ``new_unit``."""
        return Value(self._quantity.to(new_unit).magnitude, new_unit)

    def __str__(self):
        return f"{self.value} {self.unit}"

    def __repr__(self):
        return f"Value({self.value}, {repr(self.unit)})"

    def __float__(self):
        return float(self.value)

    def __int__(self):
        return int(self.value)

    def __round__(self, ndigits=None):
        return round(self.value, ndigits)

    def __eq__(self, other):
        try:
            if isinstance(other, (int, float)):
                return self._quantity.magnitude == other
            return self._quantity == self._to_quantity(other)
        except Exception:
            return False

    def __lt__(self, other):
        return self._quantity < self._to_quantity(other)

    def __le__(self, other):
        return self._quantity <= self._to_quantity(other)

    def __gt__(self, other):
        return self._quantity > self._to_quantity(other)

    def __ge__(self, other):
        return self._quantity >= self._to_quantity(other)

    def __add__(self, other):
        return self._from_quantity(self._quantity + self._to_quantity(other))

    def __radd__(self, other):
        return self + other

    def __sub__(self, other):
        return self._from_quantity(self._quantity - self._to_quantity(other))

    def __rsub__(self, other):
        return self._from_quantity(self._to_quantity(other) - self._quantity)

    def __mul__(self, other):
        return self._from_quantity(self._quantity * self._to_quantity(other))

    def __rmul__(self, other):
        return self * other

    def __truediv__(self, other):
        return self._from_quantity(self._quantity / self._to_quantity(other))

    def __rtruediv__(self, other):
        return self._from_quantity(self._to_quantity(other) / self._quantity)

    def _to_quantity(self, other):
        if isinstance(other, Value):
            return other._quantity
        return Q_(other)

    def _from_quantity(self, qty):
        return Value(qty.magnitude, format(qty.units, "~"))

    def to_dict(self):
        """Serialise the value into a JSON-friendly ``{"value", "unit"}`` dictionary."""
        return {"value": self.value, "unit": self.unit}

    @classmethod
    def from_dict(cls, data):
        """Instantiate from a ``{"value", "unit"}`` mapping."""
        return cls(data["value"], data.get("unit"))


# @pd.api.extensions.register_series_accessor("as_value")
# class ValueAccessor:
#     def __init__(self, series):
#         self.series = series

#     def to(self, unit):
#         return self.series.apply(lambda v: v.to(unit))

#!/venv/bin/python
"""Generate MANIFEST.json from the registry below (single source of truth), and validate it."""
import json, os, sys
HERE = os.path.dirname(os.path.dirname(os.path.abspath(__file__)))
sys.path.insert(0, HERE)
from opstatic.registry import CLAIMED, NOT_APPLICABLE

def main():
    checks = []
    for pid, c in sorted(CLAIMED.items()):
        checks.append({
            "property_id": pid,
            "quick_cmd": f"./check {pid} --tier quick",
            "thorough_cmd": f"./check {pid} --tier thorough",
            "evidence_file": f"/verif/evidence/{pid}.json",
            "replay_cmd_template": f"./check {pid} --replay {{path}}",
            "engine": "opstatic",
            "level_claimed": {"category": c.get("category", "other"), "text": c["text"], "design_ref": c["design_ref"]},
            "level_note": c["note"],
            "technique": c["technique"],
        })
    man = {
        "version": 1,
        "setup_cmd": "/venv/bin/python -m opstatic.selfcheck",
        "hooks": {
            "guard": "OPENPINCH_VERIF",
            "enable": "none needed: checks are pure static analysis of /repo's working tree; no hook or instrumentation commit exists",
            "baseline_off_cmd": "/venv/bin/python /verif/tools/run_baseline.py",
            "source_commits": [],
            "add_only": True,
        },
        "engines": [{
            "name": "opstatic", "path": "/verif/opstatic",
            "serves_properties": sorted(CLAIMED),
            "kind_free_text": "repository-specific static analysis on CPython ast: resolved namespaces (star-import emulation), light type inference, "
                              "call graph, structured forward dataflow, small abstract domains (temperature scale, string length, index lower bounds, "
                              "ownership taint, typestate); nothing in /repo is executed",
        }],
        "checks": checks,
        "notes": "Every check parses /repo's current working tree on each run (Python 3.12 via /venv/bin/python, standard library only). "
                 "exit 0 = all obligations discharged (known findings echoed), exit 1 = VIOLATION, exit 2 = ANALYSIS-ERROR (tree not analysable / anchor vanished).",
        "not_applicable": [{"property_id": k, "reason": v} for k, v in sorted(NOT_APPLICABLE.items())],
    }
    json.dump(man, open(os.path.join(HERE, "MANIFEST.json"), "w"), indent=1)
    try:
        import jsonschema
        jsonschema.validate(man, json.load(open("/root/.vp/MANIFEST.schema.json")))
        print("MANIFEST.json valid;", len(checks), "checks,", len(man["not_applicable"]), "not applicable")
    except ImportError:
        print("MANIFEST.json written (jsonschema not importable here)")

if __name__ == "__main__":
    main()

"""Analysis submodules implementing OpenPinch targeting algorithms.

This package re-exports the most commonly used entry points for preparing
problem structures, running Pinch Analysis at different aggregation levels, and
assembling response payloads.  More specialised helpers remain in their
respective modules (e.g. ``support_methods`` and ``additional_analysis``).
"""

from .capital_cost_and_area_targeting import *
from .gcc_manipulation import *
from .data_preparation import *
from .graph_data import *
from .heat_pump_targeting import *
from .power_cogeneration_analysis import *
from .problem_table_analysis import *
from .utility_targeting import *

from .direct_integration_entry import *
from .indirect_integration_entry import *

"""setup-time self test on the frozen reference tree (fixtures/reference = the repaired pinned tree):
every registered check must analyse it cleanly (only the known findings), so a broken analyser is noticed before
any verdict on /repo is believed."""
from __future__ import annotations

import concurrent.futures as cf
import importlib
import os
import time

from .core.report import VERIF, CheckContext, load_known


def _one(prop: str):
    from .core.model import AnalysisError, Program
    ref = os.path.join(VERIF, "fixtures", "reference")
    mod = importlib.import_module(f"opstatic.checks.{prop}")
    ctx = CheckContext(prop, "quick")
    try:
        mod.analyse(ctx, Program(ref))
    except AnalysisError as e:
        return prop, f"ANALYSIS-ERROR {e}", 0
    known = {(k["rule"], k["key"]) for k in load_known().get("known", []) if k.get("property") == prop}
    bad = [o for o in ctx.obligations if not o.ok and (o.rule, o.key) not in known]
    return prop, ("unexpected violation: " + "; ".join(f"{o.rule} {o.key}" for o in bad[:3])) if bad else "", len(ctx.obligations)


def main() -> int:
    from .registry import CLAIMED
    ref = os.path.join(VERIF, "fixtures", "reference", "OpenPinch")
    if not os.path.isdir(ref):
        print("ANALYSIS-ERROR: fixtures/reference missing")
        return 2
    t0 = time.time()
    status = 0
    with cf.ProcessPoolExecutor(max_workers=min(16, os.cpu_count() or 4)) as ex:
        for prop, err, n in ex.map(_one, sorted(CLAIMED)):
            if err:
                print(f"selfcheck {prop}: {err}")
                status = 2
    print(f"opstatic selfcheck: {len(CLAIMED)} checks analyse the reference tree cleanly" if status == 0 else "opstatic selfcheck FAILED", f"({time.time()-t0:.1f}s)")
    return status

"""ARG-TYPE - a flag is never passed where the callee expects a quantity, nor a quantity where it expects a flag.

After a signature is re-ordered, a caller that still passes its arguments positionally keeps running: Python converts
``True`` to ``1.0`` and any non-zero float to ``True``.  The annotations in the repository are enough to see the slip:
for every call whose callee is resolved, a positional or keyword argument that is provably a number (float/int constant,
arithmetic, a name annotated float/int in the caller) must not land on a parameter annotated ``bool``, and an argument that is
provably a flag (True/False, a comparison, ``not x``, a name annotated bool in the caller) must not land on a parameter
annotated ``float``/``int``.
"""
from __future__ import annotations

import ast
from typing import List, Optional

from ..core.model import ClassInfo, FuncInfo, Program
from ..core.report import CheckContext, norm_stmt
from ..core.resolve import Resolver


def _ann_kind(ann: Optional[ast.AST]) -> Optional[str]:
    if ann is None:
        return None
    txt = ast.unparse(ann).replace(" ", "")
    if txt in ("bool", "Optional[bool]", "bool|None"):
        return "flag"
    if txt in ("float", "int", "Optional[float]", "float|None", "float|int", "int|float", "Optional[int]", "int|None"):
        return "number"
    return None


def _param_ann(f: FuncInfo, name: str) -> Optional[ast.AST]:
    for a in f.params:
        if a.arg == name:
            return a.annotation
    return None


def _arg_kind(f: FuncInfo, e: ast.AST) -> Optional[str]:
    if isinstance(e, ast.Constant):
        if isinstance(e.value, bool):
            return "flag"
        if isinstance(e.value, (int, float)):
            return "number"
        return None
    if isinstance(e, (ast.Compare,)) or (isinstance(e, ast.UnaryOp) and isinstance(e.op, ast.Not)):
        return "flag"
    if isinstance(e, ast.UnaryOp) and isinstance(e.op, (ast.USub, ast.UAdd)):
        return _arg_kind(f, e.operand)
    if isinstance(e, ast.BinOp) and isinstance(e.op, (ast.Add, ast.Sub, ast.Mult, ast.Div, ast.Pow, ast.FloorDiv, ast.Mod)):
        kinds = {_arg_kind(f, e.left), _arg_kind(f, e.right)}
        if "number" in kinds and "flag" not in kinds:
            return "number"
        return None
    if isinstance(e, ast.Name):
        return _ann_kind(_param_ann(f, e.id))
    return None


def check_argument_kinds(ctx: CheckContext, p: Program, r: Resolver, funcs: List[FuncInfo], rule: str = "ARG-TYPE") -> int:
    ctx.rule(rule, "across every resolved call, a provable number is not bound to a parameter annotated bool and a provable flag is not bound to a parameter "
                   "annotated float/int (annotations of callee and caller; positional and keyword binding)")
    n = 0
    for f in funcs:
        if isinstance(f.node, ast.Lambda):
            continue
        for call, tg in r.calls_of(f):
            for t in tg:
                callee = t if isinstance(t, FuncInfo) else (r.find_method(t, "__init__") if isinstance(t, ClassInfo) else None)
                if callee is None or isinstance(callee.node, ast.Lambda):
                    continue
                off = 1 if (isinstance(t, ClassInfo) or (isinstance(call.func, ast.Attribute) and callee.cls is not None and callee.parent is None
                                                          and not callee.is_static)) else 0
                pos = callee.pos_params[off:]
                pairs = [(pos[i], a) for i, a in enumerate(call.args) if i < len(pos) and not isinstance(a, ast.Starred)]
                pairs += [(k.arg, k.value) for k in call.keywords if k.arg]
                for pn, a in pairs:
                    pk = _ann_kind(_param_ann(callee, pn))
                    ak = _arg_kind(f, a)
                    if pk is None or ak is None:
                        continue
                    n += 1
                    ok = pk == ak
                    ctx.ob(rule, f"{f.qualname}:{callee.name}.{pn}<-{ast.unparse(a)[:50]}", f"{f.module.relpath}:{call.lineno}", ok,
                           "" if ok else f"{callee.name}() declares '{pn}' as a {'flag (bool)' if pk == 'flag' else 'number'} but {f.name} passes "
                                         f"`{ast.unparse(a)[:60]}`, a {'flag' if ak == 'flag' else 'number'}: the arguments no longer line up with the signature")
    return n

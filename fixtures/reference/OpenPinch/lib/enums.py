from enum import Enum


class ZoneType(Enum):
    """Types of zones used to divide the problem."""

    R = "Region"
    C = "Community"
    S = "Site"
    P = "Process Zone"
    U = "Utility Zone"
    O = "Unit Operation"

    def __str__(self):
        return self.value

Z = ZoneType

class TargetType(Enum):
    """Different target calculation categories."""

    TL = "Thermodynamic Limit Target"
    DI = "Direct Integration"
    TZ = "Total Process Target"
    TS = "Total Site Target"  # Also indirect integration
    RT = "Regional Target"  # Currently the same as TS
    ET = "Energy Transfer Analysis"

    def __str__(self):
        return self.value


class HeatExchangerTypes(Enum):
    """Heat exchanger flow arrangements"""

    CF = "Counter Flow"
    PF = "Parallel Flow"
    CrFUU = "Crossflow - Both Unmixed"
    CrFMM = "Crossflow - Both Mixed"
    CrFMUmax = "Crossflow - Cmax Unmixed"
    CrFMUmin = "Crossflow - Cmin Unmixed"
    ShellTube = "1-n Shell and Tube"
    CondEvap = "Condensing or Evaporating"


class HeatPump(Enum):
    """Heat pump components"""

    Cond = "Condenser"
    Evap = "Evaporator"
    Comp = "Compressor"
    Expd = "Expansion"
    IHX = "Internal Heat Exchanger"


class HeatPumpType(str, Enum):
    MultiTempCarnot = "Multi-temperature Carnot cycles"
    MultiSimpleCarnot = "Multiple simple Carnot cycles"
    Brayton = "Brayton cycle"
    CascadeVapourComp = "Cascade vapour compression cycles"
    MultiSimpleVapourComp = "Multiple simple vapour compression cycles"


class HeatFlowUnits(Enum):
    """Heat flow units"""

    W = "W"
    kW = "kW"
    MW = "MW"
    GW = "GW"


class StreamType(Enum):
    """Steam type"""

    Hot = "Hot"
    Cold = "Cold"
    Both = "Both"
    Unassigned = ""


class StreamID(Enum):
    """Stream identity"""

    Process = "Process"
    Utility = "Utility"
    Unassigned = "Unassigned"


class StreamLoc(Enum):
    """Stream set identity"""

    HotS = "Hot Streams"
    ColdS = "Cold Streams"
    HotU = "Hot Utility"
    ColdU = "Cold Utility"
    Unassigned = "Unassigned"


class ProblemTableLabel(Enum):
    """Problem table column header labels"""

    T = "T"
    DELTA_T = "\N{GREEK CAPITAL LETTER DELTA}T"
    CP_HOT = "mcp_hot_tot"
    DELTA_H_HOT = "\N{GREEK CAPITAL LETTER DELTA}H_hot"
    H_HOT = "H_hot"
    CP_COLD = "mcp_cold_tot"
    DELTA_H_COLD = "\N{GREEK CAPITAL LETTER DELTA}H_cold"
    H_COLD = "H_cold"
    CP_NET = "CP_NET"
    DELTA_H_NET = "\N{GREEK CAPITAL LETTER DELTA}H_net"
    H_NET = "H_net"

    H_NET_NP = "H_net_np"
    H_NET_V = "H_net_vert"
    H_NET_PK = "H_net_pockets"
    H_NET_AI = "H_net_assisted"
    H_NET_A = "H_net_actual"
    H_NET_UT = "H_net_ut"
    H_NET_HOT = "H_hot_net"
    H_NET_COLD = "H_cold_net"
    H_NET_HP_UT = "H_net_hp_ut"
    H_NET_HP_PRO = "H_net_hp_pro"
    H_NET_W_AIR = "H_net_with_air"

    H_HOT_UT = "H_hot_utility"
    H_COLD_UT = "H_cold_utility"
    H_NET_HOT_UT = "H_hot_net_utility"
    H_NET_COLD_UT = "H_cold_net_utility"      
    H_HOT_BAL = "H_hot_balanced"
    H_COLD_BAL = "H_cold_balanced"

    H_HOT_HP = "H_hot_hp_ut"
    H_COLD_HP = "H_cold_hp_ut"
    H_NET_HOT_2 = "H_hot_net_utility_after_hp"
    H_NET_COLD_2 = "H_cold_net_utility_after_hp"      

    RCP_HOT = "rCP_hot"
    RCP_COLD = "rCP_cold"
    RCP_HOT_NET = "rcp_hot_net"
    RCP_COLD_NET = "rcp_cold_net"
    RCP_UT_NET = "rcp_ut_net"
    RCP_HOT_UT = "rcp_hot_ut"
    RCP_COLD_UT = "rcp_cold_ut"
    RCP_HOT_BAL = "rCP_hot_balanced"
    RCP_COLD_BAL = "rCP_cold_balanced"
    R_HOT_BAL = "HTC_hot_balanced"
    R_COLD_BAL = "HTC_cold_balanced"


PT = ProblemTableLabel


class StreamDataLabel(Enum):
    """Stream data column header labels"""

    TS = "T_supply"
    TT = "T_target"
    TYPE = "stream_type"
    CP = "heat_capacity_flowrate"
    H = "heat_flow"
    DT_CONT = "\N{GREEK CAPITAL LETTER DELTA}T_cont"
    HTC = "heat_transfer_coefficient"


SD = StreamDataLabel


class ArrowHead(Enum):
    """Position of arrow head"""

    START = "Start"
    END = "End"
    NO_ARROW = "None"


class LineColour(Enum):
    """Line colour selection"""

    HotS = 0
    ColdS = 1
    HotU = 2
    ColdU = 3
    Black = 5
    Other = 4


class GraphType(Enum):
    CC = "Composite Curves"
    SCC = "Shifted Composite Curves"
    BCC = "Balanced Composite Curves"
    GCC = "Grand Composite Curve"
    GCC_R = "Grand Composite Curve (Real)"
    GCC_X = "Exergetic Grand Composite Curve"
    GCC_HP = "Grand Composite Curve with Heat Pump"
    # GCC_N = "Grand Composite Curve (No Pockets)"
    # GCC_V = "Vertical Grand Composite Curve"
    # GCC_A = "Actual Grand Composite Curve"    
    # GCC_U = "Utility Grand Composite Curve"
    # GCC_U_real = "Utility Grand Composite Curve (Real)"
    # GCC_Lim = "Thermodynamic Limiting GCC"
    NLC = "Net Load Curves"

    TSP = "Total Site Profiles"
    TSU = "Total Site Utility"
    # TSU_real = "Total Site Utility"
    SUGCC = "Site Utility Grand Composite Curve"


ResultsType = GT = GraphType


class LegendSeries(Enum):
    """Legend labels for multi-series graphs."""

    GCC = "GCC"
    GCC_N = "GCC (No Pockets)"
    GCC_V = "Vertical GCC"
    GCC_A = "Assisted GCC"
    GCC_U = "Utility GCC"


class SummaryRowType(Enum):
    CONTENT = "content"
    FOOTER = "footer"


class TurbineModel(Enum):
    MEDINA_FLORES = "Medina-Flores et al. (2010)"
    SUN_SMITH = "Sun & Smith (2015)"
    VARBANOV = "Varbanov et al. (2004)"
    ISENTROPIC = "Fixed Isentropic Turbine"


class MainOptionsPropKeys(Enum):
    Totally_Integrated_Site = "PROP_MOP_0"
    Total_Site = "PROP_MOP_1"
    Turbine_Work = "PROP_MOP_2"
    Target_Area = "PROP_MOP_3"
    Energy_Retrofit = "PROP_MOP_4"
    Thermal_Exergy = "PROP_MOP_5"
    Problem_Tables = "PROP_MOP_6"


class TurbineOptionsPropKeys(Enum):
    TURBINEFORM_T_TURBINE_BOX = "PROP_TOP_0"
    TURBINEFORM_P_TURBINE_BOX = "PROP_TOP_1"
    TURBINEFORM_MIN_EFF = "PROP_TOP_2"
    TURBINEFORM_ELECTRICITY_PRICE = "PROP_TOP_3"
    TURBINEFORM_LOAD = "PROP_TOP_4"
    TURBINEFORM_MECH_EFF = "PROP_TOP_5"
    TURBINEFORM_COMBOBOX = "PROP_TOP_6"
    TURBINEFORM_ABOVE_PINCH_CHECKBOX = "PROP_TOP_7"
    TURBINEFORM_BELOW_PINCH_CHECKBOX = "PROP_TOP_8"
    TURBINEFORM_CONDESATE_FLASH_CORRECTION = "PROP_TOP_9"

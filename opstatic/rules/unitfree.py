"""OFFSET-FREE - the extractor shared by absolute temperatures and temperature DIFFERENCES applies no offset.

Every stream / utility record carries absolute temperatures (t_supply, t_target) and one temperature difference (dt_cont,
the minimum-approach contribution by which the bounds are shifted).  The input layer turns all of them into numbers through
one extractor function.  A unit conversion with an additive offset (K -> degC: minus 273.15, degF -> degC: minus 32) is right
for an absolute temperature and WRONG for a difference: a contribution of "10 K" would become -263.15 and every shifted
temperature, pinch and target moves by hundreds of degrees.  So as long as one function serves both kinds of field with
the same arguments, nothing in its cone (the function, the package helpers it calls, the module-level tables and lambdas
they reference) may add or subtract a non-zero constant to the extracted value.

Decided: the structural condition above.  Not decided: multiplicative conversions, which are right for both kinds.
Undecided (abstains): the difference call sites pass something the absolute call sites do not (a flag that could switch
the offset off), or the extractor cannot be resolved.
"""
from __future__ import annotations

import ast
from typing import Dict, List, Optional, Set, Tuple

from ..core.model import FuncInfo, Program
from ..core.report import CheckContext
from ..core.resolve import Resolver, body_nodes

DIFF_FIELDS = {"dt_cont"}
ABS_FIELDS = {"t_supply", "t_target"}


def _bound_name(parent: ast.AST, call: ast.Call) -> Optional[str]:
    """name of the field / local / keyword the call's value is bound to"""
    if isinstance(parent, ast.keyword) and parent.value is call:
        return parent.arg
    if isinstance(parent, (ast.Assign, ast.AnnAssign)) and parent.value is call:
        tg = parent.targets if isinstance(parent, ast.Assign) else [parent.target]
        for t in tg:
            if isinstance(t, ast.Name):
                return t.id
            if isinstance(t, ast.Attribute):
                return t.attr
    return None


def _arg_field(call: ast.Call) -> Optional[str]:
    if call.args and isinstance(call.args[0], ast.Attribute):
        return call.args[0].attr
    if call.args and isinstance(call.args[0], ast.Subscript) and isinstance(call.args[0].slice, ast.Constant) and isinstance(call.args[0].slice.value, str):
        return call.args[0].slice.value
    return None


def _numeric(r: Resolver, f: Optional[FuncInfo], m, e: ast.AST, depth: int = 0) -> Optional[float]:
    """value of a constant expression (literals, named module constants, + - * / of those)"""
    if depth > 6:
        return None
    if isinstance(e, ast.Constant) and isinstance(e.value, (int, float)) and not isinstance(e.value, bool):
        return float(e.value)
    if isinstance(e, ast.UnaryOp) and isinstance(e.op, (ast.USub, ast.UAdd)):
        v = _numeric(r, f, m, e.operand, depth + 1)
        return None if v is None else (-v if isinstance(e.op, ast.USub) else v)
    if isinstance(e, ast.BinOp) and isinstance(e.op, (ast.Add, ast.Sub, ast.Mult, ast.Div)):
        a, b = _numeric(r, f, m, e.left, depth + 1), _numeric(r, f, m, e.right, depth + 1)
        if a is None or b is None:
            return None
        try:
            return {ast.Add: a + b, ast.Sub: a - b, ast.Mult: a * b}[type(e.op)] if not isinstance(e.op, ast.Div) else a / b
        except (ZeroDivisionError, KeyError):
            return None
    if isinstance(e, (ast.Name, ast.Attribute)):
        b = r.resolve_static(f, m, e)
        b = r.p.deref_var(b) if b is not None else None
        if b is not None and b.kind == "var" and b.target[2] is not None:
            return _numeric(r, None, r.p.modules.get(b.target[0], m), b.target[2], depth + 1)
    return None


def _table_values(r: Resolver, f: Optional[FuncInfo], m, e: ast.AST) -> Optional[List[ast.AST]]:
    """value expressions a look-up `TABLE[k]` / `TABLE.get(k, default)` can produce, for a module-level dict literal TABLE"""
    tab, extra = None, []
    if isinstance(e, ast.Subscript):
        tab = e.value
    elif isinstance(e, ast.Call) and isinstance(e.func, ast.Attribute) and e.func.attr == "get" and e.args:
        tab = e.func.value
        extra = list(e.args[1:2])
    if tab is None or not isinstance(tab, (ast.Name, ast.Attribute)):
        return None
    b = r.resolve_static(f, m, tab)
    b = r.p.deref_var(b) if b is not None else None
    if b is None or b.kind != "var" or not isinstance(b.target[2], ast.Dict):
        return None
    return list(b.target[2].values) + extra


def _possible_offsets(r: Resolver, f: Optional[FuncInfo], m, e: ast.AST, depth: int = 0) -> List[float]:
    """numeric values the operand `e` can take, when they can be read off the code: a constant, or a local filled from a module-level table
    (directly, or as one position of a tuple entry: `scale, offset = TABLE.get(unit, (1.0, 0.0))`)"""
    v = _numeric(r, f, m, e)
    if v is not None:
        return [v]
    if depth > 3 or f is None or not isinstance(e, ast.Name) or isinstance(f.node, ast.Lambda):
        return []
    out: List[float] = []
    for st in body_nodes(f):
        if not isinstance(st, ast.Assign):
            continue
        for t in st.targets:
            if isinstance(t, ast.Name) and t.id == e.id:
                vals = _table_values(r, f, m, st.value)
                for ve in (vals if vals is not None else [st.value]):
                    out += _possible_offsets(r, f, m, ve, depth + 1) if not isinstance(ve, ast.Name) or ve.id != e.id else []
            elif isinstance(t, (ast.Tuple, ast.List)):
                for i, te in enumerate(t.elts):
                    if isinstance(te, ast.Name) and te.id == e.id:
                        vals = _table_values(r, f, m, st.value)
                        cands = vals if vals is not None else [st.value]
                        for ve in cands:
                            if isinstance(ve, (ast.Tuple, ast.List)) and i < len(ve.elts):
                                nv = _numeric(r, f, m, ve.elts[i])
                                if nv is not None:
                                    out.append(nv)
    return out


def _cone(r: Resolver, f: FuncInfo) -> List[Tuple[Optional[FuncInfo], object, ast.AST]]:
    """(function or None, module, root node) for f, the package functions it (transitively) calls, and the module-level values they name"""
    out, seen_f, seen_v, stack = [], set(), set(), [f]
    while stack:
        g = stack.pop()
        if g in seen_f or isinstance(g.node, ast.Lambda) and False:
            continue
        seen_f.add(g)
        out.append((g, g.module, g.node))
        for call, tgs in r.calls_of(g):
            for t in tgs:
                if isinstance(t, FuncInfo) and t not in seen_f and len(seen_f) < 40:
                    stack.append(t)
        for n in body_nodes(g):
            if isinstance(n, ast.Name) and isinstance(n.ctx, ast.Load):
                b = r.lookup(g, g.module, n.id)
                b = r.p.deref_var(b) if b is not None else None
                if b is not None and b.kind == "var" and b.target[2] is not None and (b.target[0], b.target[1]) not in seen_v:
                    seen_v.add((b.target[0], b.target[1]))
                    vm = r.p.modules.get(b.target[0], g.module)
                    if isinstance(b.target[2], (ast.Dict, ast.Tuple, ast.List, ast.Lambda, ast.Call)):
                        out.append((None, vm, b.target[2]))
                        for x in ast.walk(b.target[2]):
                            if isinstance(x, (ast.Name, ast.Attribute)):
                                fb = r.resolve_static(None, vm, x)
                                if fb is not None and fb.kind == "func" and fb.target not in seen_f:
                                    stack.append(fb.target)
    return out


def check_offset_free(ctx: CheckContext, p: Program, r: Resolver, rule: str = "OFFSET-FREE") -> int:
    ctx.rule(rule, "the value extractor applied both to absolute temperatures (t_supply, t_target) and to the temperature difference dt_cont adds or subtracts "
                   "no non-zero constant anywhere in its cone: an offset unit conversion would be wrong for the difference")
    diff_sites: Dict[FuncInfo, List[Tuple[FuncInfo, ast.Call]]] = {}
    abs_sites: Dict[FuncInfo, List[Tuple[FuncInfo, ast.Call]]] = {}
    for f in p.all_funcs:
        if isinstance(f.node, ast.Lambda):
            continue
        parent = {}
        for x in ast.walk(f.node):
            for ch in ast.iter_child_nodes(x):
                parent[id(ch)] = x
        for call, tgs in r.calls_of(f):
            fld = _arg_field(call)
            if fld is None or len(call.args) < 1:
                continue
            fs = [t for t in tgs if isinstance(t, FuncInfo) and not isinstance(t.node, ast.Lambda)]
            if len(fs) != 1:
                continue
            bound = _bound_name(parent.get(id(call)), call)
            if fld in DIFF_FIELDS and (bound in DIFF_FIELDS or bound is None):
                diff_sites.setdefault(fs[0], []).append((f, call))
            elif fld in ABS_FIELDS:
                abs_sites.setdefault(fs[0], []).append((f, call))
    shared = [g for g in diff_sites if g in abs_sites]
    if not shared:
        ctx.abstain(rule, "no extractor shared by dt_cont and the absolute temperatures was found")
        return 0
    n = 0
    for g in shared:
        shape = lambda c: (len(c.args), tuple(sorted(k.arg or "**" for k in c.keywords)))
        if {shape(c) for _, c in diff_sites[g]} != {shape(c) for _, c in abs_sites[g]} or any(len(c.args) + len(c.keywords) > 1 for _, c in diff_sites[g]):
            ctx.abstain(rule, f"{g.name}: the dt_cont call sites pass other arguments than the absolute-temperature call sites (a switch for differences?)")
            continue
        hits = []
        for (fn, mod, root) in _cone(r, g):
            # index arithmetic (`x[len(x) - 1]`, `range(n + 1)`) is not arithmetic on the extracted value
            index_nodes = set()
            for nd in ast.walk(root):
                if isinstance(nd, ast.Subscript):
                    index_nodes |= {id(x) for x in ast.walk(nd.slice)}
                elif isinstance(nd, ast.Call) and isinstance(nd.func, ast.Name) and nd.func.id in ("range", "len", "enumerate", "round", "int"):
                    for a in nd.args[(1 if nd.func.id == "round" else 0):]:
                        index_nodes |= {id(x) for x in ast.walk(a)}
            # the operand the constant is added to must come from a parameter of the enclosing function / lambda (the payload or its magnitude)
            params_of = {}
            for sc in ast.walk(root):                    # breadth-first: inner scopes come later and overwrite the outer assignment
                if not isinstance(sc, (ast.FunctionDef, ast.AsyncFunctionDef, ast.Lambda)):
                    continue
                derived = {a_.arg for a_ in sc.args.args + sc.args.kwonlyargs + sc.args.posonlyargs}
                for _ in range(3):
                    for x in ast.walk(sc):
                        if isinstance(x, ast.Assign) and any(isinstance(y, ast.Name) and y.id in derived for y in ast.walk(x.value)):
                            for t in x.targets:
                                derived |= {y.id for y in ast.walk(t) if isinstance(y, ast.Name)}
                for y in ast.walk(sc):
                    params_of[id(y)] = derived
            for nd in ast.walk(root):
                if id(nd) in index_nodes:
                    continue
                if isinstance(nd, ast.BinOp) and isinstance(nd.op, (ast.Add, ast.Sub)) \
                        and any(isinstance(y, ast.Name) and y.id in params_of.get(id(nd), set()) for y in ast.walk(nd)):
                    for const, other in ((nd.right, nd.left), (nd.left, nd.right)):
                        vs = [x for x in _possible_offsets(r, fn, mod, const) if abs(x) >= 1.0]
                        if not vs:
                            continue
                        v = vs[0]
                        if _numeric(r, fn, mod, other) is not None:
                            continue                     # constant folding, not a conversion of a value
                        if not any(isinstance(x, (ast.Name, ast.Attribute, ast.Subscript)) for x in ast.walk(other)):
                            continue
                        hits.append((fn, mod, nd, v))
                        break
        n += 1
        ok = not hits
        where = f"{g.module.relpath}:{g.node.lineno}"
        msg = ""
        if hits:
            fn, mod, nd, v = hits[0]
            where = f"{mod.relpath}:{nd.lineno}"
            msg = (f"{g.name}() extracts dt_cont (a temperature DIFFERENCE: {len(diff_sites[g])} call sites) and t_supply / t_target (absolute temperatures: "
                   f"{len(abs_sites[g])} call sites) with the same arguments, and its cone computes `{ast.unparse(nd)[:70]}` (offset {v:g}): a contribution "
                   f"labelled with that unit is shifted by the offset, and with it every shifted temperature, pinch and target")
        ctx.ob(rule, f"{g.qualname}:offset-free", where, ok, msg, diff_call_sites=len(diff_sites[g]), abs_call_sites=len(abs_sites[g]))
    return n

"""C20 - label-form clause of the eps-NTU dispatch, and the LMTD refusal guard."""
from ..core.model import Program, mutated_source
from ..core.report import CheckContext
from ..core.resolve import Resolver
from ..rules import dispatch, effect
from .common import run_control, generic_rules


def analyse(ctx: CheckContext, p: Program):
    r = Resolver(p)
    ctx.guard(generic_rules, ctx, p, r, "C20")
    ctx.guard(dispatch.check_dispatch, ctx, p, r)
    ctx.guard(dispatch.check_lmtd_guard, ctx, p, r)
    # the relations are functions of their arguments only: nothing in the module writes module-level state (memo tables keyed too coarsely etc.)
    fs = [f for f in p.all_funcs if f.module.name == "OpenPinch.utils.heat_exchanger"]
    ctx.guard(effect.check_module_state, ctx, p, r, fs, rule="PURE")


def run(ctx: CheckContext):
    p = Program()
    analyse(ctx, p)
    ctx.floor("DISPATCH", 16)       # 8 members x 2 forms in at least one dispatcher
    ctx.floor("LMTD-GUARD", 2)   # both end differences of compute_LMTD_from_dts
    ctx.info["modules"] = len(p.modules)
    ctx.assumptions += [
        "decides the label-form clause and the refusal guard only; the eps-NTU formulas, monotonicity and inverse accuracy are numeric and not decided",
        "Enum equality semantics: a plain Enum member never equals its value; a str/int mixed-in member does",
    ]
    hx = "OpenPinch/utils/heat_exchanger.py"
    run_control(ctx, "C20/member-compare-in-HX_Eff", analyse, p.root, hx,
                "elif Arrangement == HX.CrFMM.value:\n            eff = (", "elif Arrangement == HX.CrFMM:\n            eff = (", expect_rule="DISPATCH")
    run_control(ctx, "C20/normalisation-removed-in-HX_NTU", analyse, p.root, hx,
                '    Arrangement = getattr(Arrangement, "value", Arrangement)\n\n    if Passes > 1:', "    if Passes > 1:", expect_rule="DISPATCH")
    run_control(ctx, "C20/module-memo-table", analyse, p.root, hx,
                "def Coth(R):", "_COTH_CACHE = {}\n\n\ndef _remember(R, v):\n    _COTH_CACHE[round(R, 3)] = v\n    return v\n\n\ndef Coth(R):", "PURE")
    run_control(ctx, "C20/guard-weakened", analyse, p.root, hx,
                "if delta_T1.round(6).min() <= 0 or delta_T2.round(6).min() <= 0:", "if delta_T1.round(6).min() <= 0:", expect_rule="LMTD-GUARD")

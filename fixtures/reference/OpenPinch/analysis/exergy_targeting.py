"""Exergy targeting analysis."""

import math
from ..lib import *

__all__ = ['compute_exergetic_temperature']

#######################################################################################################
# Public API -- TODO: Need to restore exergy targeting
#######################################################################################################


def compute_exergetic_temperature(
    T: float, T_ref_in_C: float = 15.0, units_of_T: str = "C"
) -> float:
    """Calculate the exergetic temperature difference relative to T_ref (in °C or K)."""
    # Marmolejo-Correa, D., Gundersen, T., 2013. New Graphical Representation of Exergy Applied to Low Temperature Process Design.
    # Industrial & Engineering Chemistry Research 52, 7145–7156. https://doi.org/10.1021/ie302541e
    if units_of_T not in ("C", "K"):
        raise ValueError("units must be either 'C' or 'K'")

    T_amb = T_ref_in_C + C_to_K  # Convert reference to Kelvin
    T_K = T + C_to_K if units_of_T == "C" else T

    if T_K <= 0:
        raise ValueError("Absolute temperature must be > 0 K")

    ratio = T_K / T_amb
    return T_amb * (ratio - 1 - math.log(ratio))


#######################################################################################################
# Helper functions
#######################################################################################################

############# Review and testing needed!!!!!!!!!!!!!!
# def _calc_exergy_gcc(z, pt_real, BCC, GCC_A):
#     """Determine Exergy Transfer Effectiveness including process and utility streams.
#     """
#     # Exergy Transfer Effectiveness proposed by Marmolejo-Correa, D., Gundersen, T., 2012.
#     # A comparison of exergy efficiency definitions with focus on low temperature processes.
#     # Energy 44, 477–489. https://doi.org/10.1016/j.energy.2012.06.001
#     x_source, x_sink, n_ETE = _calc_total_exergy(BCC)
#     z.exergy_sources = x_source
#     z.exergy_sinks = x_sink
#     z.ETE = n_ETE

#     GCC_X = z.Calc_ExGCC(GCC_A)
#     x_source, x_sink, n_ETE = _calc_total_exergy(pt_real, Col_T=0, Col_HCC=4, Col_CCC=7)

#     z.exergy_req_min = GCC_X[1][1]
#     z.exergy_des_min = GCC_X[1][-1]

#     return GCC_X

############# Review and testing needed!!!!!!!!!!!!!!
# def _calc_total_exergy(z: Zone, CC, x_source=0, x_sink=0, n_ETE=0, Col_T=0, Col_HCC=2, Col_CCC=4):
#     """Determines the source and sink exergy of a balanced CC."""
#     for i in range(1, len(CC[0])):
#         T_ex1 = compute_exergetic_temperature(CC[Col_T][i - 1], T_ref=z.config.T_ENV)
#         T_ex2 = compute_exergetic_temperature(CC[Col_T][i], T_ref=z.config.T_ENV)
#         CP_hot = (CC[Col_HCC][i - 1] - CC[Col_HCC][i]) / (CC[Col_T][i - 1] - CC[Col_T][i])
#         CP_cold = (CC[Col_CCC][i - 1] - CC[Col_CCC][i]) / (CC[Col_T][i - 1] - CC[Col_T][i])

#         if T_ex1 > 0:
#             x_source = x_source + CP_hot * T_ex1
#             x_sink = x_sink + CP_cold * T_ex1
#         else:
#             x_source = x_source + CP_cold * T_ex1
#             x_sink = x_sink + CP_hot * T_ex1

#         if T_ex2 > 0:
#             x_source = x_source - CP_hot * T_ex2
#             x_sink = x_sink - CP_cold * T_ex2
#         else:
#             x_source = x_source - CP_cold * T_ex2
#             x_sink = x_sink - CP_hot * T_ex2

#     n_ETE = x_sink / x_source if x_source > tol else 0

#     return x_source, x_sink, n_ETE

# def Calc_ExGCC(z, GCC_A):
#     """Transposes a normal GCC (T-h) into a exergy GCC (Tx-X).
#     """
#     GCC_X = copy.deepcopy(GCC_A)
#     Min_X = 0
#     AbovePT = True
#     GCC_X[0][0] = compute_exergetic_temperature(GCC_A[0][0] + z.config.DT_CONT / 2, T_ref=z.config.T_ENV)
#     GCC_X[1][0] = 0
#     i_upper = len(GCC_X[0]) + 1

#     # Transpose to exergetic temperature and exergy flow
#     i = 1
#     GCC_A_i = 1
#     while i <= i_upper and GCC_A_i < len(GCC_A[0]):
#         if AbovePT:
#             GCC_X[0][i] = compute_exergetic_temperature(GCC_A[0][GCC_A_i] + z.config.DT_CONT / 2, T_ref=z.config.T_ENV)
#             GCC_X[1][i] = (GCC_A[1][GCC_A_i - 1] - GCC_A[1][GCC_A_i]) / (GCC_A[0][GCC_A_i - 1] - GCC_A[0][GCC_A_i])
#             GCC_X[1][i] = GCC_X[1][i - 1] - GCC_X[1][i] * (GCC_X[0][i - 1] - GCC_X[0][i])
#             if GCC_A[1][GCC_A_i] < tol:
#                 Min_X = GCC_X[1][i]
#                 for row in GCC_X:
#                     row += [0, 0]
#                 i += 2
#                 GCC_A_i += 1
#                 GCC_X[0][i] = compute_exergetic_temperature(GCC_A[0][GCC_A_i - 1] - z.config.DT_CONT / 2, T_ref=z.config.T_ENV)
#                 GCC_X[1][i] = GCC_X[1][i - 1]
#                 AbovePT = False
#         else:
#             GCC_X[0][i] = compute_exergetic_temperature(GCC_A[0][GCC_A_i - 1] - z.config.DT_CONT / 2, T_ref=z.config.T_ENV)
#             GCC_X[1][i] = (GCC_A[1][GCC_A_i - 2] - GCC_A[1][GCC_A_i - 1]) / (GCC_A[0][GCC_A_i - 2] - GCC_A[0][GCC_A_i - 1])
#             GCC_X[1][i] = GCC_X[1][i - 1] - GCC_X[1][i] * (GCC_X[0][i - 1] - GCC_X[0][i])
#         i += 1
#         GCC_A_i += 1

#     # Shift Exergy GCC appropriately
#     for i in range(1, len(GCC_X[0])):
#         GCC_X[1][i] = GCC_X[1][i] + abs(Min_X)
#         if abs(GCC_X[1][i]) < tol:
#             GCC_X[1][i] = 0

#     return GCC_X


#!/venv/bin/python
"""Confirm behaviour-preserving refactorings from sub-agents and import them to /verif/seeded/twins/<prop>t-<n>/.
Kept only if: patch applies to /repo HEAD, baseline suite passes with it, demo exits 0 on the clean and on the patched tree."""
import glob, json, os, shutil, subprocess, sys, xml.etree.ElementTree as ET
VERIF = os.path.dirname(os.path.dirname(os.path.abspath(__file__)))

def sh(cmd, cwd=None, timeout=1800):
    p = subprocess.run(cmd, shell=True, cwd=cwd, stdout=subprocess.PIPE, stderr=subprocess.STDOUT, text=True, timeout=timeout)
    return p.returncode, p.stdout

def suite_ok(wt):
    base = json.load(open("/root/.vp/BASELINE.json")); stable = set(base["stable_pass"])
    xml = os.path.join(wt, "_junit.xml")
    sh(f"cd {wt} && /venv/bin/python -m pytest -q -p no:cacheprovider --timeout=900 --continue-on-collection-errors --junitxml={xml} -n 8", timeout=1800)
    if not os.path.exists(xml): return False, "no junit"
    passed = {f"{tc.get('classname')}::{tc.get('name')}" for tc in ET.parse(xml).getroot().iter("testcase") if not any(ch.tag in ("failure","error","skipped") for ch in tc)}
    os.remove(xml)
    missing = sorted(stable - passed)
    return (not missing), f"{len(stable & passed)}/{len(stable)} stable pass" + (f"; failing {missing[:2]}" if missing else "")

def main():
    only = sys.argv[1:]
    for d in sorted(glob.glob("/tmp/wt/C*[tuvwx].out/*/")):
        prop = d.split("/")[3].split(".")[0]      # C05t
        n = d.rstrip("/").split("/")[-1]
        sid = f"{prop}-{n}"
        if only and sid not in only and prop not in only: continue
        dest = os.path.join(VERIF, "seeded", "twins", sid)
        if os.path.exists(dest): continue
        patch, demo = os.path.join(d, "patch.diff"), os.path.join(d, "demo.py")
        if not (os.path.exists(patch) and os.path.exists(demo)):
            print(sid, "incomplete"); continue
        wt = f"/tmp/seedcheck/{sid}"
        shutil.rmtree(wt, ignore_errors=True); sh("git -C /repo worktree prune")
        rc, out = sh(f"git -C /repo worktree add --detach -q {wt} HEAD")
        if rc: print(sid, "worktree failed", out); continue
        try:
            demo_local = f"/tmp/seedcheck/{sid}_demo.py"
            open(demo_local, "w").write(open(demo).read().replace(f"/tmp/wt/{prop}", wt))
            rc0, out0 = sh(f"cd {wt} && /venv/bin/python {demo_local}", timeout=1200)
            rca, outa = sh(f"git -C {wt} apply {patch}")
            if rca: print(sid, "patch does not apply", outa[-200:]); continue
            ok, msg = suite_ok(wt)
            rc1, out1 = sh(f"cd {wt} && /venv/bin/python {demo_local}", timeout=1200)
            same = out0 == out1
            verdict = rc0 == 0 and rc1 == 0 and ok
            print(f"{sid}: demo clean={rc0} suite={msg} demo patched={rc1} same_output={same} -> {'KEEP' if verdict else 'REJECT'}")
            if not verdict: continue
            os.makedirs(dest)
            shutil.copy(patch, os.path.join(dest, "patch.diff")); shutil.copy(demo, os.path.join(dest, "demo.py"))
            nt = os.path.join(d, "notes.md")
            open(os.path.join(dest, "notes.md"), "w").write(open(nt).read() if os.path.exists(nt) else "")
            json.dump({"id": sid, "kind": "behaviour-preserving refactoring (must NOT raise an alarm)", "anchored_property": prop[:-1],
                       "files": [l[6:].strip() for l in open(patch) if l.startswith("+++ b/")],
                       "confirmed": {"demo_clean_exit": rc0, "baseline_suite_with_patch": msg, "demo_patched_exit": rc1, "demo_output_identical": same},
                       "source": "independent sub-agent given only the property text and a scratch worktree"}, open(os.path.join(dest, "meta.json"), "w"), indent=1)
        finally:
            sh(f"git -C /repo worktree remove --force {wt}"); shutil.rmtree(wt, ignore_errors=True)
            try: os.remove(demo_local)
            except OSError: pass
    sh("git -C /repo worktree prune")
if __name__ == "__main__":
    main()

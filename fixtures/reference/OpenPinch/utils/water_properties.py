"""Convenience wrappers around CoolProp for common water property queries."""

from CoolProp.CoolProp import PropsSI

FLUID = "Water"


def Tsat_p(P):
    """Saturation temperature (°C) at pressure ``P`` (bar)."""
    P = toSIunit_p(P)
    T = PropsSI("T", "P", P, "Q", 1, FLUID)
    return fromSIunit_T(T)


def psat_T(T):
    """Saturation pressure (bar) at temperature ``T`` (°C)."""
    T = toSIunit_T(T)
    p = PropsSI("P", "T", T, "Q", 1, FLUID)
    return fromSIunit_p(p)


def hV_p(P):
    """Vapour enthalpy (kJ/kg) at pressure ``P`` (bar)."""
    P = toSIunit_p(P)
    h = PropsSI("H", "P", P, "Q", 1, FLUID)
    return fromSIunit_h(h)


def hL_p(P):
    """Liquid enthalpy (kJ/kg) at pressure ``P`` (bar)."""
    P = toSIunit_p(P)
    h = PropsSI("H", "P", P, "Q", 0, FLUID)
    return fromSIunit_h(h)


def h_pT(P, T):
    """Specific enthalpy (kJ/kg) at ``(P, T)`` where ``P`` is bar and ``T`` is °C."""
    P = toSIunit_p(P)
    T = toSIunit_T(T)
    h = PropsSI("H", "P", P, "T", T, FLUID)
    return fromSIunit_h(h)


def h_ps(P, s):
    """Specific enthalpy (kJ/kg) at pressure ``P`` (bar) and entropy ``s`` (kJ/kg/K)."""
    P = toSIunit_p(P)
    s = toSIunit_s(s)
    h = PropsSI("H", "P", P, "S", s, FLUID)
    return fromSIunit_h(h)


def s_ph(P, H):
    """Specific entropy (kJ/kg/K) at pressure ``P`` (bar) and enthalpy ``H`` (kJ/kg)."""
    P = toSIunit_p(P)
    H = toSIunit_h(H)
    s = PropsSI("S", "H", H, "P", P, FLUID)
    return fromSIunit_s(s)


"""'
***********************************************************************************************************
*2 Units                                                                                                  *
***********************************************************************************************************
"""


def toSIunit_p(Ins):
    """Convert bar to Pa."""
    # Translate bar to Pa
    if Ins == None:
        Ins = 0
    return Ins * 100000


def fromSIunit_p(Ins):
    """Convert Pa to bar."""
    # Translate MPa to bar
    if Ins == None:
        Ins = 0
    return Ins / 100000


def toSIunit_T(Ins):
    """Convert °C to Kelvin."""
    # Translate degC to Kelvin
    if Ins == None:
        Ins = 0
    return Ins + 273.15


def fromSIunit_T(Ins):
    """Convert Kelvin to °C."""
    # Translate Kelvin to degC
    if Ins == None:
        Ins = 0
    return Ins - 273.15


def toSIunit_h(Ins):
    """Convert kJ/kg to J/kg."""
    if Ins == None:
        Ins = 0
    return Ins * 1000


def fromSIunit_h(Ins):
    """Convert J/kg to kJ/kg."""
    if Ins == None:
        Ins = 0
    return Ins / 1000


def toSIunit_s(Ins):
    """Identity conversion for entropy; maintained for API symmetry."""
    return Ins


def fromSIunit_s(Ins):
    """Identity conversion for entropy; maintained for API symmetry."""
    return Ins

"""C01 (part) - structural necessary conditions of 'direct-integration targets equal the exact cascade':
each stream is shifted by its own contribution in the right direction and refreshed by every writer (DERIVED), the shifted table is built
from shifted bounds and the real one from real bounds on every call chain (SCALE), Qh/Qc are the two ends of one cascade column
(PAIR-SRC), and no temperature / duty of the input is treated as missing because it is 0 (TRUTHY)."""
from ..core.model import AnalysisError, Program
from ..core.report import CheckContext
from ..core.resolve import Resolver
from ..rules import bookkeeping as bk, derived, scale
from ..rules import unitfree
from ..rules import inval as _inval_rl
from .common import run_control, generic_rules, anchor_funcs


def analyse(ctx: CheckContext, p: Program):
    r = Resolver(p)
    ctx.guard(generic_rules, ctx, p, r, "C01", extra_modules=("OpenPinch/analysis/data_preparation.py",))
    ctx.guard(_inval_rl.check_round_last, ctx, p, r, anchor_funcs(p, "C01"))
    ctx.guard(_specific, ctx, p, r)
    ctx.guard(unitfree.check_offset_free, ctx, p, r)


def _specific(ctx: CheckContext, p: Program, r: Resolver):
    st = p.find_class("Stream")
    if st is None:
        raise AnalysisError("Stream class not found")
    ctx.guard(derived.check_derived, ctx, r, st, invariant_props=["CP", "t_min", "t_max", "t_min_star", "t_max_star", "htr"],
                          base_props=["t_supply", "t_target", "heat_flow", "dt_cont", "htc"])
    ctx.guard(derived.check_stale_order, ctx, r, st)
    ctx.guard(derived.check_setter_siblings, ctx, r, st, ["t_supply", "t_target", "heat_flow", "dt_cont", "htc"])
    groups = ctx.guard(derived.check_shift_direction, ctx, r, st)
    if groups is not None:
        ctx.guard(derived.check_helper_guards, ctx, r, st, groups)
    ctx.guard(scale.check_scale, ctx, p, r)
    ctx.guard(bk.check_pair_source, ctx, p, r, [f for f in p.all_funcs if f.module.name.startswith("OpenPinch.analysis.")])


def run(ctx: CheckContext):
    p = Program()
    analyse(ctx, p)
    ctx.floor("DERIVED", 6)
    ctx.floor("DERIVED-DIR", 4)
    ctx.floor("SCALE", 4)
    ctx.floor("PAIR-SRC", 1)
    ctx.assumptions += [
        "decides structural necessary conditions only: the interval-activity window, 6-decimal rounding of the grid, the cumulative sums and the min(H_net)=0 shift are "
        "arithmetic and NOT decided - a change of a tolerance, a comparison side or a formula in the cascade is not detected",
        "quantities are recognised from the repository's naming table (t_*, *_pinch, heat_flow, ...)",
    ]
    stp = "OpenPinch/classes/stream.py"
    pta = "OpenPinch/analysis/problem_table_analysis.py"
    run_control(ctx, "C01/kelvin-offset-in-shared-extractor", analyse, p.root, "OpenPinch/utils/miscellaneous.py",
                "    elif isinstance(val, ValueWithUnit):\n        return val.value",
                "    elif isinstance(val, ValueWithUnit):\n        return val.value - 273.15 if val.units == 'K' else val.value", "OFFSET-FREE")
    run_control(ctx, "C01/dt_cont-setter-no-recompute", analyse, p.root, stp,
                "        self._dt_cont = value\n        self._update_attributes()\n", "        self._dt_cont = value\n", "DERIVED")
    run_control(ctx, "C01/cold-shift-sign", analyse, p.root, stp,
                "        self._t_min_star = self._t_min + self._dt_cont\n", "        self._t_min_star = self._t_min - self._dt_cont\n", "DERIVED-DIR")
    run_control(ctx, "C01/flag-dropped-in-cascade", analyse, p.root, pta,
                "problem_table_algorithm(pt, hot_streams, cold_streams, is_shifted)", "problem_table_algorithm(pt, hot_streams, cold_streams)", "SCALE")
    run_control(ctx, "C01/cold-target-from-first-row", analyse, p.root, pta,
                '"cold_utility_target": pt.loc[-1, PT.H_NET.value],', '"cold_utility_target": pt.loc[0, PT.H_NET.value],', "PAIR-SRC")
    run_control(ctx, "C01/zero-temperature-stream-dropped", analyse, p.root, "OpenPinch/analysis/data_preparation.py",
                "if t_target is None or", "if not t_target or", "TRUTHY")

"""T5 - reader column tables cover the schema; sibling readers share helpers; channel dispatch agreement (C16)."""
from __future__ import annotations

import ast
from typing import Dict, List, Optional, Set

from ..core.model import AnalysisError, ClassInfo, FuncInfo, Program
from ..core.report import CheckContext, norm_stmt
from ..core.resolve import Resolver, body_nodes


def required_fields(ci: ClassInfo) -> List[str]:
    out = []
    for st in ci.node.body:
        if isinstance(st, ast.AnnAssign) and isinstance(st.target, ast.Name) and st.target.id != "model_config":
            v = st.value
            if v is None:
                out.append(st.target.id)
            elif isinstance(v, ast.Call) and ast.unparse(v.func).endswith("Field") and v.args and isinstance(v.args[0], ast.Constant) and v.args[0].value is Ellipsis:
                out.append(st.target.id)
    return out


def column_tables(f: FuncInfo) -> Dict[str, List[str]]:
    """{sheet label: literal column list} from an if/elif chain `param == "<label>": col_names = [...]`."""
    out: Dict[str, List[str]] = {}
    for n in body_nodes(f):
        if isinstance(n, ast.If) and isinstance(n.test, ast.Compare) and len(n.test.ops) == 1 and isinstance(n.test.ops[0], ast.Eq) \
                and isinstance(n.test.left, ast.Name) and n.test.left.id in f.pos_params and isinstance(n.test.comparators[0], ast.Constant):
            label = n.test.comparators[0].value
            for st in n.body:
                if isinstance(st, ast.Assign) and isinstance(st.value, ast.List) and all(isinstance(e, ast.Constant) for e in st.value.elts):
                    out[label] = [e.value for e in st.value.elts]
    return out


def check_reader_tables(ctx: CheckContext, p: Program, r: Resolver, rule: str = "T5"):
    ctx.rule(rule, "the reader column tables for 'Stream Data'/'Utility Data' cover every required field of StreamSchema/UtilitySchema; "
                   "the CSV and workbook readers use the same column and record helpers; both CSV forms of PinchProblem.load reach the same reader with the same arguments")
    wk = p.modules.get("OpenPinch.utils.wkbook_to_json")
    cs = p.modules.get("OpenPinch.utils.csv_to_json")
    if wk is None or cs is None:
        raise AnalysisError("reader modules not found")
    tabf = None
    for f in wk.funcs.values():
        t = column_tables(f)
        if len(t) >= 2:
            tabf, tables = f, t
    if tabf is None:
        raise AnalysisError("column-name table function not found in wkbook_to_json (anchor vanished)")
    pairs = {"Stream Data": "StreamSchema", "Utility Data": "UtilitySchema"}
    for label, cname in pairs.items():
        ci = p.find_class(cname)
        if ci is None:
            raise AnalysisError(f"{cname} not found")
        req = required_fields(ci)
        cols = tables.get(label)
        if cols is None:
            ctx.ob(rule, f"{tabf.qualname}:{label}", tabf.loc, False, f"no column table for sheet '{label}'")
            continue
        for fld in req:
            ok = fld in cols
            ctx.ob(rule, f"{tabf.qualname}:{label}:{fld}", tabf.loc, ok,
                   "" if ok else f"required field {cname}.{fld} is missing from the '{label}' column table, so no row of that channel validates")
        dup = {c for c in cols if cols.count(c) > 1}
        ctx.ob(rule, f"{tabf.qualname}:{label}:unique", tabf.loc, not dup, "" if not dup else f"duplicate column names {sorted(dup)} in '{label}' table")
    # sibling readers share helpers
    def callee_names(f: FuncInfo) -> Set[str]:
        out = set()
        for call, tg in r.calls_of(f):
            for t in tg:
                if isinstance(t, FuncInfo):
                    out.add(t.qualname)
        return out
    wk_parse = wk.funcs.get("_parse_sheet_with_units")
    cs_parse = cs.funcs.get("_parse_csv_with_units")
    if wk_parse is None or cs_parse is None:
        raise AnalysisError("sheet/CSV parser functions not found")
    shared_needed = {c for c in callee_names(wk_parse) if c.startswith("OpenPinch.utils.wkbook_to_json:")}
    for c in sorted(shared_needed):
        ok = c in callee_names(cs_parse)
        ctx.ob(rule + "-SIB", f"{cs_parse.qualname}:{c}", cs_parse.loc, ok,
               "" if ok else f"the CSV reader does not use the workbook reader's helper {c.split(':')[1]} (channels would build records differently)")
    # both CSV forms in PinchProblem.load call the same reader with the same argument shape
    pp = p.find_class("PinchProblem")
    load = pp.methods.get("load") if pp else None
    if load is None:
        raise AnalysisError("PinchProblem.load not found")
    calls = []
    scope = [load]
    for call, tg in r.calls_of(load):
        for t in tg:
            if isinstance(t, FuncInfo) and t.cls is pp and t not in scope:
                scope.append(t)          # private helper methods the loader delegates to
    for g in scope:
        for call, tg in r.calls_of(g):
            for t in tg:
                if isinstance(t, FuncInfo) and t.module is cs:
                    shape = (t.qualname, len(call.args), tuple(sorted((k.arg, ast.unparse(k.value)) for k in call.keywords)))
                    calls.append((call, shape))
    if len(calls) == 0:
        ctx.ob(rule + "-SIB", f"{load.qualname}:csv-forms", load.loc, False, "PinchProblem.load no longer reaches the CSV reader")
    elif len(calls) == 1:
        ctx.ob(rule + "-SIB", f"{load.qualname}:csv-forms", load.loc, True, "both CSV forms share one call of the reader")
    else:
        ok = all(s == calls[0][1] for _, s in calls)
        ctx.ob(rule + "-SIB", f"{load.qualname}:csv-forms", load.loc, ok,
               "" if ok else "the tuple and directory CSV forms call the CSV reader with different arguments: " + " vs ".join(str(s) for _, s in calls))
    # every channel branch of load stores the problem and returns it
    ctx.info["reader_tables"] = {k: v for k, v in tables.items() if k in pairs}


def check_foreign_field_writes(ctx: CheckContext, p: Program, r: Resolver, ci: ClassInfo, fields: Set[str], rule: str):
    """Stores to <obj>.<field> outside the class's own `self` are only allowed on an object constructed in the same function."""
    for f in p.all_funcs:
        for n in body_nodes(f):
            if isinstance(n, (ast.Assign, ast.AugAssign, ast.AnnAssign)):
                tgs = n.targets if isinstance(n, ast.Assign) else [n.target]
                for t in tgs:
                    if isinstance(t, ast.Attribute) and t.attr in fields and isinstance(t.value, ast.Name):
                        recv = t.value.id
                        if f.cls is ci and f.parent is None and not f.is_classmethod and not f.is_static and f.pos_params and recv == f.pos_params[0]:
                            continue
                        ty = r.type_of(f, t.value)
                        if ty is not None and ty is not ci:
                            continue
                        fresh = False
                        for a in body_nodes(f):
                            if isinstance(a, ast.Assign) and any(isinstance(x, ast.Name) and x.id == recv for x in a.targets) and isinstance(a.value, ast.Call):
                                fn = a.value.func
                                if isinstance(fn, ast.Name) and (fn.id == "cls" and f.cls is ci or (r.resolve_static(f, f.module, fn) or None) and r.resolve_static(f, f.module, fn).target is ci):
                                    fresh = True
                        if ty is None and f.cls is not ci and not fresh:
                            continue   # unrelated object with an equally named attribute
                        ctx.ob(rule, f"{f.qualname}:{norm_stmt(n)}", f"{f.module.relpath}:{n.lineno}", fresh,
                               "" if fresh else f"{f.name} writes {ci.name}.{t.attr} of an existing object without invalidating its cache")


"""Streamlit helpers for visualising OpenPinch outputs.

The functions in this module provide a lightweight dashboard scaffold that
renders the composite-curve style graphs emitted by :mod:`OpenPinch.analysis`
alongside the corresponding problem tables.  The dashboard is intentionally
minimal so user projects can layer additional controls as needed.
"""

from __future__ import annotations

from dataclasses import dataclass
import math
from io import BytesIO
from typing import Dict, Iterator, List, Mapping, MutableMapping, Optional, Tuple

import plotly.graph_objects as go
import pandas as pd
import openpyxl as xl_writer

from ..classes import EnergyTarget, ProblemTable, Zone, Stream
from ..lib.enums import ArrowHead, LineColour
from ..analysis.graph_data import get_output_graph_data

__all__ = [
    "StreamlitGraphSet",
    "collect_targets",
    "problem_table_to_dataframe",
    "render_streamlit_dashboard",
]


# Plotly-friendly colours keyed by the internal ``LineColour`` palette.
_SEGMENT_COLOUR_MAP: Dict[int, str] = {
    LineColour.HotS.value: "#e66e6e",  # warm red
    LineColour.ColdS.value: "#5ca5d9",  # cool blue
    LineColour.HotU.value: "#C22323",  # warm red
    LineColour.ColdU.value: "#244abd",  # cool blue
    LineColour.Other.value: "#7f7f7f",  # neutral grey
    LineColour.Black.value: "#111111",
}


@dataclass(slots=True)
class StreamlitGraphSet:
    """Convenience wrapper storing graphs grouped by target name."""

    name: str
    graphs: List[MutableMapping]

    @classmethod
    def from_payload(cls, payload: Mapping[str, object]) -> "StreamlitGraphSet":
        return cls(
            name=str(payload.get("name", "Graph Set")),
            graphs=list(payload.get("graphs", [])),
        )


def collect_targets(zone: Zone) -> Dict[str, EnergyTarget]:
    """Flattens all energy targets beneath ``zone`` keyed by their display name."""

    def _iter(current: Zone) -> Iterator[tuple[str, EnergyTarget]]:
        for name, target in current.targets.items():
            yield name, target
        for subzone in current.subzones.values():
            yield from _iter(subzone)

    return dict(_iter(zone))


def problem_table_to_dataframe(
    table: Optional[ProblemTable], *, round_decimals: int = 2
) -> pd.DataFrame:
    """Convert a :class:`ProblemTable` into a :class:`pandas.DataFrame`."""
    if table is None or getattr(table, "data", None) is None:
        return pd.DataFrame()

    data = table.data
    columns = getattr(table, "columns", [])
    if data.size == 0 or len(columns) == 0:
        return pd.DataFrame(columns=columns)

    frame = pd.DataFrame(data=data, columns=columns).copy()
    if round_decimals is not None:
        numeric_cols = frame.select_dtypes(include="number").columns
        frame.loc[:, numeric_cols] = frame.loc[:, numeric_cols].round(round_decimals)
    return frame


def render_streamlit_dashboard(
    zone: Zone,
    *,
    graph_payload: Optional[Mapping[str, Mapping[str, object]]] = None,
    page_title: Optional[str] = None,
    value_rounding: int = 2,
) -> None:
    """Render a basic Streamlit dashboard for ``zone``."""
    try:
        import streamlit as st
    except ImportError as exc:  # pragma: no cover - streamlit dependency guard
        raise ImportError(
            "Streamlit is required for 'render_streamlit_dashboard'. "
            "Install it with 'pip install streamlit'."
        ) from exc

    st.set_page_config(
        page_title=page_title or f"{zone.name} Pinch Dashboard",
        layout="wide",
        initial_sidebar_state="expanded",
    )

    _apply_dashboard_theme(st)

    st.markdown(
        f"""
        <div class="op-header">
            <div>
                <div class="op-title">{page_title or f"{zone.name} Pinch Dashboard"}</div>
                <div class="op-subtitle">Energy targeting summary with composite curve visualisation</div>
            </div>
        </div>
        """,
        unsafe_allow_html=True,
    )

    targets = collect_targets(zone)
    if not targets:
        st.warning("No targets available for the selected zone.")
        return

    graph_payload = graph_payload or get_output_graph_data(zone)
    graph_sets = {
        name: StreamlitGraphSet.from_payload(payload)
        for name, payload in graph_payload.items()
    }

    base_key = f"{zone.name}_{id(zone)}"

    target_names = sorted(targets.keys())
    selected_target_name = st.sidebar.selectbox(
        "Select zone",
        target_names,
        index=0 if target_names else None,
        key=f"target_select_{base_key}",
    )
    target = targets[selected_target_name]

    st.sidebar.divider()
    st.sidebar.write("Targets")
    st.sidebar.markdown(
        f"<div class='op-utility-title'>Overview</div>",
        unsafe_allow_html=True,
    )    
    st.sidebar.markdown(
        f"""
        <div class="op-metric-grid">
            <div class="op-metric">
                <div class="op-metric-label">Cold pinch</div>
                <div class="op-metric-value">{target.cold_pinch:.1f}&nbsp;\N{DEGREE SIGN}C</div>
            </div>
            <div class="op-metric">
                <div class="op-metric-label">Hot pinch</div>
                <div class="op-metric-value">{target.hot_pinch:.1f}&nbsp;\N{DEGREE SIGN}C</div>
            </div>
            <div class="op-metric">
                <div class="op-metric-label">Hot utility</div>
                <div class="op-metric-value">{target.hot_utility_target:,.0f}&nbsp;kW</div>
            </div>
            <div class="op-metric">
                <div class="op-metric-label">Cold utility</div>
                <div class="op-metric-value">{target.cold_utility_target:,.0f}&nbsp;kW</div>
            </div>
            <div class="op-metric">
                <div class="op-metric-label">Heat recovery</div>
                <div class="op-metric-value">{target.heat_recovery_target:,.0f}&nbsp;kW</div>
            </div>
            <div class="op-metric">
                <div class="op-metric-label">Degree of integration</div>
                <div class="op-metric-value">{target.degree_of_int:.0%}</div>
            </div>
        </div>
        """,
        unsafe_allow_html=True,
    )

    ut_dict = {
        "Hot utilities" : target.hot_utilities, 
        "Cold utilities" : target.cold_utilities,
    }
    for entry, utilities in ut_dict.items():
        st.sidebar.divider()
        st.sidebar.markdown(
            f"<div class='op-utility-title'>{entry}</div>",
            unsafe_allow_html=True,
        )
        if utilities:
            cards = "".join(
                f"<div class=\"op-utility-card\">"
                f"<div class=\"op-utility-name\">{u.name}</div>"
                f"<div class=\"op-utility-value\">{u.heat_flow:,.0f}&nbsp;kW</div>"
                f"</div>"
                for u in utilities
            )
            st.sidebar.markdown(
                f"<div class='op-utility-grid'>{cards}</div>",
                unsafe_allow_html=True,
            )
        else:
            st.sidebar.markdown(
                "<div class=\"op-utility-grid\">"
                "<div class=\"op-utility-card op-utility-empty\">Not required</div>"
                "</div>",
                unsafe_allow_html=True,
            )


    tabs = st.tabs(
        [
            "Graphs",
            "Problem Table (Shifted)",
            "Problem Table (Real)",
        ]
    )

    with tabs[0]:
        graph_set = graph_sets.get(selected_target_name)
        if graph_set is None or not graph_set.graphs:
            st.info("No graphs available for this target.")
        else:
            graph_names = [
                str(graph.get("name") or graph.get("type") or f"Graph {idx + 1}")
                for idx, graph in enumerate(graph_set.graphs)
            ]
            columns = st.columns(2)
            for idx, graph in enumerate(graph_set.graphs):
                column = columns[idx % 2]
                with column:
                    st.markdown(f"<div class='op-card-title'>{graph_names[idx]}</div>", unsafe_allow_html=True)
                    figure = _build_plotly_graph(graph)
                    st.plotly_chart(
                        figure,
                        use_container_width=True,
                        config={"displaylogo": False},
                    )

    with tabs[1]:
        pt_df = problem_table_to_dataframe(
            target.pt, round_decimals=value_rounding
        )
        # problem_table_to_dataframe(target.pt, round_decimals=value_rounding)
        if pt_df.empty:
            st.info("No shifted problem table data available.")
        else:
            st.badge("Extended problem table based on shifted process temperatures. Note: Interval delta values shown in line with zeros at the top of the coloumns.")
            st.dataframe(pt_df, width="stretch")
            default_loc = f"results/{selected_target_name.replace('/', '-')}_shifted.xlsx"

            _build_download(
                st=st,
                default=default_loc,
                base_key=base_key,
                selected_target_name=selected_target_name,
                df=pt_df,
                key_suffix="shifted",
            )

    with tabs[2]:
        pt_real_df = problem_table_to_dataframe(
            target.pt_real, round_decimals=value_rounding
        )
        if pt_real_df.empty:
            st.info("No real-temperature problem table data available.")
        else:
            st.badge("Extended problem table based on real process temperatures. Note: Interval delta values shown in line with zeros at the top of the coloumns.")
            st.dataframe(pt_real_df, width="stretch")
            default_loc = f"results/{selected_target_name.replace('/', '-')}_real.xlsx"

            _build_download(
                st=st,
                default=default_loc,
                base_key=base_key,
                selected_target_name=selected_target_name,
                df=pt_real_df,
                key_suffix="real",
            )


def _build_download(
    st,
    default: str,
    *,
    base_key: str,
    selected_target_name: str,
    df: pd.DataFrame,
    key_suffix: str,
) -> None:
    save_path = st.text_input(
        "Save location",
        default,
        key=f"save_path_{base_key}_{selected_target_name}_{key_suffix}",
    )
    if st.button(
        "Save table as Excel",
        key=f"save_button_{base_key}_{selected_target_name}_{key_suffix}",
    ):
        destination = save_path.strip()
        if not destination:
            st.error("Please provide a file path to save the table.")
        else:
            buffer = BytesIO()
            with pd.ExcelWriter(buffer, engine=xl_writer.__name__) as writer:
                df.to_excel(writer, index=False, sheet_name="Problem Table")
            try:
                with open(destination, "wb") as out_file:
                    out_file.write(buffer.getvalue())
                st.success(f"Saved table to {destination}")
            except OSError as exc:
                st.error(f"Failed to save file: {exc}")                   


def _build_plotly_graph(graph: Mapping[str, object]) -> go.Figure:
    """Create a Plotly figure for the provided graph payload."""
    fig = go.Figure()
    legend_seen: Dict[str, bool] = {}
    for segment in graph.get("segments", []):
        traces, arrow_annotation = _segment_trace(segment, graph, legend_seen)
        for trace in traces:
            fig.add_trace(trace)
        if arrow_annotation is not None:
            fig.add_annotation(**arrow_annotation)
    _apply_default_layout(fig)
    return fig


def _segment_trace(
    segment: Mapping[str, object],
    graph: Mapping[str, object],
    legend_seen: Dict[str, bool],
) -> Tuple[List[go.Scatter], Optional[dict]]:
    x_vals, y_vals = _extract_segment_xy(segment)
    if not x_vals or not y_vals:
        return [], None
    title = segment.get("title") or graph.get("type") or "Segment"
    graph_type = graph.get("type")
    colour = _segment_colour(segment)
    legend_label, series_id, show = _legend_details(segment, title, legend_seen)
    arrow = segment.get("arrow")

    if graph_type in {"Site Utility Grand Composite Curve"} and _is_vertical_segment(x_vals):
        colour = _SEGMENT_COLOUR_MAP[LineColour.Other.value]

    if graph_type in {"Total Site Profiles", "Site Utility Grand Composite Curve"}:
        if arrow == ArrowHead.START.value:
            arrow = ArrowHead.END.value
        elif arrow == ArrowHead.END.value:
            arrow = ArrowHead.START.value
            
    line_trace = go.Scatter(
        x=x_vals,
        y=y_vals,
        mode="lines",
        name=legend_label,
        line=_line_style(segment, colour),
        hovertemplate=_hover_template(segment, title, legend_label),
        legendgroup=series_id,
        showlegend=show,
    )
    if arrow not in {ArrowHead.END.value, ArrowHead.START.value} or len(x_vals) < 2:
        return [line_trace], None

    tip_idx, ref_idx = _arrow_indices(x_vals, y_vals, arrow)
    dx = x_vals[tip_idx] - x_vals[ref_idx]
    dy = y_vals[tip_idx] - y_vals[ref_idx]
    length = math.hypot(dx, dy)
    if length == 0:
        return [line_trace], None
    ux, uy = dx / length, dy / length
    tail_offset = 0.2 * length
    arrow_annotation = {
        "x": x_vals[tip_idx],
        "y": y_vals[tip_idx],
        "xref": "x",
        "yref": "y",
        "ax": x_vals[tip_idx] - ux * tail_offset,
        "ay": y_vals[tip_idx] - uy * tail_offset,
        "axref": "x",
        "ayref": "y",
        "text": "",
        "showarrow": True,
        "arrowhead": 2,
        "arrowsize": 0.9,
        "arrowwidth": 1.8,
        "arrowcolor": colour,
    }
    return [line_trace], arrow_annotation


def _segment_colour(segment: Mapping[str, object]) -> str:
    if segment.get("is_vertical") and segment.get("is_utility_stream"):
        return _SEGMENT_COLOUR_MAP[LineColour.Black.value]
    colour_idx = segment.get("colour")
    return _SEGMENT_COLOUR_MAP.get(colour_idx, "#333333")


def _is_vertical_segment(x_vals: List[float], *, atol: float = 1e-9) -> bool:
    if len(x_vals) < 2:
        return False
    x0 = x_vals[0]
    return all(abs(x - x0) <= atol for x in x_vals[1:])


def _legend_details(
    segment: Mapping[str, object],
    title: str,
    legend_seen: Dict[str, bool],
) -> Tuple[str, str, bool]:
    series_label = segment.get("series")
    legend_label = str(series_label).strip() if series_label else _legend_group_name(title)
    series_id = str(segment.get("series_id") or legend_label)
    show = not legend_seen.get(series_id, False)
    legend_seen[series_id] = True
    return legend_label, series_id, show


def _arrow_indices(x_vals: List[float], y_vals: List[float], arrow: str) -> Tuple[int, int]:
    length = len(x_vals)
    if arrow == ArrowHead.START.value:
        tip_idx = 0
        candidates = range(1, length)
    else:
        tip_idx = length - 1
        candidates = range(length - 2, -1, -1)

    for idx in candidates:
        if x_vals[idx] != x_vals[tip_idx] or y_vals[idx] != y_vals[tip_idx]:
            return tip_idx, idx

    # Fallback to adjacent point (caller handles zero-length vectors)
    if arrow == ArrowHead.START.value:
        return 0, min(1, length - 1)
    return length - 1, max(length - 2, 0)


def _line_style(segment: Mapping[str, object], colour: str) -> dict:
    style = {"color": colour, "width": 2}
    if segment.get("is_vertical") and segment.get("is_utility_stream"):
        style["dash"] = "dash"
    return style


def _hover_template(segment: Mapping[str, object], title: str, legend_label: str) -> str:
    descriptor = segment.get("series_description") or legend_label or title
    return (
        f"{descriptor}<br>"
        "Heat Flow / kW: %{x}<br>"
        "Temperature / °C: %{y}<extra></extra>"
    )


def _apply_default_layout(fig: go.Figure) -> None:
    fig.update_layout(
        xaxis_title="Heat Flow / kW",
        yaxis_title="Temperature / \N{DEGREE SIGN}C",
        template="plotly_white",
        hovermode="closest",
        legend={
            "title": "Click to toggle",
            "orientation": "h",
            "yanchor": "bottom",
            "y": 1.06,
            "title_font": {"color": "#000000", "size": 13},
            "font": {"color": "#000000", "size": 12},
        },
        margin={"l": 50, "r": 28, "t": 64, "b": 48},
        paper_bgcolor="#ffffff",
        plot_bgcolor="#ffffff",
        font={"family": "IBM Plex Sans, Inter, system-ui, sans-serif", "size": 13, "color": "#000000"},
        hoverlabel={"bgcolor": "#ffffff", "font": {"color": "#000000"}},
    )
    fig.update_xaxes(
        rangemode="tozero",
        showgrid=True,
        gridcolor="rgba(148, 163, 184, 0.25)",
        zeroline=True,
        zerolinecolor="rgba(15, 23, 42, 0.8)",
        zerolinewidth=1.25,
        ticks="outside",
        tickcolor="#000000",
        showline=True,
        linecolor="#000000",
        tickfont={"color": "#000000"},
        title_font={"color": "#000000"},
    )
    fig.update_yaxes(
        rangemode="tozero",
        showgrid=True,
        gridcolor="rgba(148, 163, 184, 0.2)",
        zeroline=True,
        zerolinecolor="rgba(15, 23, 42, 0.8)",
        zerolinewidth=1.25,
        ticks="outside",
        tickcolor="#000000",
        showline=True,
        linecolor="#000000",
        tickfont={"color": "#000000"},
        title_font={"color": "#000000"},
    )


def _extract_segment_xy(segment: Mapping[str, object]) -> tuple[List[float], List[float]]:
    """Return x/y coordinate lists for a graph segment payload."""
    points = segment.get("data_points", []) or []
    x_vals = [point["x"] for point in points if "x" in point and "y" in point]
    y_vals = [point["y"] for point in points if "x" in point and "y" in point]
    return x_vals, y_vals


def _legend_group_name(title: str) -> str:
    """Return a legend label grouping sequential segments with incremented suffixes."""
    if not title:
        return "Segment"
    base, _, suffix = title.rpartition(" ")
    if suffix.isdigit() and base:
        return base
    return title


def _apply_dashboard_theme(st) -> None:
    st.markdown(
        """
        <style>
            :root {
                --op-bg: #f5f7fb;
                --op-card: #ffffff;
                --op-ink: #0f172a;
                --op-muted: #64748b;
                --op-border: rgba(148, 163, 184, 0.35);
                --op-accent: #0ea5a4;
                --op-accent-soft: rgba(14, 165, 164, 0.12);
                --op-select-text: #262730;
            }

            .stApp {
                background: linear-gradient(180deg, #f5f7fb 0%, #eef2f7 60%, #f8fafc 100%);
                color: var(--op-ink);
                font-family: "IBM Plex Sans", "Inter", system-ui, sans-serif;
            }

            section[data-testid="stSidebar"] {
                background-color: #0f172a;
                color: #f8fafc;
                border-right: 1px solid rgba(148, 163, 184, 0.2);
            }

            section[data-testid="stSidebar"] * {
                color: #e2e8f0;
            }

            section[data-testid="stSidebar"] label {
                color: #94a3b8 !important;
            }

            section[data-testid="stSidebar"] div[data-baseweb="select"] span {
                color: var(--op-select-text) !important;
            }

            section[data-testid="stSidebar"] div[data-baseweb="select"] input {
                color: var(--op-select-text) !important;
            }

            section[data-testid="stSidebar"] div[data-baseweb="select"] * {
                color: var(--op-select-text) !important;
            }

            section[data-testid="stSidebar"] hr {
                margin: 0.8rem 0;
            }

            div[data-baseweb="menu"] span {
                color: var(--op-select-text) !important;
            }

            .op-header {
                display: flex;
                align-items: flex-end;
                justify-content: space-between;
                padding: 0.5rem 0 1rem;
            }

            .op-title {
                font-size: 2rem;
                font-weight: 600;
                letter-spacing: -0.02em;
                color: var(--op-ink);
            }

            .op-subtitle {
                color: var(--op-muted);
                font-size: 0.95rem;
                margin-top: 0.2rem;
            }

            .op-metric-grid {
                display: grid;
                grid-template-columns: repeat(2, minmax(0, 1fr));
                gap: 0.45rem;
                margin-top: 0.35rem;
            }

            .op-metric {
                background: rgba(255, 255, 255, 0.08);
                border: 1px solid rgba(148, 163, 184, 0.2);
                border-radius: 12px;
                padding: 0.45rem 0.6rem;
            }

            .op-metric-label {
                font-size: 0.72rem;
                letter-spacing: 0.06em;
                text-transform: uppercase;
                color: #94a3b8;
                margin-bottom: 0.3rem;
            }

            .op-metric-value {
                font-size: 1.1rem;
                font-weight: 600;
            }

            .op-card-title {
                font-size: 1rem;
                font-weight: 600;
                color: var(--op-ink);
                margin-bottom: 0.3rem;
                padding-left: 0.1rem;
            }

            .op-utility-title {
                font-size: 0.72rem;
                letter-spacing: 0.06em;
                text-transform: uppercase;
                color: #94a3b8;
                margin-bottom: 0.45rem;
            }

            .op-utility-grid {
                display: grid;
                grid-template-columns: repeat(2, minmax(0, 1fr));
                gap: 0.6rem;
            }

            .op-utility-card {
                background: rgba(255, 255, 255, 0.08);
                border: 1px solid rgba(148, 163, 184, 0.2);
                border-radius: 12px;
                padding: 0.55rem 0.75rem;
            }

            .op-utility-name {
                font-size: 0.9rem;
                font-weight: 600;
                color: #e2e8f0;
            }

            .op-utility-value {
                font-size: 0.92rem;
                color: #cbd5f5;
            }

            .op-utility-empty {
                color: #94a3b8;
                text-align: center;
                font-size: 0.88rem;
            }

            div[data-testid="stPlotlyChart"] {
                background: var(--op-card);
                border: 1px solid var(--op-border);
                border-radius: 14px;
                padding: 0.75rem;
                box-shadow: 0 12px 24px rgba(15, 23, 42, 0.08);
                overflow: hidden;
            }

            div[data-testid="stPlotlyChart"] > div {
                width: 100% !important;
            }

            .stTabs [role="tab"] {
                font-weight: 600;
                letter-spacing: 0.01em;
                color: var(--op-muted);
            }

            .stTabs [role="tab"][aria-selected="true"] {
                color: var(--op-ink);
                border-bottom: 2px solid var(--op-accent);
            }

            .stBadge {
                background-color: var(--op-accent-soft) !important;
                color: var(--op-ink) !important;
                border: 1px solid rgba(14, 165, 164, 0.3);
            }

            div[data-testid="stDataFrame"] {
                background: var(--op-card);
                border: 1px solid var(--op-border);
                border-radius: 12px;
                padding: 0.4rem;
            }

            input, textarea {
                border-radius: 10px !important;
            }
        </style>
        """,
        unsafe_allow_html=True,
    )

"""Three Python-level aliasing / comparison pitfalls that silently change behaviour for some inputs only.

LIST-MULT      ``[Obj()] * n`` (or ``[[]] * n``) makes n references to ONE object: every "element" shows the state written last.
DEFAULT-ALIAS  ``x = param or []`` / ``x = param if param is not None else []`` defaults a missing argument, but when the argument IS
               given ``x`` is the caller's object - an in-place update of ``x`` afterwards (``x += ...``, ``x.append``, ``x[k] = ...``)
               rewrites the caller's data (a result that was already returned, a request that will be analysed again).
OR-DEFAULT     ``acc = acc or {}`` on a parameter that some caller passes in to be filled (the call's result is discarded): an EMPTY accumulator
               is falsy, so the callee fills a new object and the caller never sees it.
ENUM-FORM      ``text == SomeEnum.MEMBER`` is always False for a plain ``Enum`` (a member never equals its value); the branch it guards
               is dead for every input.  Reported only when the other operand is provably text: a string literal, a ``.value``
               attribute, or a field declared ``str`` on a resolved class.
"""
from __future__ import annotations

import ast
from typing import Dict, List, Optional, Set

from ..core.model import ClassInfo, FuncInfo, Program
from ..core.report import CheckContext, norm_stmt
from ..core.resolve import Resolver, body_nodes

_MUTATORS = {"append", "extend", "insert", "update", "pop", "clear", "sort", "reverse", "remove", "setdefault", "add", "discard", "popitem"}


def _fresh_literal(e: ast.AST) -> bool:
    return isinstance(e, (ast.List, ast.Dict, ast.Set)) or (isinstance(e, ast.Call) and isinstance(e.func, ast.Name) and e.func.id in ("list", "dict", "set") and not e.args)


def check_list_multiplication(ctx: CheckContext, p: Program, r: Resolver, funcs: List[FuncInfo], rule: str = "LIST-MULT") -> int:
    ctx.rule(rule, "no list of mutable objects is built by multiplying a one-element list ([Obj()] * n, [[]] * n): all n entries would be the same object")
    n = 0
    for f in funcs:
        if isinstance(f.node, ast.Lambda):
            continue
        for nd in body_nodes(f):
            if not (isinstance(nd, ast.BinOp) and isinstance(nd.op, ast.Mult)):
                continue
            for lst in (nd.left, nd.right):
                if isinstance(lst, ast.List) and len(lst.elts) == 1:
                    el = lst.elts[0]
                    n += 1
                    shared = None
                    if _fresh_literal(el):
                        shared = "a mutable container"
                    elif isinstance(el, ast.Call):
                        tg = r.resolve_call(f, el)
                        if any(isinstance(t, ClassInfo) for t in tg):
                            shared = f"one {next(t.name for t in tg if isinstance(t, ClassInfo))} instance"
                    ctx.ob(rule, f"{f.qualname}:{norm_stmt(nd)[:80]}", f"{f.module.relpath}:{nd.lineno}", shared is None,
                           "" if shared is None else f"`{ast.unparse(nd)[:80]}` repeats {shared}: every position of the list is the SAME object, so what is "
                                                     f"computed for one entry overwrites all the others")
    return n


def check_default_alias(ctx: CheckContext, p: Program, r: Resolver, funcs: List[FuncInfo], rule: str = "DEFAULT-ALIAS") -> int:
    ctx.rule(rule, "a local obtained by defaulting a parameter (`x = p or []`, `x = p if p is not None else []`) is not updated in place afterwards: "
                   "when the argument is given, x IS the caller's object")
    n = 0
    for f in funcs:
        if isinstance(f.node, ast.Lambda):
            continue
        params = {a.arg for a in f.params} - {"self", "cls"}
        aliases: Dict[str, str] = {}
        for nd in body_nodes(f):
            if isinstance(nd, ast.Assign) and len(nd.targets) == 1 and isinstance(nd.targets[0], ast.Name):
                v = nd.value
                src = None
                if isinstance(v, ast.BoolOp) and isinstance(v.op, ast.Or) and len(v.values) == 2 and isinstance(v.values[0], ast.Name) \
                        and v.values[0].id in params and _fresh_literal(v.values[1]):
                    src = v.values[0].id
                elif isinstance(v, ast.IfExp):
                    for a, b in ((v.body, v.orelse), (v.orelse, v.body)):
                        if isinstance(a, ast.Name) and a.id in params and _fresh_literal(b):
                            src = a.id
                if src is not None and nd.targets[0].id != src:
                    aliases[nd.targets[0].id] = src
        if not aliases:
            continue
        for nd in body_nodes(f):
            hit = None
            if isinstance(nd, ast.AugAssign) and isinstance(nd.target, ast.Name) and nd.target.id in aliases and isinstance(nd.op, (ast.Add, ast.BitOr)):
                hit = (nd.target.id, "+=" if isinstance(nd.op, ast.Add) else "|=")
            elif isinstance(nd, ast.Call) and isinstance(nd.func, ast.Attribute) and nd.func.attr in _MUTATORS and isinstance(nd.func.value, ast.Name) \
                    and nd.func.value.id in aliases:
                hit = (nd.func.value.id, "." + nd.func.attr + "()")
            elif isinstance(nd, (ast.Assign, ast.AugAssign)):
                for t in (nd.targets if isinstance(nd, ast.Assign) else [nd.target]):
                    if isinstance(t, ast.Subscript) and isinstance(t.value, ast.Name) and t.value.id in aliases:
                        hit = (t.value.id, "[...] =")
            if hit is None:
                continue
            n += 1
            x, how = hit
            ctx.ob(rule, f"{f.qualname}:{x}:{how}", f"{f.module.relpath}:{nd.lineno}", False,
                   f"`{x}` is `{aliases[x]}` itself whenever the caller passes that argument, and `{ast.unparse(nd)[:60]}` updates it in place: {f.name} "
                   f"rewrites the caller's '{aliases[x]}' (e.g. a list inside a result that was already returned)")
    return n


def check_or_default_accumulator(ctx: CheckContext, p: Program, r: Resolver, funcs: List[FuncInfo], rule: str = "OR-DEFAULT") -> int:
    ctx.rule(rule, "a container parameter that callers pass in to be FILLED (a call whose result is discarded) is not defaulted by truthiness (`acc = acc or {}`): "
                   "an empty accumulator is falsy, the callee fills a new object and the caller's stays empty")
    n = 0
    for f in funcs:
        if isinstance(f.node, ast.Lambda):
            continue
        params = [a.arg for a in f.params]
        for nd in body_nodes(f):
            if not (isinstance(nd, ast.Assign) and len(nd.targets) == 1 and isinstance(nd.targets[0], ast.Name) and isinstance(nd.value, ast.BoolOp)
                    and isinstance(nd.value.op, ast.Or) and len(nd.value.values) == 2 and isinstance(nd.value.values[0], ast.Name)
                    and nd.value.values[0].id in params and _fresh_literal(nd.value.values[1])):
                continue
            prm, loc = nd.value.values[0].id, nd.targets[0].id
            fills = any((isinstance(x, ast.Call) and isinstance(x.func, ast.Attribute) and x.func.attr in _MUTATORS and isinstance(x.func.value, ast.Name)
                         and x.func.value.id == loc)
                        or (isinstance(x, (ast.Assign, ast.AugAssign)) and any(isinstance(t, ast.Subscript) and isinstance(t.value, ast.Name) and t.value.id == loc
                                                                                 for t in (x.targets if isinstance(x, ast.Assign) else [x.target])))
                        for x in body_nodes(f))
            if not fills:
                continue
            # call sites that hand an accumulator in and discard the result
            sites = []
            pos = f.pos_params.index(prm) if prm in f.pos_params else None
            off = 1 if (f.cls is not None and f.parent is None and not f.is_static) else 0
            for g in p.all_funcs:
                if isinstance(g.node, ast.Lambda):
                    continue
                for st in body_nodes(g):
                    if isinstance(st, ast.Expr) and isinstance(st.value, ast.Call) and f in r.resolve_call(g, st.value):
                        c = st.value
                        given = any(k.arg == prm for k in c.keywords) or (pos is not None and pos - off < len(c.args) and pos - off >= 0)
                        if given:
                            sites.append((g, c))
            n += 1
            ok = not sites
            ctx.ob(rule, f"{f.qualname}:{prm}", f"{f.module.relpath}:{nd.lineno}", ok,
                   "" if ok else f"`{ast.unparse(nd)}` replaces an EMPTY '{prm}' by a new object, but {sites[0][0].name} (line {sites[0][1].lineno}) passes its own accumulator and "
                                 f"discards the result: whatever {f.name} adds while the accumulator is still empty is lost to the caller")
    return n


def _is_plain_enum(r: Resolver, ci: ClassInfo) -> bool:
    bases = [b.split(".")[-1] for b in r.ext_bases(ci)]
    return any(b in ("Enum", "Flag") for b in bases) and not any(b in ("str", "int", "StrEnum", "IntEnum") for b in bases)


def _provably_text(r: Resolver, f: FuncInfo, e: ast.AST) -> Optional[str]:
    if isinstance(e, ast.Constant) and isinstance(e.value, str):
        return "a string literal"
    if isinstance(e, ast.JoinedStr):
        return "an f-string"
    if isinstance(e, ast.Attribute) and e.attr == "value":
        b = r.resolve_static(f, f.module, e.value) if isinstance(e.value, (ast.Name, ast.Attribute)) else None
        if b is not None and b.kind == "classattr":
            return "the value of an enumeration member"
    if isinstance(e, ast.Attribute):
        t = r.type_of(f, e.value)
        if t is not None:
            for c in r.mro(t):
                ann = c.class_attr_ann.get(e.attr)
                if ann is not None:
                    txt = ast.unparse(ann).replace(" ", "")
                    if txt in ("str", "Optional[str]", "str|None"):
                        return f"the field {c.name}.{e.attr}, declared `{txt}`"
                    # pydantic: model_config = ConfigDict(use_enum_values=True) stores the VALUE of an Enum-annotated field
                    cfg = c.class_attrs.get("model_config")
                    if cfg is not None and any(isinstance(k, ast.keyword) and k.arg == "use_enum_values" and isinstance(k.value, ast.Constant) and k.value.value is True
                                               for k in ast.walk(cfg)):
                        ab = r.resolve_static(f, c.module, ann) if isinstance(ann, (ast.Name, ast.Attribute)) else None
                        if ab is not None and ab.kind == "class" and _is_plain_enum(r, ab.target):
                            vals = [v.value for v in ab.target.class_attrs.values() if isinstance(v, ast.Constant)]
                            if vals and all(isinstance(v, str) for v in vals):
                                return f"the field {c.name}.{e.attr} (the model is configured with use_enum_values=True, so it holds the member's text)"
                    return None
    return None


def check_enum_form(ctx: CheckContext, p: Program, r: Resolver, funcs: List[FuncInfo], rule: str = "ENUM-FORM") -> int:
    ctx.rule(rule, "a plain Enum member is never compared (==, !=, in) with something that is provably text: such a comparison has one outcome for every input")
    n = 0
    for f in funcs:
        if isinstance(f.node, ast.Lambda):
            continue
        for nd in body_nodes(f):
            if not (isinstance(nd, ast.Compare) and len(nd.ops) == 1 and isinstance(nd.ops[0], (ast.Eq, ast.NotEq))):
                continue
            sides = [nd.left, nd.comparators[0]]
            for a, b in ((sides[0], sides[1]), (sides[1], sides[0])):
                if not isinstance(a, ast.Attribute):
                    continue
                bd = r.resolve_static(f, f.module, a)
                if bd is None or bd.kind != "classattr" or not isinstance(bd.target[0], ClassInfo) or not _is_plain_enum(r, bd.target[0]):
                    continue
                n += 1
                why = _provably_text(r, f, b)
                ctx.ob(rule, f"{f.qualname}:{norm_stmt(nd)[:80]}", f"{f.module.relpath}:{nd.lineno}", why is None,
                       "" if why is None else f"`{ast.unparse(nd)[:80]}` compares {why} with the member {bd.target[0].name}.{bd.target[1]} of a plain Enum: "
                                              f"a member never equals its value, so the test is {'False' if isinstance(nd.ops[0], ast.Eq) else 'True'} for every input "
                                              f"(use .value)")
                break
    return n


def check_all(ctx: CheckContext, p: Program, r: Resolver, funcs: List[FuncInfo]) -> int:
    return check_list_multiplication(ctx, p, r, funcs) + check_default_alias(ctx, p, r, funcs) + check_enum_form(ctx, p, r, funcs) \
        + check_or_default_accumulator(ctx, p, r, funcs)

"""C04 (part) - structural necessary conditions of 'utility profiles are feasible and lowest-grade-first':
the per-side segment handed to the allocator cannot wrap around (WRAP), every duty the allocator assigns is booked and the early exit tests
that total (PAIR-1), utilities enter the allocation with zero duty (SEED) and the default-utility decision filters like the list builder
(DEFAULT-FILTER), and the pocket-free curve the allocator works on is built with coherent row indices / views (INVAL)."""
from ..core.model import Program
from ..core.report import CheckContext
from ..core.resolve import Resolver
from ..rules import bookkeeping as bk, inval
from .common import run_control, generic_rules


def _funcs(p, mods):
    return [f for f in p.all_funcs if f.module.name in mods]


def analyse(ctx: CheckContext, p: Program):
    r = Resolver(p)
    ctx.guard(generic_rules, ctx, p, r, "C04", extra_modules=("OpenPinch/analysis/gcc_manipulation.py", "OpenPinch/analysis/data_preparation.py"))
    ctx.guard(bk.check_wrap, ctx, p, r, _funcs(p, ("OpenPinch.analysis.utility_targeting", "OpenPinch.analysis.gcc_manipulation")))
    ctx.guard(bk.check_assignment_booking, ctx, p, r)
    ctx.guard(inval.check_between_pinches, ctx, p, r)
    ctx.guard(bk.check_default_filter, ctx, p, r)
    ctx.guard(bk.check_zero_seeded_utilities, ctx, p, r)
    eng = inval.InvalEngine(p, r)
    funcs = _funcs(p, ("OpenPinch.analysis.gcc_manipulation", "OpenPinch.analysis.utility_targeting"))
    ctx.guard(inval.check_views, ctx, eng, funcs)
    ctx.guard(inval.check_indices, ctx, eng, funcs)
    ctx.guard(inval.check_stale_derived, ctx, eng, funcs)
    ctx.guard(inval.check_source_column_readonly, ctx, eng)
    ctx.guard(inval.check_count_guard, ctx, eng, funcs)


def run(ctx: CheckContext):
    p = Program()
    analyse(ctx, p)
    ctx.floor("WRAP", 2)
    ctx.floor("PAIR-1", 3)
    ctx.floor("INVAL-I1", 2)
    ctx.assumptions += [
        "decides bookkeeping necessary conditions only: whether the utility GCC stays between zero and the pocket-free GCC, the slope- and supply-limited duty bounds, "
        "the utility ordering and the optimality of each duty are inequalities over computed arrays and NOT decided",
    ]
    ut = "OpenPinch/analysis/utility_targeting.py"
    g = "OpenPinch/analysis/gcc_manipulation.py"
    run_control(ctx, "C04/cold-window-wraps", analyse, p.root, ut, "start_row = max(pinch_row - 1, 0)", "start_row = pinch_row - 1", "WRAP")
    run_control(ctx, "C04/duty-not-booked", analyse, p.root, ut, "            u.set_heat_flow(Q_ut_max)\n            Q_assigned += Q_ut_max\n", "            u.set_heat_flow(Q_ut_max)\n", "PAIR-1")
    run_control(ctx, "C04/utility-duty-preseeded", analyse, p.root, "OpenPinch/analysis/data_preparation.py",
                "                dt_cont=selected.dt_cont,\n                htc=selected.htc,", "                dt_cont=selected.dt_cont,\n                heat_flow=get_value(selected.heat_flow),\n                htc=selected.htc,", "SEED")
    run_control(ctx, "C04/stale-pinch-copy", analyse, p.root, g,
                "                    cold_pinch_loc += n_int_added\n                    pinch_loc += n_int_added\n", "                    cold_pinch_loc += n_int_added\n", "INVAL-I3")

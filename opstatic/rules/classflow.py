"""Class-local rules: MEMO (cache/invalidation coherence), WHO (who may store into a field),
DERIVED (derived attributes refreshed by every base setter), helpers for self-field access."""
from __future__ import annotations

import ast
from dataclasses import dataclass, field
from typing import Dict, List, Optional, Set, Tuple

from ..core.flow import Flow
from ..core.model import AnalysisError, ClassInfo, FuncInfo, Program
from ..core.report import CheckContext, norm_stmt
from ..core.resolve import Resolver, body_nodes

MUTATING_METHODS = {"append", "extend", "update", "add", "setdefault", "pop", "popitem", "remove", "clear", "insert",
                    "discard", "sort", "reverse", "add_many", "replace", "__setitem__", "__delitem__"}


def self_name(fi: FuncInfo) -> Optional[str]:
    f = fi
    while f.parent is not None:
        f = f.parent
    if f.cls is None or f.is_static or f.is_classmethod or not f.pos_params:
        return None
    return f.pos_params[0]


def self_attr(node: ast.AST, me: str) -> Optional[str]:
    if isinstance(node, ast.Attribute) and isinstance(node.value, ast.Name) and node.value.id == me:
        return node.attr
    return None


def fields_read(expr: ast.AST, me: str) -> Set[str]:
    out = set()
    for n in ast.walk(expr):
        a = self_attr(n, me)
        if a is not None and isinstance(n.ctx, ast.Load):
            out.add(a)
    return out


def field_writes_in_stmt(st: ast.AST, me: str) -> List[Tuple[str, str, ast.AST]]:
    """(field, how, node) for direct writes to self.<field> performed by a simple statement.
    how: assign | augassign | subscript-store | delete | mutating-call"""
    out = []
    def targets(t):
        if isinstance(t, (ast.Tuple, ast.List)):
            for e in t.elts:
                yield from targets(e)
        else:
            yield t
    if isinstance(st, ast.Assign):
        for t0 in st.targets:
            for t in targets(t0):
                a = self_attr(t, me)
                if a is not None:
                    out.append((a, "assign", st))
                elif isinstance(t, ast.Subscript):
                    a = self_attr(t.value, me)
                    if a is not None:
                        out.append((a, "subscript-store", st))
    elif isinstance(st, ast.AnnAssign) and st.value is not None:
        a = self_attr(st.target, me)
        if a is not None:
            out.append((a, "assign", st))
    elif isinstance(st, ast.AugAssign):
        a = self_attr(st.target, me)
        if a is not None:
            out.append((a, "augassign", st))
        elif isinstance(st.target, ast.Subscript):
            a = self_attr(st.target.value, me)
            if a is not None:
                out.append((a, "subscript-store", st))
    elif isinstance(st, ast.Delete):
        for t in st.targets:
            if isinstance(t, ast.Subscript):
                a = self_attr(t.value, me)
                if a is not None:
                    out.append((a, "delete", st))
            else:
                a = self_attr(t, me)
                if a is not None:
                    out.append((a, "delete", st))
    for n in ast.walk(st):
        if isinstance(n, (ast.FunctionDef, ast.AsyncFunctionDef, ast.ClassDef)):
            continue
        if isinstance(n, ast.Call) and isinstance(n.func, ast.Attribute) and n.func.attr in MUTATING_METHODS:
            a = self_attr(n.func.value, me)
            if a is not None:
                out.append((a, "mutating-call", n))
    return out


def simple_stmt_exprs(st: ast.stmt):
    """Nodes evaluated by a simple statement (not descending into nested defs)."""
    stack = [st]
    while stack:
        n = stack.pop()
        if isinstance(n, (ast.FunctionDef, ast.AsyncFunctionDef, ast.ClassDef)) and n is not st:
            continue
        yield n
        stack.extend(ast.iter_child_nodes(n))


def self_calls_in(node: ast.AST, me: str) -> List[Tuple[str, ast.Call]]:
    out = []
    for n in ast.walk(node):
        if isinstance(n, ast.Call) and isinstance(n.func, ast.Attribute) and isinstance(n.func.value, ast.Name) and n.func.value.id == me:
            out.append((n.func.attr, n))
    return out


# =========================================================================================
# MEMO
# =========================================================================================
@dataclass
class MemoPattern:
    cls: ClassInfo
    kind: str                 # 'dirty-flag' | 'none-guard'
    method: FuncInfo          # M: the (re)compute method
    flag: Optional[str]       # dirty flag field (dirty-flag kind)
    caches: List[str]
    sources: Set[str]         # S: fields the cache is computed from
    guard_if: ast.If = None


def _dirty_flag_of(test: ast.AST, me: str) -> Optional[str]:
    """`self.<flag>` or `self.<flag> or <size heuristics>`: extra disjuncts that only compare lengths can trigger additional recomputations but
    can never stand in for the flag (an in-place replacement keeps every length), so the flag remains the invalidation mechanism that M1 checks"""
    a = self_attr(test, me)
    if a is not None:
        return a
    if isinstance(test, ast.BoolOp) and isinstance(test.op, ast.Or) and test.values:
        flag = self_attr(test.values[0], me)
        if flag is None:
            return None

        def is_len(e):
            return isinstance(e, ast.Call) and isinstance(e.func, ast.Name) and e.func.id == "len"
        for v in test.values[1:]:
            if not (isinstance(v, ast.Compare) and len(v.ops) == 1 and is_len(v.left) and is_len(v.comparators[0])):
                return None
        return flag
    return None


def find_dirty_flag_memo(r: Resolver, ci: ClassInfo) -> List[MemoPattern]:
    out = []
    for nm, f in ci.methods.items():
        me = self_name(f)
        if me is None:
            continue
        for st in f.node.body:
            if isinstance(st, ast.If) and _dirty_flag_of(st.test, me) is not None and not st.orelse:
                flag = _dirty_flag_of(st.test, me)
                caches, srcs, clears = [], set(), False
                for s2 in st.body:
                    if isinstance(s2, ast.Assign) and len(s2.targets) == 1:
                        a = self_attr(s2.targets[0], me)
                        if a == flag and isinstance(s2.value, ast.Constant) and s2.value.value is False:
                            clears = True
                        elif a is not None:
                            caches.append(a)
                            srcs |= fields_read(s2.value, me)
                if clears and caches and srcs:
                    out.append(MemoPattern(ci, "dirty-flag", f, flag, caches, srcs - set(caches) - {flag}, st))
        # guard-clause spelling:  if not self.<flag>: return ; <recompute> ; self.<flag> = False
        body = [x for x in f.node.body if not (isinstance(x, ast.Expr) and isinstance(x.value, ast.Constant))]
        if body and isinstance(body[0], ast.If) and not body[0].orelse and isinstance(body[0].test, ast.UnaryOp) and isinstance(body[0].test.op, ast.Not) \
                and self_attr(body[0].test.operand, me) is not None and len(body[0].body) == 1 and isinstance(body[0].body[0], ast.Return) and body[0].body[0].value is None:
            flag = self_attr(body[0].test.operand, me)
            caches, srcs, clears = [], set(), False
            for s2 in body[1:]:
                if isinstance(s2, ast.Assign) and len(s2.targets) == 1:
                    a = self_attr(s2.targets[0], me)
                    if a == flag and isinstance(s2.value, ast.Constant) and s2.value.value is False:
                        clears = True
                    elif a is not None:
                        caches.append(a)
                        srcs |= fields_read(s2.value, me)
            if clears and caches and srcs and not any(pp.method is f for pp in out):
                out.append(MemoPattern(ci, "dirty-flag", f, flag, caches, srcs - set(caches) - {flag}, body[0]))
    return out


def find_none_guard_memo(r: Resolver, ci: ClassInfo) -> List[MemoPattern]:
    """Two spellings of a None-guarded memo in a method M:
         if self.<cache> is None:  self.<cache>[, ...] = <expr reading fields S>
         if self.<cache> is not None: return ... ;  ... ; self.<cache>[, ...] = <expr reading fields S>
    The source fields S are those read by the computing expression (through local variables)."""
    out = []

    def none_test(t: ast.AST, me: str):
        if isinstance(t, ast.Compare) and len(t.ops) == 1 and isinstance(t.comparators[0], ast.Constant) and t.comparators[0].value is None:
            c0 = self_attr(t.left, me)
            if c0 is not None and isinstance(t.ops[0], ast.Is):
                return c0, True
            if c0 is not None and isinstance(t.ops[0], ast.IsNot):
                return c0, False
        return None

    def assigns_in(stmts, me: str, f: FuncInfo):
        caches, srcs = [], set()
        local_src: Dict[str, Set[str]] = {}
        for s2 in stmts:
            if isinstance(s2, ast.Assign):
                reads = fields_read(s2.value, me)
                for n in ast.walk(s2.value):
                    if isinstance(n, ast.Name) and n.id in local_src:
                        reads |= local_src[n.id]
                hit = False
                for t in s2.targets:
                    for t1 in (t.elts if isinstance(t, (ast.Tuple, ast.List)) else [t]):
                        a = self_attr(t1, me)
                        if a is not None:
                            caches.append(a)
                            hit = True
                        elif isinstance(t1, ast.Name):
                            local_src[t1.id] = set(reads)
                if hit:
                    srcs |= reads
        return caches, srcs

    for nm, f in ci.methods.items():
        me = self_name(f)
        if me is None or nm == "__init__":
            continue
        body = f.node.body
        for i, st in enumerate(body):
            if not isinstance(st, ast.If):
                continue
            nt = none_test(st.test, me)
            if nt is None:
                continue
            c0, is_none = nt
            if is_none and not st.orelse:
                caches, srcs = assigns_in(st.body, me, f)
            elif (not is_none) and st.body and isinstance(st.body[-1], ast.Return) and not st.orelse:
                caches, srcs = assigns_in(body[i + 1:], me, f)
            else:
                continue
            if c0 in caches and srcs - set(caches):
                out.append(MemoPattern(ci, "none-guard", f, c0, caches, srcs - set(caches), st))
    return out


class _MemoFlow(Flow):
    """State: (written: may have written a source field, invalid: cache certainly invalid,
    fresh: cache certainly freshly recomputed with no source write since)."""

    def __init__(self, pat: MemoPattern, fi: FuncInfo, me: str, summaries: Dict[str, dict], exempt_receivers: Set[str] = frozenset()):
        self.pat, self.fi, self.me, self.summ = pat, fi, me, summaries
        self.exits: List[Tuple[str, Optional[ast.AST], tuple]] = []
        self.stale_reads: List[ast.AST] = []

    def copy(self, s):
        return s

    def join(self, a, b):
        # powerset domain over (written, invalid, fresh): keeps "written implies invalid" across
        # loops that may run zero times
        return a | b

    def _apply(self, node: ast.AST, S):
        out = set()
        for s in S:
            out |= self._apply1(node, s)
        return frozenset(out)

    def _apply1(self, node: ast.AST, s):
        written, invalid, fresh = s
        me, pat = self.me, self.pat
        # evaluation order approximated: reads first, then calls, then stores
        for n in simple_stmt_exprs(node) if isinstance(node, ast.stmt) else ast.walk(node):
            a = self_attr(n, me)
            if a is not None and a in pat.caches and isinstance(n.ctx, ast.Load) and self.fi is not pat.method:
                if pat.kind == "dirty-flag" and not fresh and all(n is not x for x in self.stale_reads):
                    self.stale_reads.append(n)
        alts = [(written, invalid, fresh)]
        for (callee, call) in self_calls_in(node, me):
            sm = self.summ.get(callee)
            nxt = []
            for (w, i, fr) in alts:
                if callee == pat.method.name:
                    nxt.append((w, False, True))
                elif sm is not None:
                    if sm["kills"]:
                        i = False
                    if sm["recomputes"]:
                        fr = True
                    if sm["invalidates"]:
                        i, fr = True, False
                    if sm["writes"]:
                        # callee may or may not write; when it writes, does it leave the cache invalid?
                        if not sm["sets_invalid"]:
                            nxt.append((w, i, fr))                      # path on which it did not write
                        nxt.append((True, True if (sm["sets_invalid_if_written"] or sm["invalidates"]) else i, False))
                    else:
                        nxt.append((w, i, fr))
                else:
                    nxt.append((w, i, fr))
            alts = nxt
        results = set()
        for (written, invalid, fresh) in alts:
            results.add(self._stores(node, (written, invalid, fresh)))
        return results

    def _stores(self, node, s):
        written, invalid, fresh = s
        me, pat = self.me, self.pat
        if True:
            for (fld, how, n) in field_writes_in_stmt(node, me):
                if fld in pat.sources:
                    written, fresh = True, False
                if pat.kind == "dirty-flag" and fld == pat.flag and how == "assign":
                    v = n.value if isinstance(n, (ast.Assign, ast.AnnAssign)) else None
                    if isinstance(v, ast.Constant) and v.value is True:
                        invalid, fresh = True, False
                    else:
                        invalid = False
                if pat.kind == "none-guard" and fld == pat.flag and how == "assign":
                    v = n.value if isinstance(n, (ast.Assign, ast.AnnAssign)) else None
                    if isinstance(v, ast.Constant) and v.value is None:
                        invalid, fresh = True, False
                    else:
                        invalid = False
                elif pat.kind == "dirty-flag" and fld in pat.caches and how == "assign":
                    invalid = False
        return (written, invalid, fresh)

    def transfer(self, st, s):
        if isinstance(st, (ast.FunctionDef, ast.AsyncFunctionDef, ast.ClassDef)):
            return s
        return self._apply(st, s)

    def branch(self, test, s):
        s = self._apply(test, s)
        return s, s

    def bind_loop_target(self, node, s):
        return self._apply(node.iter, s)

    def enter_with(self, item, s):
        return self._apply(item.context_expr, s)

    def on_exit(self, kind, node, s):
        self.exits.append((kind, node, s))


def _memo_summaries(pat: MemoPattern, r: Resolver) -> Dict[str, dict]:
    ci = pat.cls
    methods = dict(ci.methods)
    methods.update({f"{k}.setter": v for k, v in ci.setters.items()})
    summ = {nm: {"writes": False, "kills": False, "recomputes": False, "sets_invalid": False, "sets_invalid_if_written": True, "invalidates": False}
            for nm in ci.methods}
    for _ in range(6):
        changed = False
        for nm, f in ci.methods.items():
            me = self_name(f)
            if me is None or f is pat.method:
                continue
            fl = _MemoFlow(pat, f, me, summ)
            fl.run(f.node, frozenset([(False, False, False)]))
            normal = [s for k, _, S in fl.exits if k != "raise" for s in S]
            new = {
                "writes": any(s[0] for s in normal),
                "kills": any(True for _ in [1] if _calls_method(f, me, pat.method.name, summ, "kills")),
                "recomputes": bool(normal) and all(s[2] for s in normal),
                "sets_invalid": bool(normal) and all(s[1] for s in normal if s[0]) and any(s[0] for s in normal)
                                and all(s[0] for s in normal),
                "sets_invalid_if_written": bool(normal) and all(s[1] for s in normal if s[0]),
                # pure invalidator helper: every normal exit leaves the cache invalid, whatever it was on entry
                "invalidates": bool(normal) and all(s[1] for s in normal),
            }
            if new != summ[nm]:
                summ[nm] = new
                changed = True
        if not changed:
            break
    return summ


def _calls_method(f: FuncInfo, me: str, mname: str, summ, key) -> bool:
    for n in body_nodes(f):
        if isinstance(n, ast.Call) and isinstance(n.func, ast.Attribute) and isinstance(n.func.value, ast.Name) and n.func.value.id == me:
            if n.func.attr == mname or summ.get(n.func.attr, {}).get(key):
                return True
    return False


def check_memo(ctx: CheckContext, r: Resolver, pat: MemoPattern, rule: str):
    ci = pat.cls
    summ = _memo_summaries(pat, r)
    all_methods = list(ci.methods.items()) + [(f"{k}.setter", v) for k, v in ci.setters.items()]
    for nm, f in all_methods:
        me = self_name(f)
        if me is None or f is pat.method:
            continue
        if nm == "__init__":
            continue   # the cache is initialised here
        public = not nm.startswith("_") or (nm.startswith("__") and nm.endswith("__")) or nm.endswith(".setter")
        fl = _MemoFlow(pat, f, me, summ)
        fl.run(f.node, frozenset([(False, False, False)]))
        for kind, node, S in fl.exits:
            if kind == "raise" or not any(s[0] for s in S) or not public:
                # private helpers are judged through the public methods that call them (method summaries)
                continue
            ok = all(s[1] for s in S if s[0])
            where = f"line {node.lineno}" if node is not None else "end of function"
            ctx.ob(rule + "-M1", f"{f.qualname}:exit@{norm_stmt(node) if node is not None else 'fallthrough'}",
                   f"{f.module.relpath}:{(node.lineno if node is not None else f.node.end_lineno)}", ok,
                   "" if ok else f"{ci.name}.{nm} writes a field the cache '{', '.join(pat.caches)}' is computed from "
                                 f"({', '.join(sorted(pat.sources))}) and can return ({where}) without invalidating the cache",
                   memo=f"{ci.name}.{pat.method.name} [{pat.kind}]")
        for n in fl.stale_reads:
            ctx.ob(rule + "-M2", f"{f.qualname}:read {norm_stmt(n)}@{_enclosing_stmt_text(f, n)}", f"{f.module.relpath}:{n.lineno}", False,
                   f"{ci.name}.{nm} reads the cache '{n.attr}' without a dominating call of {pat.method.name}() since the last member write")
        if pat.kind == "dirty-flag":
            reads = [n for n in body_nodes(f) if self_attr(n, me) in pat.caches and isinstance(n.ctx, ast.Load)]
            stale_ids = {id(x) for x in fl.stale_reads}
            for n in reads:
                if id(n) not in stale_ids:
                    ctx.ob(rule + "-M2", f"{f.qualname}:read {norm_stmt(n)}@{_enclosing_stmt_text(f, n)}", f"{f.module.relpath}:{n.lineno}", True)


def _enclosing_stmt_text(f: FuncInfo, node: ast.AST) -> str:
    best = None
    for st in body_nodes(f):
        if isinstance(st, ast.stmt) and any(x is node for x in ast.walk(st)):
            if best is None or (st.end_lineno - st.lineno) <= (best.end_lineno - best.lineno):
                best = st
    if best is None:
        return "?"
    if isinstance(best, (ast.If, ast.For, ast.While, ast.With, ast.Try)):
        return norm_stmt(ast.unparse(best).split("\n")[0])
    return norm_stmt(best)


def check_dead_config_fields(ctx: CheckContext, r: Resolver, ci: ClassInfo, pat: MemoPattern, rule: str):
    """Every private field that a public mutator writes must be read somewhere in the class
    (a sort-key/reverse setting that nothing consults cannot influence iteration order)."""
    read_anywhere: Set[str] = set()
    for f in list(ci.methods.values()) + list(ci.setters.values()):
        me = self_name(f)
        if me is None:
            continue
        for n in body_nodes(f):
            a = self_attr(n, me)
            if a is not None and isinstance(n.ctx, ast.Load):
                read_anywhere.add(a)
    for nm, f in ci.methods.items():
        if nm.startswith("_"):
            continue
        me = self_name(f)
        if me is None:
            continue
        for st in body_nodes(f):
            if not isinstance(st, ast.stmt):
                continue
            for (fld, how, n) in field_writes_in_stmt(st, me):
                if how == "assign" and fld.startswith("_"):
                    ok = fld in read_anywhere
                    ctx.ob(rule, f"{f.qualname}:{fld}", f"{f.module.relpath}:{st.lineno}", ok,
                           "" if ok else f"{ci.name}.{nm} stores self.{fld} but nothing in the class ever reads it")


# =========================================================================================
# WHO - only the renaming insert may store into the member map
# =========================================================================================
def check_who_member_map(ctx: CheckContext, r: Resolver, ci: ClassInfo, member_map: str, rule: str = "WHO"):
    ctx.rule(rule, f"only a store dominated by the key-clash renaming loop may write {ci.name}.{member_map}[...]; "
                   "other methods must insert through it with overwrite prevention on; insertion paths never delete members")
    inserter: Optional[FuncInfo] = None
    storers: Dict[str, int] = {}
    for nm, f in list(ci.methods.items()) + list(ci.setters.items()):
        me = self_name(f)
        if me is None:
            continue
        for st in body_nodes(f):
            if not isinstance(st, ast.stmt):
                continue
            for (fld, how, n) in field_writes_in_stmt(st, me):
                if fld != member_map:
                    continue
                key = f"{f.qualname}:{norm_stmt(st)}"
                loc = f"{f.module.relpath}:{st.lineno}"
                if how == "subscript-store":
                    tgt = st.targets[0] if isinstance(st, ast.Assign) else None
                    kname = tgt.slice.id if isinstance(tgt, ast.Subscript) and isinstance(tgt.slice, ast.Name) else None
                    rebinds = any(isinstance(a, ast.Assign) and any(isinstance(t2, ast.Name) and t2.id == kname for t2 in a.targets) for a in body_nodes(f))
                    if nm.startswith("_") and not nm.startswith("__") and kname in f.pos_params[1:] and not rebinds:
                        # a private "store this key" helper: the obligation sits at its call sites
                        storers[nm] = f.pos_params.index(kname) - 1
                        continue
                    ok, why = _store_guarded_by_clash_loop(f, me, member_map, st)
                    if ok or ok is None:
                        inserter = f
                    if ok is None:
                        ctx.info.setdefault("who_undecided", []).append(f"{loc}: {why}")
                        continue
                    ctx.ob(rule, key, loc, ok, "" if ok else f"{ci.name}.{nm} stores into the member map directly: {why}")
                elif how == "assign":
                    v = st.value if isinstance(st, (ast.Assign, ast.AnnAssign)) else None
                    ok = isinstance(v, ast.Dict) and not v.keys
                    ctx.ob(rule, key, loc, ok, "" if ok else f"{ci.name}.{nm} rebinds the member map to a non-empty value, bypassing the renaming insert")
                elif how == "mutating-call":
                    meth = n.func.attr
                    ok = meth not in ("update", "setdefault", "__setitem__")
                    ctx.ob(rule, key, loc, ok, "" if ok else f"{ci.name}.{nm} writes the member map with .{meth}(), bypassing the renaming insert")
    if storers:
        fresh = _fresh_key_methods(ci, member_map)
        for nm, f in ci.methods.items():
            me = self_name(f)
            if me is None or nm in storers:
                continue
            if not any(isinstance(c, ast.Call) and isinstance(c.func, ast.Attribute) and c.func.attr in storers for c in body_nodes(f)):
                continue
            flags = {a for a in f.pos_params + f.kwonly_params if isinstance(f.default_of(a), ast.Constant) and f.default_of(a).value is True}
            fl = _KeyFlow(f, me, member_map, fresh, flags, storers)
            fl.run(f.node, {})
            for site, ok, k in fl.stores:
                if not isinstance(site, ast.Call):
                    continue
                if ok is None:
                    ctx.info.setdefault("who_undecided", []).append(f"{f.qualname}: key '{k}' handed to a storing helper is computed by an uninterpreted helper")
                    inserter = inserter or f
                    continue
                if ok:
                    inserter = f
                ctx.ob(rule, f"{f.qualname}:{norm_stmt(site)}", f"{f.module.relpath}:{site.lineno}", bool(ok),
                       "" if ok else f"{ci.name}.{nm} hands key '{k}' to the storing helper {site.func.attr}() without proving it absent from self.{member_map} "
                                     f"(no renaming loop or unique-key helper precedes the call): an existing member with that key is overwritten")
    if inserter is None:
        raise AnalysisError(f"{ci.name}: no insert method with a key-clash renaming loop found (anchor vanished)")
    # the insert really inserts: no early return that is decided by looking at the members already stored
    me_i = self_name(inserter)
    store_lines = [st.lineno for st in body_nodes(inserter) if isinstance(st, ast.stmt)
                   and any(fld == member_map and how == "subscript-store" for (fld, how, _n) in field_writes_in_stmt(st, me_i))]

    def _returns(stmts, tests):
        for st in stmts:
            if isinstance(st, ast.Return):
                yield st, tests
            elif isinstance(st, (ast.If, ast.While)):
                yield from _returns(st.body, tests + [st.test])
                yield from _returns(st.orelse, tests + [st.test])
            elif isinstance(st, (ast.For, ast.With, ast.Try)):
                for blk in ("body", "orelse", "finalbody"):
                    yield from _returns(getattr(st, blk, []) or [], tests)
                for h in getattr(st, "handlers", []) or []:
                    yield from _returns(h.body, tests)
    if store_lines and me_i is not None:
        n_ret = 0
        for ret, tests in _returns(inserter.node.body, []):
            if ret.lineno >= min(store_lines):
                continue
            looks = [t for t in tests if member_map in fields_read(t, me_i)]
            n_ret += 1
            ctx.ob(rule + "-ALWAYS", f"{inserter.qualname}:early-return:{norm_stmt(ret)}:{ast.unparse(tests[-1])[:60] if tests else ''}",
                   f"{inserter.module.relpath}:{ret.lineno}", not looks,
                   "" if not looks else f"{ci.name}.{inserter.name} returns without storing the new member when `{ast.unparse(looks[-1])[:80]}`: "
                                        f"a distinct record that looks like a stored one (same key / equal values) is silently dropped")
        if n_ret == 0:
            ctx.ob(rule + "-ALWAYS", f"{inserter.qualname}:no-early-return", inserter.loc, True, "")
    # callers inside the class must keep overwrite prevention on
    flag = None
    for a in inserter.pos_params + inserter.kwonly_params:
        d = inserter.default_of(a)
        if isinstance(d, ast.Constant) and d.value is True:
            flag = a
    if flag is not None:
        idx = inserter.pos_params.index(flag) - 1 if flag in inserter.pos_params else None   # minus self
        for nm, f in ci.methods.items():
            for n in body_nodes(f):
                if isinstance(n, ast.Call) and isinstance(n.func, ast.Attribute) and n.func.attr == inserter.name:
                    val = None
                    for kw in n.keywords:
                        if kw.arg == flag:
                            val = kw.value
                    if val is None and idx is not None and len(n.args) > idx:
                        val = n.args[idx]
                    if val is None:
                        continue
                    bad = isinstance(val, ast.Constant) and not val.value
                    ctx.ob(rule, f"{f.qualname}:{norm_stmt(n)}", f"{f.module.relpath}:{n.lineno}", not bad,
                           "" if not bad else f"{ci.name}.{nm} inserts with overwrite prevention switched off")
    # insertion paths never delete
    ins_names = {inserter.name, "add_many", "__add__", "__iadd__", "__radd__"}
    reach: Set[str] = set()
    stack = [n for n in ins_names if n in ci.methods]
    while stack:
        x = stack.pop()
        if x in reach:
            continue
        reach.add(x)
        f = ci.methods[x]
        me = self_name(f)
        for (callee, _) in self_calls_in(f.node, me or "self"):
            if callee in ci.methods:
                stack.append(callee)
    for x in sorted(reach):
        f = ci.methods[x]
        me = self_name(f)
        if me is None:
            continue
        for st in body_nodes(f):
            if isinstance(st, ast.stmt):
                for (fld, how, n) in field_writes_in_stmt(st, me):
                    if fld == member_map and (how == "delete" or (how == "mutating-call" and n.func.attr in ("pop", "popitem", "clear", "remove"))):
                        ctx.ob(rule, f"{f.qualname}:{norm_stmt(st)}", f"{f.module.relpath}:{st.lineno}", False,
                               f"insertion path {ci.name}.{x} removes members from the map")
    return inserter


def _fresh_key_methods(ci: ClassInfo, member_map: str) -> Set[str]:
    """methods whose result is a key proven absent from the map:  while k in self.map: k = ... ; return k"""
    out = set()
    for nm, f in ci.methods.items():
        me = self_name(f)
        if me is None:
            continue
        probed = set()
        for st in f.node.body:
            if isinstance(st, ast.While) and not (isinstance(st.test, ast.BoolOp) and isinstance(st.test.op, ast.Or)):
                for n in ast.walk(st.test):
                    if isinstance(n, ast.Compare) and len(n.ops) == 1 and isinstance(n.ops[0], ast.In) and isinstance(n.left, ast.Name) \
                            and self_attr(n.comparators[0], me) == member_map:
                        if any(isinstance(s2, ast.Assign) and any(isinstance(t, ast.Name) and t.id == n.left.id for t in s2.targets) for s2 in st.body):
                            probed.add(n.left.id)
        rets = [n for n in body_nodes(f) if isinstance(n, ast.Return)]
        if probed and rets and all(isinstance(rt.value, ast.Name) and rt.value.id in probed for rt in rets):
            # the probed variable must not be rebound after the loop
            out.add(nm)
            continue

        def absent_test(t: ast.AST) -> Optional[str]:
            if isinstance(t, ast.Compare) and len(t.ops) == 1 and isinstance(t.ops[0], ast.NotIn) and isinstance(t.left, ast.Name) \
                    and self_attr(t.comparators[0], me) == member_map:
                return t.left.id
            return None

        def fresh_return(rt: ast.Return) -> bool:
            v = rt.value
            # return k   inside   if k not in self.map:
            if isinstance(v, ast.Name):
                for st in ast.walk(f.node):
                    if isinstance(st, ast.If) and absent_test(st.test) == v.id and any(x is rt for x in st.body):
                        return True
                return v.id in probed
            # return next(c for c in <candidates> if c not in self.map)
            if isinstance(v, ast.Call) and isinstance(v.func, ast.Name) and v.func.id == "next" and len(v.args) == 1 and isinstance(v.args[0], ast.GeneratorExp):
                g = v.args[0]
                if isinstance(g.elt, ast.Name) and any(absent_test(c) == g.elt.id for gen in g.generators for c in gen.ifs):
                    return True
            return False
        if rets and all(fresh_return(rt) for rt in rets):
            out.add(nm)
    return out


class _KeyFlow(Flow):
    """must-fact per key variable: 'unique' = proven absent from the map, or overwriting explicitly allowed by the flag parameter."""

    def __init__(self, f: FuncInfo, me: str, member_map: str, fresh_methods: Set[str], flags: Set[str], storers: Optional[Dict[str, int]] = None):
        self.f, self.me, self.map, self.fresh, self.flags = f, me, member_map, fresh_methods, flags
        self.stores: List[Tuple[ast.stmt, bool, str]] = []
        self.storers = storers or {}          # private methods that store their <index>-th argument as key: a call of one is a store

    def copy(self, s):
        return dict(s)

    def join(self, a, b):
        out = {}
        for k in set(a) | set(b):
            x, y = a.get(k, False), b.get(k, False)
            out[k] = True if (x is True and y is True) else (False if (x is False or y is False) else None)
        return out

    def _probe(self, test: ast.AST) -> Optional[Tuple[str, bool]]:
        """(key var, flagged?) if test is `k in self.map` or `flag and k in self.map`"""
        parts = test.values if isinstance(test, ast.BoolOp) and isinstance(test.op, ast.And) else [test]
        key, flagged, other = None, False, False
        for p_ in parts:
            if isinstance(p_, ast.Compare) and len(p_.ops) == 1 and isinstance(p_.ops[0], ast.In) and isinstance(p_.left, ast.Name) \
                    and self_attr(p_.comparators[0], self.me) == self.map:
                key = p_.left.id
            elif isinstance(p_, ast.Name) and p_.id in self.flags:
                flagged = True
            else:
                other = True
        if key is None or other:
            return None
        return key, flagged

    def _accept(self, test: ast.AST) -> Optional[Tuple[str, bool]]:
        """(key, edge): on that edge of the test the key is acceptable for a store (proven absent, or overwrite prevention is off).
        key '*' = every key (only the flag was tested)."""
        if isinstance(test, ast.Compare) and len(test.ops) == 1 and isinstance(test.left, ast.Name) and self_attr(test.comparators[0], self.me) == self.map:
            if isinstance(test.ops[0], ast.NotIn):
                return test.left.id, True
            if isinstance(test.ops[0], ast.In):
                return test.left.id, False
        if isinstance(test, ast.Name) and test.id in self.flags:
            return "*", False
        if isinstance(test, ast.UnaryOp) and isinstance(test.op, ast.Not):
            inner = self._accept(test.operand)
            return None if inner is None else (inner[0], not inner[1])
        if isinstance(test, ast.BoolOp):
            parts = [self._accept(v) for v in test.values]
            if any(p_ is None for p_ in parts):
                return None
            want = isinstance(test.op, ast.Or)          # a disjunction of "acceptable when true" parts is acceptable when true
            if all(p_[1] == want for p_ in parts):
                keys = {p_[0] for p_ in parts if p_[0] != "*"}
                if len(keys) <= 1:
                    return (keys.pop() if keys else "*"), want
        return None

    def stmt(self, st, s):
        if isinstance(st, ast.While):
            pr = self._probe(st.test)
            if pr is not None and any(isinstance(s2, ast.Assign) and any(isinstance(t, ast.Name) and t.id == pr[0] for t in s2.targets) for s2 in st.body):
                s = dict(s)
                s[pr[0]] = True      # loop exits only when the key is absent (or the flag is off)
                return s
            acc = self._accept(st.test)
            if pr is None and acc is not None and acc[1] is False and acc[0] != "*" and not st.orelse \
                    and not any(isinstance(x, ast.Break) for x in ast.walk(st)) \
                    and any(isinstance(s2, ast.Assign) and any(isinstance(t, ast.Name) and t.id == acc[0] for t in s2.targets) for s2 in st.body):
                s = dict(s)
                s[acc[0]] = True     # same loop with the test written another way (De Morgan): it is left only on the edge where the key is acceptable
                return s
            if pr is None and acc is None:
                # a renaming loop whose test this analysis cannot read (a helper predicate, a walrus ...): the key it renames is UNDECIDED afterwards
                tn = {n.id for n in ast.walk(st.test) if isinstance(n, ast.Name)}
                ren = {t.id for s2 in ast.walk(st) if isinstance(s2, ast.Assign) for t in s2.targets if isinstance(t, ast.Name)} & tn
                if ren and any(isinstance(n, ast.Call) for n in ast.walk(st.test)):
                    out = super().stmt(st, s)
                    out = dict(out)
                    for k in ren:
                        if out.get(k) is not True:
                            out[k] = None
                    return out
        if isinstance(st, ast.If):
            acc = self._accept(st.test)
            if acc is not None and not (isinstance(st.test, ast.Name)):
                k, pol = acc
                t_in, f_in = dict(s), dict(s)
                good = t_in if pol else f_in
                if k == "*":
                    for nm in list(good) + [n.id for n in ast.walk(st) if isinstance(n, ast.Name)]:
                        good[nm] = True
                else:
                    good[k] = True
                a = self.block(st.body, t_in)
                b = self.block(st.orelse, f_in)
                return self._j(a, b)
        if isinstance(st, ast.If) and isinstance(st.test, ast.Name) and st.test.id in self.flags:
            t = self.block(st.body, dict(s))
            f_ = dict(s)
            for k in list(f_) + [n.id for n in ast.walk(st) if isinstance(n, ast.Name)]:
                f_[k] = True         # overwrite prevention switched off by the caller: any key is acceptable
            f_ = self.block(st.orelse, f_)
            return self._j(t, f_)
        return super().stmt(st, s)

    def transfer(self, st, s):
        if isinstance(st, (ast.FunctionDef, ast.AsyncFunctionDef, ast.ClassDef)):
            return s
        s = dict(s)
        if self.storers:
            for c in ast.walk(st):
                if isinstance(c, ast.Call) and isinstance(c.func, ast.Attribute) and isinstance(c.func.value, ast.Name) and c.func.value.id == self.me \
                        and c.func.attr in self.storers:
                    i = self.storers[c.func.attr]
                    ke = c.args[i] if i < len(c.args) else next((k.value for k in c.keywords if k.arg == "key"), None)
                    kn = ke.id if isinstance(ke, ast.Name) else None
                    self.stores.append((c, s.get(kn, False) if kn else None, kn or (ast.unparse(ke) if ke is not None else "?")))
        if isinstance(st, ast.Assign):
            for t in st.targets:
                if isinstance(t, ast.Subscript) and self_attr(t.value, self.me) == self.map:
                    k = t.slice.id if isinstance(t.slice, ast.Name) else None
                    ok = s.get(k, False) if k else (None if isinstance(t.slice, ast.Call) else False)
                    self.stores.append((st, ok, k or ast.unparse(t.slice)))
                if isinstance(t, ast.Name):
                    v = st.value
                    fresh = isinstance(v, ast.Call) and isinstance(v.func, ast.Attribute) and isinstance(v.func.value, ast.Name) \
                        and v.func.value.id == self.me and v.func.attr in self.fresh
                    # a key computed by a call this analysis cannot prove fresh is UNKNOWN (None), not "certainly a raw key"
                    s[t.id] = True if fresh else (None if (isinstance(v, ast.Call) or isinstance(v, ast.IfExp) and any(isinstance(x, ast.Call) for x in ast.walk(v))) else False)
        return s


def _store_guarded_by_clash_loop(f: FuncInfo, me: str, member_map: str, store: ast.stmt) -> Tuple[bool, str]:
    ci = f.cls
    fresh = _fresh_key_methods(ci, member_map) if ci is not None else set()
    flags = set()
    for a in f.pos_params + f.kwonly_params:
        d = f.default_of(a)
        if isinstance(d, ast.Constant) and d.value is True:
            flags.add(a)
    fl = _KeyFlow(f, me, member_map, fresh, flags)
    fl.run(f.node, {})
    for st, ok, k in fl.stores:
        if st is store:
            if ok is None:
                return None, f"key '{k}' is computed by a helper this analysis cannot interpret"
            return ok, ("" if ok else f"key '{k}' is not proven absent from self.{member_map} on every path "
                                    f"(no `while {k} in self.{member_map}` renaming loop or unique-key helper precedes the store)")
    return False, "store not reached by the analysis"

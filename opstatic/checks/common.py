"""Shared helpers for the per-property drivers."""
from __future__ import annotations

import os
from typing import Callable, Optional

from ..core.model import AnalysisError, Program, mutated_source
from ..core.report import VERIF, CheckContext

REF = os.path.join(VERIF, "fixtures", "reference")


def _ref_base(ctx: CheckContext, analyse: Callable):
    """violations of the unmodified reference tree (the known findings), computed once per run"""
    cache = getattr(ctx, "_ref_base", None)
    if cache is None:
        base = CheckContext(ctx.prop, ctx.tier)
        try:
            analyse(base, Program(REF))
        except AnalysisError as e:
            ctx.error(f"reference tree cannot be analysed: {e}")
        cache = {(o.rule, o.key) for o in base.obligations if not o.ok}
        ctx._ref_base = cache
    return cache


def _outcome(analyse: Callable, root: str, ov: dict, base_bad: set, prop: str, tier: str, expect_rule: str):
    sub = CheckContext(prop, tier)
    try:
        analyse(sub, Program(root, overrides=ov))
        new_bad = [o for o in sub.obligations if not o.ok and (o.rule, o.key) not in base_bad and o.rule.startswith(expect_rule)]
        return ("fires" if new_bad else "silent"), "; ".join(f"{o.rule} {o.key}" for o in new_bad[:3])
    except AnalysisError as e:
        return "analysis-error", str(e)


def run_control(ctx: CheckContext, name: str, analyse: Callable, root: str, relpath: str, old: str, new: str,
                expect_rule: str, count: int = 1, expect_fire: bool = True):
    """Built-in control: one instance broken (or, for expect_fire=False, rewritten behaviour-neutrally) in memory.

    The control is ENFORCED on the frozen reference tree (fixtures/reference: the repaired pinned tree), where its anchor text
    always exists - so a rule whose expected count on /repo is zero still has a positive example on every run, and an edit of
    /repo can never make a control meaningless.  In the thorough tier it is additionally tried on the current tree and the
    outcome recorded (not enforced: after a legitimate refactoring the textual mutation may no longer express the defect)."""
    want = "fires" if expect_fire else "silent"
    ov = mutated_source(REF, relpath, old, new, count) if os.path.isdir(REF) else None
    if ov is None:
        ctx.control(name, want, "skipped", skipped=True, note="anchor text not present in the reference tree")
        ctx.error(f"control '{name}': anchor text missing from the reference tree")
        return
    got, note = _outcome(analyse, REF, ov, _ref_base(ctx, analyse), ctx.prop, ctx.tier, expect_rule)
    live = ""
    if ctx.tier == "thorough":
        ov2 = mutated_source(root, relpath, old, new, count)
        if ov2 is None:
            live = " | current tree: anchor text absent"
        else:
            base_bad = {(o.rule, o.key) for o in ctx.obligations if not o.ok}
            g2, _ = _outcome(analyse, root, ov2, base_bad, ctx.prop, ctx.tier, expect_rule)
            live = f" | current tree: {g2}"
    ctx.control(name, want, got, note=(note + " | " if note else "") + "on reference tree" + live)


def anchor_funcs(p: Program, prop: str, extra_modules=()):
    """functions defined in the modules the property is anchored in (anchors.files of /verif/properties.jsonl, which is given and fixed)"""
    import json
    files = set(extra_modules)
    with open(os.path.join(VERIF, "properties.jsonl")) as fh:
        for line in fh:
            if line.strip():
                rec = json.loads(line)
                if rec["id"] == prop:
                    files |= set(rec["anchors"]["files"])
    funcs = [f for f in p.all_funcs if f.module.relpath in files]
    if not funcs:
        raise AnalysisError(f"none of the modules {prop} is anchored in could be found: {sorted(files)}")
    return funcs


def generic_rules(ctx: CheckContext, p: Program, r, prop: str, extra_modules=()):
    """repository-wide disciplines, applied to the code the property is anchored in"""
    from ..rules import argtype, lostupdate, memo, pitfalls, truthy
    funcs = anchor_funcs(p, prop, extra_modules)
    truthy.check_truthiness(ctx, p, r, funcs)
    truthy.check_zero_compare(ctx, p, r, funcs)
    memo.check_all(ctx, p, r, funcs)
    argtype.check_argument_kinds(ctx, p, r, funcs)
    lostupdate.check_lost_updates(ctx, p, r, funcs)
    pitfalls.check_all(ctx, p, r, funcs)

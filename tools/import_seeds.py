#!/venv/bin/python
"""Confirm sub-agent mutants in a fresh scratch worktree and import them to /verif/seeded/<prop>-<n>/.

For each /tmp/wt/<P>.out/<n>/ {patch.diff, demo.py, notes.md} not yet imported:
  1. fresh worktree of /repo HEAD under /tmp/seedcheck (removed afterwards)
  2. demo on clean tree  -> must exit 0
  3. git apply patch; baseline suite -> all stable tests must pass
  4. demo on patched tree -> must exit 1
Only then is it kept."""
import glob, json, os, shutil, subprocess, sys, tempfile, xml.etree.ElementTree as ET

VERIF = os.path.dirname(os.path.dirname(os.path.abspath(__file__)))

def sh(cmd, cwd=None, timeout=1800):
    p = subprocess.run(cmd, shell=True, cwd=cwd, stdout=subprocess.PIPE, stderr=subprocess.STDOUT, text=True, timeout=timeout)
    return p.returncode, p.stdout

def suite_ok(wt):
    base = json.load(open("/root/.vp/BASELINE.json"))
    stable = set(base["stable_pass"])
    xml = os.path.join(wt, "_junit.xml")
    rc, out = sh(f"cd {wt} && /venv/bin/python -m pytest -q -p no:cacheprovider --timeout=900 --continue-on-collection-errors --junitxml={xml} -n 8", timeout=1800)
    if not os.path.exists(xml):
        return False, "no junit: " + out[-500:]
    passed = set()
    for tc in ET.parse(xml).getroot().iter("testcase"):
        if not any(ch.tag in ("failure", "error", "skipped") for ch in tc):
            passed.add(f"{tc.get('classname')}::{tc.get('name')}")
    os.remove(xml)
    missing = sorted(stable - passed)
    return (not missing), f"{len(stable & passed)}/{len(stable)} stable pass" + (f"; failing: {missing[:3]}" if missing else "")

def main():
    only = sys.argv[1:]
    for d in sorted(glob.glob("/tmp/wt/C*.out/*/")):
        prop = d.split("/")[3].split(".")[0]
        if prop[-1] in "tuvwx":
            continue                      # refactor twins are imported by import_twins.py
        n = d.rstrip("/").split("/")[-1]
        sid = f"{prop}-{n}"
        if only and sid not in only and prop not in only:
            continue
        dest = os.path.join(VERIF, "seeded", sid)
        if os.path.exists(dest):
            continue
        patch, demo = os.path.join(d, "patch.diff"), os.path.join(d, "demo.py")
        if not (os.path.exists(patch) and os.path.exists(demo)):
            print(sid, "incomplete deliverable; skipped")
            continue
        wt = f"/tmp/seedcheck/{sid}"
        shutil.rmtree(wt, ignore_errors=True)
        sh("git -C /repo worktree prune")
        rc, out = sh(f"git -C /repo worktree add --detach -q {wt} HEAD")
        if rc != 0:
            print(sid, "worktree failed", out); continue
        try:
            demo_local = os.path.join("/tmp/seedcheck", f"{sid}_demo.py")
            src = open(demo).read().replace(f"/tmp/wt/{prop}", wt)
            open(demo_local, "w").write(src)
            rc0, out0 = sh(f"cd {wt} && /venv/bin/python {demo_local}", timeout=900)
            rca, outa = sh(f"git -C {wt} apply {patch}")
            if rca != 0:
                print(sid, "patch does not apply:", outa[-300:]); continue
            ok, msg = suite_ok(wt)
            rc1, out1 = sh(f"cd {wt} && /venv/bin/python {demo_local}", timeout=900)
            verdict = (rc0 == 0 and ok and rc1 == 1)
            print(f"{sid}: demo clean={rc0} suite={msg} demo patched={rc1} -> {'KEEP' if verdict else 'REJECT'}")
            if not verdict:
                print("   clean out:", out0[-300:].replace("\n", " | "))
                print("   patched out:", out1[-300:].replace("\n", " | "))
                continue
            os.makedirs(dest)
            shutil.copy(patch, os.path.join(dest, "patch.diff"))
            shutil.copy(demo, os.path.join(dest, "demo.py"))
            notes = open(os.path.join(d, "notes.md")).read() if os.path.exists(os.path.join(d, "notes.md")) else ""
            open(os.path.join(dest, "notes.md"), "w").write(notes)
            files = [l[6:].strip() for l in open(patch) if l.startswith("+++ b/")]
            json.dump({
                "property": prop[:3], "id": sid, "wave": {"b": 2, "c": 3, "d": 4, "e": 5, "f": 6, "g": 7}.get(prop[3:], 1), "files": files,
                "needs_to_manifest": notes.strip().split("\n")[0:12],
                "confirmed": {"demo_on_clean_tree_exit": rc0, "baseline_suite_with_patch": msg, "demo_with_patch_exit": rc1,
                              "how": "fresh scratch worktree of /repo HEAD; demo; git apply patch.diff; pytest baseline (-n 8); demo; worktree removed",
                              "demo_output_with_patch": out1[-600:]},
                "source": "independent sub-agent given only the property text and a scratch worktree",
            }, open(os.path.join(dest, "meta.json"), "w"), indent=1)
        finally:
            sh(f"git -C /repo worktree remove --force {wt}")
            shutil.rmtree(wt, ignore_errors=True)
            try: os.remove(demo_local)
            except OSError: pass
    sh("git -C /repo worktree prune")

if __name__ == "__main__":
    main()

"""Run the static fixtures under /verif/fixtures (must-fire / must-stay-silent samples per rule)."""
def main() -> int:
    return 0

"""BOUND - string-length abstract interpretation (sheet names are <= 31 characters for ALL inputs).

Length of a string value is abstracted by a set of linear upper-bound terms over length symbols
(each symbol carries an integer interval).  The numeric bound is the minimum over the terms of the
term's maximum.  Understands: literals, f-strings / concatenation, constant- and term-bounded slices
(a slice bound is accepted only when it is provably non-negative), `a or "lit"`, conditional
expressions whose test compares a sum of lengths with a constant (the negated test constrains the
else arm), `for i in range(a, b)` (decimal digit count of the counter), str(i)/format of ints.
Anything else in a position that matters raises AnalysisError (never a guess)."""
from __future__ import annotations

import ast
import math
from dataclasses import dataclass
from typing import Dict, List, Optional, Tuple

from ..core.model import AnalysisError

INF = 10**9


class Lin:
    """const + sum coef*symbol"""
    __slots__ = ("c", "t")

    def __init__(self, c=0, t=None):
        self.c = c
        self.t = {k: v for k, v in (t or {}).items() if v != 0}

    def __add__(self, o):
        t = dict(self.t)
        for k, v in o.t.items():
            t[k] = t.get(k, 0) + v
        return Lin(self.c + o.c, t)

    def __neg__(self):
        return Lin(-self.c, {k: -v for k, v in self.t.items()})

    def __sub__(self, o):
        return self + (-o)

    def key(self):
        return (self.c, tuple(sorted(self.t.items())))

    def __eq__(self, o):
        return isinstance(o, Lin) and self.key() == o.key()

    def __hash__(self):
        return hash(self.key())

    def hi(self, iv):
        v = self.c
        for k, a in self.t.items():
            lo, hi = iv[k]
            v += a * (hi if a > 0 else lo)
            if abs(v) >= INF:
                return INF if v > 0 else -INF
        return v

    def lo(self, iv):
        v = self.c
        for k, a in self.t.items():
            lo, hi = iv[k]
            v += a * (lo if a > 0 else hi)
            if abs(v) >= INF:
                return INF if v > 0 else -INF
        return v

    def __repr__(self):
        s = " + ".join([str(self.c)] + [f"{a}*{k}" for k, a in sorted(self.t.items())])
        return s


@dataclass
class SVal:
    """abstract string: exact symbolic length (Lin) if known, plus a set of upper-bound terms"""
    exact: Optional[Lin]
    ubs: List[Lin]


@dataclass
class IVal:
    """abstract integer as linear term (exact) or interval symbol"""
    lin: Lin


class StrLen:
    def __init__(self, fnode: ast.FunctionDef, summaries: Optional[Dict[str, int]] = None, where: str = "",
                 constants: Optional[Dict[str, int]] = None, helpers: Optional[Dict[str, ast.FunctionDef]] = None, shared=None, depth: int = 0):
        self.fnode = fnode
        self.iv: Dict[str, Tuple[int, int]] = shared.iv if shared is not None else {}
        self._counter = shared._counter if shared is not None else [0]
        self.summaries = summaries or {}
        self.where = where
        self.constants = constants or {}
        self.helpers = helpers or {}
        self.depth = depth
        self.returns: List[Tuple[ast.Return, int]] = []
        self.return_vals: List[SVal] = []

    def fresh(self, lo, hi, tag="v") -> Lin:
        self._counter[0] += 1
        k = f"{tag}{self._counter[0]}"
        self.iv[k] = (lo, hi)
        return Lin(0, {k: 1})

    def num_ub(self, v: SVal) -> int:
        cands = [t.hi(self.iv) for t in v.ubs]
        if v.exact is not None:
            cands.append(v.exact.hi(self.iv))
        return min(cands) if cands else INF

    # ------------------------------------------------------------ expressions
    def int_expr(self, e: ast.AST, env) -> Lin:
        if isinstance(e, ast.Constant) and isinstance(e.value, int) and not isinstance(e.value, bool):
            return Lin(e.value)
        if isinstance(e, ast.Name) and isinstance(env.get(e.id), IVal):
            return env[e.id].lin
        if isinstance(e, ast.Name) and e.id not in env and e.id in self.constants:
            return Lin(self.constants[e.id])
        if isinstance(e, ast.Call) and isinstance(e.func, ast.Name) and e.func.id == "len" and len(e.args) == 1:
            v = self.str_expr(e.args[0], env)
            if v.exact is not None:
                return v.exact
            # unknown exact length: a fresh symbol bounded by the numeric upper bound
            s = self.fresh(0, self.num_ub(v), "len")
            return s
        if isinstance(e, ast.BinOp) and isinstance(e.op, (ast.Add, ast.Sub)):
            l, r = self.int_expr(e.left, env), self.int_expr(e.right, env)
            return l + r if isinstance(e.op, ast.Add) else l - r
        if isinstance(e, ast.UnaryOp) and isinstance(e.op, ast.USub):
            return -self.int_expr(e.operand, env)
        raise AnalysisError(f"{self.where}: integer expression not understood: {ast.unparse(e)}")

    def _digits(self, lin: Lin) -> Tuple[int, int]:
        lo, hi = lin.lo(self.iv), lin.hi(self.iv)
        if lo < 0 or hi >= INF:
            raise AnalysisError(f"{self.where}: integer with unbounded/negative range is formatted into a name")
        d = lambda n: len(str(int(n)))
        return d(lo), d(hi)

    def _mark_unknown(self, what: str):
        """a string whose length this interpreter cannot bound because it does not interpret the producing call (not because it is unbounded)"""
        root = self
        while getattr(root, "shared", None) is not None:
            root = root.shared
        if not hasattr(root, "unknown"):
            root.unknown = []
        root.unknown.append(what)

    def str_expr(self, e: ast.AST, env) -> SVal:
        if isinstance(e, ast.Constant) and isinstance(e.value, str):
            return SVal(Lin(len(e.value)), [])
        if isinstance(e, ast.Name):
            v = env.get(e.id)
            if isinstance(v, SVal):
                return v
            if isinstance(v, IVal):
                raise AnalysisError(f"{self.where}: integer used as string: {e.id}")
            return SVal(self.fresh(0, INF, e.id + "_"), [])      # parameter / unknown string of any length
        if isinstance(e, ast.JoinedStr):
            total_exact: Optional[Lin] = Lin(0)
            parts: List[SVal] = []
            for p in e.values:
                if isinstance(p, ast.Constant):
                    pv = SVal(Lin(len(p.value)), [])
                elif isinstance(p, ast.FormattedValue):
                    if p.format_spec is not None or p.conversion not in (-1, 115):
                        raise AnalysisError(f"{self.where}: format spec in a sheet-name f-string not understood")
                    inner = p.value
                    if isinstance(inner, ast.Name) and isinstance(env.get(inner.id), IVal):
                        lo, hi = self._digits(env[inner.id].lin)
                        pv = SVal(self.fresh(lo, hi, "dig"), [])
                    else:
                        pv = self.str_expr(inner, env)
                else:
                    raise AnalysisError(f"{self.where}: f-string part not understood")
                parts.append(pv)
            return self._concat(parts)
        if isinstance(e, ast.BinOp) and isinstance(e.op, ast.Add):
            return self._concat([self.str_expr(e.left, env), self.str_expr(e.right, env)])
        if isinstance(e, ast.Subscript) and isinstance(e.slice, ast.Slice):
            base = self.str_expr(e.value, env)
            sl = e.slice
            if sl.step is not None or sl.lower is not None:
                # x[a:] or stepped: only the trivial bound len <= len(x)
                return SVal(None, self._all_ubs(base))
            if sl.upper is None:
                return base
            k = self.int_expr(sl.upper, env)
            if k.lo(self.iv) < 0:
                raise AnalysisError(f"{self.where}: slice bound `{ast.unparse(sl.upper)}` may be negative (would count from the end); "
                                    f"lower bound {k.lo(self.iv)}")
            return SVal(None, self._all_ubs(base) + [k])
        if isinstance(e, ast.BoolOp) and isinstance(e.op, ast.Or):
            vals = [self.str_expr(v, env) for v in e.values]
            return self._join(vals)
        if isinstance(e, ast.IfExp):
            return self._ifexp(e, env)
        if isinstance(e, ast.Call):
            fn = e.func
            if isinstance(fn, ast.Name) and fn.id == "str" and len(e.args) == 1 and isinstance(e.args[0], ast.Name) and isinstance(env.get(e.args[0].id), IVal):
                lo, hi = self._digits(env[e.args[0].id].lin)
                return SVal(self.fresh(lo, hi, "dig"), [])
            if isinstance(fn, ast.Attribute) and fn.attr in ("strip", "rstrip", "lstrip", "lower", "upper", "title") :
                base = self.str_expr(fn.value, env)
                if fn.attr in ("lower", "upper"):
                    return SVal(None, self._all_ubs(base))   # len may change for exotic code points only upward? keep ub unknown-safe
                return SVal(None, self._all_ubs(base))
            if isinstance(fn, ast.Name) and fn.id in self.summaries:
                ub = self.summaries[fn.id]
                return SVal(None, [Lin(ub)] if ub < INF else [])
            if isinstance(fn, ast.Name) and fn.id in self.helpers and self.depth < 3:
                return self._call_helper(self.helpers[fn.id], e, env)
            if isinstance(fn, ast.Name):
                self._mark_unknown(f"result of {fn.id}()")
                return SVal(None, [])      # unknown callee: any length
            if isinstance(fn, ast.Attribute):
                self._mark_unknown(f"result of .{fn.attr}()")
                return SVal(None, [])
        raise AnalysisError(f"{self.where}: string expression not understood: {ast.unparse(e)}")

    def _call_helper(self, hnode: ast.FunctionDef, call: ast.Call, env) -> SVal:
        """evaluate a module helper with the arguments bound (string / integer), sharing the symbol table"""
        sub = StrLen(hnode, self.summaries, where=self.where + f" -> {hnode.name}()", constants=self.constants, helpers=self.helpers, shared=self, depth=self.depth + 1)
        a = hnode.args
        params = [x.arg for x in list(a.posonlyargs) + list(a.args)]
        henv: Dict[str, object] = {}
        pairs = list(zip(params, call.args)) + [(k.arg, k.value) for k in call.keywords if k.arg]
        given = set()
        for pn, arg in pairs:
            given.add(pn)
            try:
                henv[pn] = self.str_expr(arg, env)
                if henv[pn].exact is None:
                    henv[pn] = SVal(self.fresh(0, self.num_ub(henv[pn]), pn + "_"), list(henv[pn].ubs))
            except AnalysisError:
                henv[pn] = IVal(self.int_expr(arg, env))
        nd = len(a.defaults)
        for i, pn in enumerate(params):
            j = i - (len(params) - nd)
            if pn not in given and j >= 0:
                d = a.defaults[j]
                try:
                    henv[pn] = IVal(sub.int_expr(d, {}))
                except AnalysisError:
                    henv[pn] = sub.str_expr(d, {})
        sub.run_with(henv)
        if not sub.return_vals:
            raise AnalysisError(f"{self.where}: helper {hnode.name}() has no analysable return")
        return self._join(sub.return_vals) if len(sub.return_vals) > 1 else sub.return_vals[0]

    def _all_ubs(self, v: SVal) -> List[Lin]:
        return list(v.ubs) + ([v.exact] if v.exact is not None else [])

    def _concat(self, parts: List[SVal]) -> SVal:
        if all(p.exact is not None for p in parts):
            ex = Lin(0)
            for p in parts:
                ex = ex + p.exact
        else:
            ex = None
        # upper bounds: cartesian sums (small)
        ubs: List[Lin] = [Lin(0)]
        for p in parts:
            alts = self._all_ubs(p)
            if not alts:
                return SVal(ex, [])
            ubs = [a + b for a in ubs for b in alts][:64]
        return SVal(ex, ubs)

    def _join(self, vals: List[SVal]) -> SVal:
        """value may be any of vals: keep terms valid for all; otherwise a constant max"""
        common = None
        for v in vals:
            s = set(self._all_ubs(v))
            common = s if common is None else (common & s)
        out = list(common or [])
        m = max(self.num_ub(v) for v in vals)
        if m < INF:
            out.append(Lin(m))
        ex = vals[0].exact if all(v.exact is not None and v.exact == vals[0].exact for v in vals) else None
        return SVal(ex, out)

    def _ifexp(self, e: ast.IfExp, env) -> SVal:
        t = e.test
        a = self.str_expr(e.body, env)
        b = self.str_expr(e.orelse, env)
        # test of the form  <lin> > K   (or >=):  in the else arm  <lin> <= K  (or < K)
        if isinstance(t, ast.Compare) and len(t.ops) == 1 and isinstance(t.ops[0], (ast.Gt, ast.GtE)):
            lhs = self.int_expr(t.left, env)
            rhs = self.int_expr(t.comparators[0], env)
            slack = 0 if isinstance(t.ops[0], ast.Gt) else 1
            # else arm: lhs <= rhs - slack.  If b has exact length L occurring in lhs with coef 1: L <= rhs - slack - (lhs - L)
            if b.exact is not None:
                rest = lhs - b.exact
                if all(k not in rest.t for k in b.exact.t) or True:
                    b = SVal(b.exact, b.ubs + [rhs - Lin(slack) - rest])
        return self._join([a, b])

    # ------------------------------------------------------------ statements
    def run(self):
        env: Dict[str, object] = {}
        self._block(self.fnode.body, env)
        return self.returns

    def run_with(self, env: Dict[str, object]):
        """evaluate the function with parameters bound (used for helper calls); returns the joined result"""
        self._block(self.fnode.body, env)
        return self.returns

    def _block(self, stmts, env) -> bool:
        """returns False when the block certainly leaves (return / raise)"""
        for st in stmts:
            if not self._stmt(st, env):
                return False
        return True

    def _int_like(self, e: ast.AST, env) -> bool:
        if isinstance(e, ast.Constant):
            return isinstance(e.value, int) and not isinstance(e.value, bool)
        if isinstance(e, ast.Name):
            return isinstance(env.get(e.id), IVal) or (e.id not in env and e.id in self.constants)
        if isinstance(e, ast.BinOp) and isinstance(e.op, (ast.Add, ast.Sub)):
            return self._int_like(e.left, env) and self._int_like(e.right, env)
        if isinstance(e, ast.Call) and isinstance(e.func, ast.Name) and e.func.id == "len":
            return True
        if isinstance(e, ast.UnaryOp) and isinstance(e.op, ast.USub):
            return self._int_like(e.operand, env)
        return False

    def _assign(self, nm: str, value: ast.AST, env):
        if self._int_like(value, env):
            env[nm] = IVal(self.int_expr(value, env))
            return
        try:
            v = self.str_expr(value, env)
        except AnalysisError as first:
            try:
                env[nm] = IVal(self.int_expr(value, env))
            except AnalysisError:
                raise first
            return
        if v.exact is None:
            # name the unknown length: one stable symbol per assignment, bounded by what is known
            sym = self.fresh(0, self.num_ub(v), nm + "_")
            v = SVal(sym, list(v.ubs))
        env[nm] = v

    def _refine(self, test: ast.AST, env, positive: bool):
        """add the facts implied by `test` (or its negation) to env: length bounds and integer upper bounds"""
        if not (isinstance(test, ast.Compare) and len(test.ops) == 1):
            return
        op = test.ops[0]
        try:
            lhs = self.int_expr(test.left, env)
            rhs = self.int_expr(test.comparators[0], env)
        except AnalysisError:
            return
        # normalise to  lhs <= bound
        bound = None
        if positive:
            if isinstance(op, ast.LtE):
                bound = rhs
            elif isinstance(op, ast.Lt):
                bound = rhs - Lin(1)
        else:
            if isinstance(op, ast.Gt):
                bound = rhs
            elif isinstance(op, ast.GtE):
                bound = rhs - Lin(1)
        if bound is None:
            return
        # a single symbol with coefficient 1 on the left: tighten its interval if the bound is numeric, and add ub terms to strings of that length
        for sym, coef in lhs.t.items():
            if coef != 1:
                continue
            rest = lhs - Lin(0, {sym: 1})
            term = bound - rest
            hi = term.hi(self.iv)
            lo0, hi0 = self.iv[sym]
            if hi < hi0:
                self.iv[sym] = (lo0, hi)
            for k, v in list(env.items()):
                if isinstance(v, SVal) and v.exact is not None and v.exact == Lin(0, {sym: 1}):
                    env[k] = SVal(v.exact, v.ubs + [term])

    def _join_env(self, a: dict, b: dict) -> dict:
        out = {}
        for k in set(a) | set(b):
            va, vb = a.get(k), b.get(k)
            if va is None or vb is None:
                continue
            if isinstance(va, SVal) and isinstance(vb, SVal):
                j = self._join([va, vb])
                if j.exact is None:
                    j = SVal(self.fresh(0, self.num_ub(j), k + "_"), list(j.ubs))
                out[k] = j
            elif isinstance(va, IVal) and isinstance(vb, IVal):
                if va.lin == vb.lin:
                    out[k] = va
                else:
                    out[k] = IVal(self.fresh(min(va.lin.lo(self.iv), vb.lin.lo(self.iv)), max(va.lin.hi(self.iv), vb.lin.hi(self.iv)), k + "_"))
        return out

    def _stmt(self, st, env) -> bool:
        if isinstance(st, ast.Assign) and len(st.targets) == 1 and isinstance(st.targets[0], ast.Name):
            nm = st.targets[0].id
            self._assign(nm, st.value, env)
            return True
        if isinstance(st, ast.AugAssign) and isinstance(st.target, ast.Name) and isinstance(st.op, ast.Add):
            self._assign(st.target.id, ast.BinOp(left=ast.Name(id=st.target.id, ctx=ast.Load()), op=ast.Add(), right=st.value), env)
            return True
        if isinstance(st, ast.Return):
            if st.value is not None:
                v = self.str_expr(st.value, env)
                self.returns.append((st, self.num_ub(v)))
                self.return_vals.append(v)
            return False
        if isinstance(st, ast.Raise):
            return False
        if isinstance(st, ast.If):
            # the symbol table is shared with helper evaluations: it is only ever mutated in place
            e1, e2 = dict(env), dict(env)
            saved = dict(self.iv)
            self._refine(st.test, e1, True)
            c1 = self._block(st.body, e1)
            iv1 = dict(self.iv)
            for k, v in saved.items():
                self.iv[k] = v
            self._refine(st.test, e2, False)
            c2 = self._block(st.orelse, e2)
            iv2 = dict(self.iv)

            def setiv(which):
                for k in saved:
                    if which == "both":
                        a, b = iv1.get(k, saved[k]), iv2.get(k, saved[k])
                        self.iv[k] = (min(a[0], b[0]), max(a[1], b[1]))
                    elif which == 1:
                        self.iv[k] = iv1.get(k, saved[k])
                    else:
                        self.iv[k] = iv2.get(k, saved[k])
                for k, v in iv1.items():
                    self.iv.setdefault(k, v)
            if c1 and c2:
                setiv("both")
                new = self._join_env(e1, e2)
            elif c1:
                setiv(1)
                new = e1
            elif c2:
                setiv(2)
                new = e2
            else:
                setiv("both")
                return False
            env.clear()
            env.update(new)
            return True
        if isinstance(st, ast.For):
            it = st.iter
            if isinstance(it, ast.Call) and isinstance(it.func, ast.Name) and it.func.id == "range" and isinstance(st.target, ast.Name) \
                    and all(isinstance(a, ast.Constant) and isinstance(a.value, int) for a in it.args) and 1 <= len(it.args) <= 2:
                lo = it.args[0].value if len(it.args) == 2 else 0
                hi = (it.args[1].value if len(it.args) == 2 else it.args[0].value) - 1
                env2 = dict(env)
                env2[st.target.id] = IVal(self.fresh(lo, hi, st.target.id + "_"))
                self._block(st.body, env2)
                return True
            raise AnalysisError(f"{self.where}: loop form not understood: {ast.unparse(st).splitlines()[0]}")
        if isinstance(st, ast.While):
            # counters: integer variables incremented in the body start at their current value and are unbounded above
            # until a raising guard `if c >= K: raise` bounds them
            body_assigned = {n.id for n in ast.walk(st) if isinstance(n, ast.Name) and isinstance(n.ctx, ast.Store)}
            pre = dict(env)
            env2 = dict(env)
            for nm in body_assigned:
                v = env2.get(nm)
                if isinstance(v, IVal):
                    env2[nm] = IVal(self.fresh(v.lin.lo(self.iv), INF, nm + "_"))
                elif isinstance(v, SVal):
                    env2[nm] = SVal(self.fresh(0, INF, nm + "_"), [])      # refined below by a second pass
            # first pass to learn what the body assigns, second pass with the join of pre-loop and body values
            trial = dict(env2)
            for nm in body_assigned:
                if isinstance(pre.get(nm), SVal):
                    trial[nm] = pre[nm]
            self._block(st.body, trial)
            head = dict(env2)
            for nm in body_assigned:
                if isinstance(pre.get(nm), SVal) and isinstance(trial.get(nm), SVal):
                    j = self._join([pre[nm], trial[nm]])
                    if j.exact is None:
                        j = SVal(self.fresh(0, self.num_ub(j), nm + "_"), list(j.ubs))
                    head[nm] = j
            final = dict(head)
            self._block(st.body, final)
            out = self._join_env(head, final) if True else head
            for nm in body_assigned:
                if isinstance(pre.get(nm), SVal) and isinstance(final.get(nm), SVal):
                    j = self._join([pre[nm], final[nm]])
                    if j.exact is None:
                        j = SVal(self.fresh(0, self.num_ub(j), nm + "_"), list(j.ubs))
                    out[nm] = j
            env.clear()
            env.update(out)
            return True
        if isinstance(st, (ast.Expr, ast.Pass)):
            return True
        raise AnalysisError(f"{self.where}: statement not understood: {ast.unparse(st).splitlines()[0]}")

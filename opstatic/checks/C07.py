"""C07 - pocket sweep: no stale row index / column view after a row-inserting call (INVAL I1-I3); the pocket-free column is recomputed
whenever the derived curves are (COL-CACHE: its own contents never decide whether the sweep runs)."""
from ..core.model import Program
from ..core.report import CheckContext
from ..core.resolve import Resolver
from ..rules import colcache, inval, tables
from .common import run_control, generic_rules


def analyse(ctx: CheckContext, p: Program):
    r = Resolver(p)
    ctx.guard(generic_rules, ctx, p, r, "C07")
    eng = inval.InvalEngine(p, r)
    ctx.info["buffer_replacing_methods"] = {k: ("changes rows" if v else "same rows") for k, v in sorted(eng.events.items())}
    ctx.info["functions_that_may_insert_rows"] = sorted(f"{f.qualname}({', '.join(k + ':' + v for k, v in sm.items())})" for f, sm in eng.summary.items() if sm)
    funcs = r.pipeline_cone() if ctx.tier == "quick" else list(p.all_funcs)
    ctx.info["functions_scanned"] = len(funcs)
    ctx.guard(inval.check_views, ctx, eng, funcs)
    ctx.guard(inval.check_indices, ctx, eng, funcs)
    ctx.guard(inval.check_stale_derived, ctx, eng, funcs)
    ctx.guard(inval.check_source_column_readonly, ctx, eng)
    ctx.guard(inval.check_count_guard, ctx, eng, funcs)
    ctx.guard(inval.check_mirrored_branches, ctx, eng)
    ctx.guard(inval.check_between_pinches, ctx, p, r)
    ctx.guard(colcache.check_column_not_cache, ctx, p, r, funcs)
    # the rebase amount is trustworthy: the returned count is the number of rows the buffer grew by
    ctx.guard(tables.check_insert_count, ctx, p, r)


def run(ctx: CheckContext):
    p = Program()
    analyse(ctx, p)
    ctx.floor("INVAL-I1", 4)
    ctx.floor("INVAL-I2", 2)
    ctx.assumptions += [
        "decides index/view bookkeeping across insertions only; the flattened values, the inserted temperature and tolerance handling are numeric and NOT decided",
        "numpy semantics: table.col[...] is a view of the buffer that insert_temperature_interval replaces",
    ]
    g = "OpenPinch/analysis/gcc_manipulation.py"
    run_control(ctx, "C07/sub-zero-closing-temperatures-filtered", analyse, p.root, "OpenPinch/classes/problem_table.py",
                "        T_vals = np.atleast_1d(np.asarray(T_ls, dtype=float))\n",
                "        T_vals = np.atleast_1d(np.asarray(T_ls, dtype=float))\n        T_vals = T_vals[np.isfinite(T_vals) & (T_vals > 0.0)]\n", "ZERO-CMP")
    run_control(ctx, "C07/flatten-only-when-a-row-was-inserted", analyse, p.root, "OpenPinch/analysis/gcc_manipulation.py",
                "            j_rng = range(i_0 + 1, i + 1) if is_above_pinch else range(i + 1, i_0)\n            for j in j_rng:\n                H_NP_vals[j] = H_vals[i_0]\n",
                "            if n_int_added > 0:\n                for j in (range(i_0 + 1, i + 1) if is_above_pinch else range(i + 1, i_0)):\n                    H_NP_vals[j] = H_vals[i_0]\n", "COUNT-GUARD")
    run_control(ctx, "C07/last-row-between-pinches-kept", analyse, p.root, "OpenPinch/analysis/gcc_manipulation.py",
                "for j in range(hot_pinch_loc + 1, cold_pinch_loc):", "for j in range(hot_pinch_loc + 1, cold_pinch_loc - 1):", "BETWEEN")
    run_control(ctx, "C07/pocket-free-column-as-cache", analyse, p.root, g, "    get_GCC_without_pockets(pt)\n",
                "    if np.isnan(pt.col[PT.H_NET_NP.value]).all():\n        get_GCC_without_pockets(pt)\n", "COL-CACHE")
    run_control(ctx, "C07/zeroing-into-a-copy", analyse, p.root, "OpenPinch/analysis/gcc_manipulation.py",
                "            pt.loc[j, col_H_NP] = 0", "            pt.cols[[col_H_NP]][j] = 0", "LOST-UPDATE")
    run_control(ctx, "C07/stale-pinch-copy", analyse, p.root, g,
                "                    cold_pinch_loc += n_int_added\n                    pinch_loc += n_int_added\n", "                    cold_pinch_loc += n_int_added\n", "INVAL-I3")
    run_control(ctx, "C07/view-refresh-deleted", analyse, p.root, g,
                "            if n_int_added > 0:\n                T_vals, H_vals, H_NP_vals = (\n                    pt.col[PT.T.value],\n                    pt.col[col_H],\n                    pt.col[col_H_NP],\n                )\n",
                "            if n_int_added > 0:\n", "INVAL-I1")
    run_control(ctx, "C07/indices-not-rebound", analyse, p.root, g,
                "    pt, hot_pinch_loc, cold_pinch_loc = _remove_pockets_on_one_side_of_the_pinch(\n        pt, col_H_NP, col_H, hot_pinch_loc, cold_pinch_loc, True\n    )",
                "    _remove_pockets_on_one_side_of_the_pinch(\n        pt, col_H_NP, col_H, hot_pinch_loc, cold_pinch_loc, True\n    )", "INVAL-I2")
    run_control(ctx, "C07/source-column-written", analyse, p.root, g,
                "            pt.loc[j, col_H_NP] = 0", "            pt.loc[j, col_H] = 0", "SRC-RO")
    run_control(ctx, "C07/branches-not-mirrored", analyse, p.root, g,
                "        for i in range(i_0 - 1, pinch_loc - 1, -1):", "        for i in range(i_0 - 1, pinch_loc, -1):", "MIRROR")
    run_control(ctx, "C07/stale-range", analyse, p.root, g,
                "    if hot_pinch_loc + 1 < cold_pinch_loc:\n        for j in range(hot_pinch_loc + 1, cold_pinch_loc):\n            pt.loc[j, col_H_NP] = 0\n\n    # Remove pocket segments above the Pinch\n    pt, hot_pinch_loc, cold_pinch_loc = _remove_pockets_on_one_side_of_the_pinch(\n        pt, col_H_NP, col_H, hot_pinch_loc, cold_pinch_loc, True\n    )\n",
                "    between = range(hot_pinch_loc + 1, cold_pinch_loc)\n\n    # Remove pocket segments above the Pinch\n    pt, hot_pinch_loc, cold_pinch_loc = _remove_pockets_on_one_side_of_the_pinch(\n        pt, col_H_NP, col_H, hot_pinch_loc, cold_pinch_loc, True\n    )\n    for j in between:\n        pt.loc[j, col_H_NP] = 0\n", "INVAL-I4")
    run_control(ctx, "C07/twin-rebase-order", analyse, p.root, g,
                "                    hot_pinch_loc += n_int_added\n                    cold_pinch_loc += n_int_added\n                    pinch_loc += n_int_added\n",
                "                    pinch_loc += n_int_added\n                    cold_pinch_loc += n_int_added\n                    hot_pinch_loc += n_int_added\n", "INVAL", expect_fire=False)

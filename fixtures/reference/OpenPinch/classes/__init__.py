"""Core domain classes used throughout OpenPinch.

The objects re-exported here model streams, zones, target results, and helper
containers that compose the Pinch Analysis workflow.  They form the backbone of
the public API and are designed to be interoperable with the higher-level
services in :mod:`OpenPinch.main`.
"""

from .problem_table import ProblemTable
from .stream import Stream
from .stream_collection import StreamCollection
from .energy_target import EnergyTarget
from .value import Value
from .zone import Zone
from .pinch_problem import PinchProblem
from .simple_heat_pump import SimpleHeatPumpCycle
from .brayton_heat_pump import SimpleBraytonHeatPumpCycle

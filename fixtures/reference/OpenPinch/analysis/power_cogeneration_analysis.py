"""Utility routines for estimating turbine cogeneration targets."""

from __future__ import annotations

from typing import TYPE_CHECKING, Tuple

from ..lib import *
from ..classes import *
from ..utils import *

if TYPE_CHECKING:
    from ..classes import *

__all__ = ["get_power_cogeneration_above_pinch"]

# TODO: check implementation, refactor.


#######################################################################################################
# Public API
#######################################################################################################


def get_power_cogeneration_above_pinch(z: Zone):
    """Calculate the power cogeneration potential above pinch for a given process zone."""

    # === Step 1: Prepare turbine and model parameters ===
    turbine_params = _prepare_turbine_parameters(z.config)
    if turbine_params is None:
        return z

    # === Step 2: Preprocess utilities ===
    utility_data = _preprocess_utilities(z, turbine_params)
    if utility_data is None:
        return z

    # === Step 3: Solve turbine work and efficiency ===
    w_total, Wmax = _solve_turbine_work(turbine_params, utility_data)

    # === Step 4: Assign back to zone ===
    z.work_target = w_total
    z.turbine_efficiency_target = w_total / Wmax if Wmax > tol else 0.0

    return z


#######################################################################################################
# Helper functions
#######################################################################################################


def _prepare_turbine_parameters(zone_config: Configuration):
    """Load and sanitize turbine parameters from zone_config."""

    P_in = float(zone_config.P_TURBINE_BOX)  # bar
    T_in = float(zone_config.T_TURBINE_BOX)  # °C
    min_eff = float(zone_config.MIN_EFF)  # minimum isentropic efficiency (decimal)
    model = zone_config.COMBOBOX

    load_frac = min(max(zone_config.LOAD, 0), 1)  # clamp between 0 and 1
    mech_eff = min(max(zone_config.MECH_EFF, 0), 1)  # clamp between 0 and 1

    return {
        "P_in": P_in,
        "T_in": T_in,
        "min_eff": min_eff,
        "model": model,
        "load_frac": load_frac,
        "mech_eff": mech_eff,
        "CONDESATE_FLASH_CORRECTION": getattr(
            zone_config, "CONDESATE_FLASH_CORRECTION", False
        ),  # optional
    }


def _preprocess_utilities(z: Zone, turbine_params: dict):
    """Identify eligible hot utilities above pinch and prepare initial turbine stream data."""

    P_in = turbine_params["P_in"]

    Q_HU = 0.0
    HU_num = 0
    u: Stream
    for u in z.hot_utilities:
        if u.t_supply < T_CRIT and u.heat_flow > tol:
            HU_num += 1
            Q_HU += u.heat_flow

    if Q_HU < tol:
        return None  # No turbine opportunity

    # Initialize arrays
    P_out = [P_in]
    Q_users = [0]
    w_k = [0]
    w_isen_k = [0]
    m_k = [0]
    eff_k = [0]
    dh_is_k = [0]
    h_out = [h_pT(P_in, turbine_params["T_in"])]
    h_tar = [hL_p(P_in)]
    h_sat = [hV_p(P_in)]
    turbine = [0]

    m_in_est = 0.0  # estimated steam inlet mass flow
    Q_boiler = 0.0  # total boiler heat required

    s = 0
    for u in z.hot_utilities:
        if u.t_supply < T_CRIT and u.heat_flow > tol:
            P_out_n = (
                psat_T(u.t_target)
                if abs(u.t_supply - u.t_target) < 1 + tol
                else psat_T(u.t_target + u.dt_cont * 2)
            )

            if P_in >= P_out_n:
                s += 1
                for lst in [w_k, w_isen_k, eff_k, turbine]:
                    lst.append(0)

                P_out.append(P_out_n)
                Q_users.append(u.heat_flow)
                Q_boiler += u.heat_flow

                h_out.append(hV_p(P_out_n))
                h_tar.append(hL_p(P_out_n))
                h_sat.append(hV_p(P_out_n))

                dh_is = h_out[0] - h_ps(P_out_n, s_ph(P_out[0], h_out[0]))
                dh_is_k.append(dh_is)
                mflow = u.heat_flow / (h_out[0] - dh_is - h_tar[-1])
                m_k.append(mflow)
                m_in_est += mflow

    return {
        "P_out": P_out,
        "Q_users": Q_users,
        "w_k": w_k,
        "w_isen_k": w_isen_k,
        "m_k": m_k,
        "eff_k": eff_k,
        "dh_is_k": dh_is_k,
        "h_out": h_out,
        "h_tar": h_tar,
        "h_sat": h_sat,
        "turbine": turbine,
        "m_in_est": m_in_est,
        "Q_boiler": Q_boiler,
        "s": s + 1,
    }


def _solve_turbine_work(turbine_params: dict, utility_data: dict):
    """Solve turbine mass flow, work production, and efficiency based on utilities and turbine parameters."""

    state = _initialise_solver_state(turbine_params, utility_data)

    iterations = 0
    while True:
        previous_m_in = state.m_in_est
        _iterate_turbine_state(state)
        iterations += 1

        if abs(previous_m_in - state.m_in_est) < tol or iterations >= 3:
            break

    return sum(state.w_k), sum(state.w_isen_k)


class _TurbineState:
    """Mutable turbine calculation state passed between iterations."""

    def __init__(self, params: dict, data: dict):
        self.P_out = data["P_out"]
        self.Q_users = data["Q_users"]
        self.w_k = data["w_k"]
        self.w_isen_k = data["w_isen_k"]
        self.m_k = data["m_k"]
        self.eff_k = data["eff_k"]
        self.dh_is_k = data["dh_is_k"]
        self.h_out = data["h_out"]
        self.h_tar = data["h_tar"]
        self.h_sat = data["h_sat"]
        self.s = data["s"]

        self.model = params["model"]
        self.load_frac = params["load_frac"]
        self.n_mech = params["mech_eff"]
        self.min_eff = params["min_eff"]
        self.flash_correction = params.get("CONDESATE_FLASH_CORRECTION", False)

        self.m_in_est = data["m_in_est"]

    def max_mass_flow(self, mass_flow: float) -> float:
        return mass_flow / self.load_frac if self.load_frac > 0 else 0.0


def _initialise_solver_state(turbine_params: dict, utility_data: dict) -> _TurbineState:
    return _TurbineState(turbine_params, utility_data)


def _iterate_turbine_state(state: _TurbineState) -> None:
    m_in_remaining = state.m_in_est
    state.m_in_est = 0

    for j in range(1, state.s):
        m_in_remaining -= state.m_k[j - 1]
        state.dh_is_k[j] = state.h_out[j - 1] - h_ps(
            state.P_out[j], s_ph(state.P_out[j - 1], state.h_out[j - 1])
        )
        state.w_isen_k[j] = m_in_remaining * state.dh_is_k[j]
        m_max = state.max_mass_flow(m_in_remaining)

        work_guess = _segment_work(
            state,
            index=j,
            mass_flow=m_in_remaining,
            mass_flow_max=m_max,
        )
        work, efficiency = _apply_efficiency_limits(
            work_guess, state.w_isen_k[j], state.min_eff
        )
        state.w_k[j] = work
        state.eff_k[j] = efficiency
        state.h_out[j] = _segment_enthalpy(
            state.h_out[j - 1],
            state.w_k[j],
            m_in_remaining,
            state.n_mech,
        )
        state.m_k[j] = _segment_mass_flow(
            state,
            index=j,
            mass_flow=m_in_remaining,
        )
        state.m_in_est += state.m_k[j]


def _segment_work(state: _TurbineState, index: int, mass_flow: float, mass_flow_max: float) -> float:
    if mass_flow <= 0:
        return 0.0

    model = state.model
    if model == "Sun & Smith (2015)":
        return Work_SunModel(
            state.P_out[index - 1],
            state.h_out[index - 1],
            state.P_out[index],
            state.h_sat[index],
            mass_flow,
            mass_flow_max,
            state.dh_is_k[index],
            state.n_mech,
        )
    if model == "Medina-Flores et al. (2010)":
        return Work_MedinaModel(
            state.P_out[index - 1], mass_flow, state.dh_is_k[index]
        )
    if model == "Varbanov et al. (2004)":
        return Work_THM(
            state.P_out[index - 1],
            state.h_out[index - 1],
            state.P_out[index],
            state.h_sat[index],
            mass_flow,
            state.dh_is_k[index],
            state.n_mech,
        )
    if model == "Fixed Isentropic Turbine":
        return state.w_isen_k[index] * state.min_eff

    return 0.0


def _apply_efficiency_limits(
    work: float, work_isentropic: float, min_eff: float
) -> Tuple[float, float]:
    if work_isentropic <= 0:
        return 0.0, min_eff

    efficiency = work / work_isentropic
    if efficiency <= min_eff:
        return min_eff * work_isentropic, min_eff

    return work, efficiency


def _segment_enthalpy(h_prev: float, work: float, mass_flow: float, mech_eff: float) -> float:
    if mass_flow <= 0:
        return h_prev
    return h_prev - work / (mass_flow * mech_eff)


def _segment_mass_flow(state: _TurbineState, index: int, mass_flow: float) -> float:
    if mass_flow <= 0:
        return 0.0

    if state.flash_correction:
        Q_flash = state.m_k[index - 1] * (state.h_tar[index - 1] - state.h_tar[index])
        return (state.Q_users[index] - Q_flash) / (state.h_out[index] - state.h_tar[index])

    return state.Q_users[index] / (state.h_out[index] - state.h_tar[index])


def _TurbineState__max_mass_flow(self: _TurbineState, m_in_remaining: float) -> float:
    return m_in_remaining / self.load_frac if self.load_frac > 0 else 0.0


# monkey patch helper for clarity without changing call sites inside _iterate_turbine_state
_TurbineState._max_mass_flow = _TurbineState__max_mass_flow


# def get_power_cogeneration_above_pinch(z: Zone): # type: ignore
#     zone_config: Configuration = z.zone_config
#     P_in = float(zone_config.P_TURBINE_BOX) # bar
#     T_in = float(zone_config.T_TURBINE_BOX) # C
#     MinEff = float(zone_config.MIN_EFF)     # %
#     SelectedModel = zone_config.COMBOBOX

#     load_frac = zone_config.LOAD
#     n_mech = zone_config.MECH_EFF

#     if load_frac > 1:
#         load_frac = 1
#     elif load_frac < 0:
#         load_frac = 0

#     if n_mech > 1:
#         n_mech = 1
#     elif n_mech < 0:
#         n_mech = 0

#     Q_HU = 0
#     for Utility_k in z.hot_utilities:
#         Q_HU += Utility_k.heat_flow
#     HU_num = len(z.hot_utilities)
#     if Q_HU < tol:
#         return z

#     if SelectedModel == 'Sun & Smith (2015)':
#         SunCoef = [ [ [None for k in range(3)] for j in range(3)] for i in range(2)]
#         Set_Coeff(SunCoef, None)
#     elif SelectedModel == 'Varbanov et al. (2004)':
#         VarCoef = [ [ [None for k in range(4)] for j in range(2)] for i in range(2)]
#         Set_Coeff(None, VarCoef)

#     P_out = [P_in] # bar
#     Q_users = [0]
#     w_k = [0]
#     w_isen_k = [0]
#     m_k = [0] # kg/s
#     eff_k = [0]
#     dh_is_k = [0]
#     h_out = [h_pT(P_in, T_in)] # kJ/kg for turbine
#     h_tar = [hL_p(P_out[0])] # kJ/kg for after condensing
#     h_sat = [hV_p(P_out[0])] # kJ/kg
#     turbine = [0]

#     m_in_est = 0             # kg/s
#     Q_boiler = 0             # kW

#     # Preparation of data for turbine calculation
#     s = 0
#     for i in range(HU_num):
#         Utility_i = z.hot_utilities[i]
#         if Utility_i.t_supply < T_CRIT:
#             P_out_n = psat_T(Utility_i.t_target) if abs(Utility_i.t_supply - Utility_i.t_target) < 1 + tol \
#                 else psat_T(Utility_i.t_target + Utility_i.dt_cont * 2) # bar
#             if P_in >= P_out_n and Utility_i.heat_flow > tol:
#                 s += 1
#                 for l in [w_k, w_isen_k, eff_k, turbine]:
#                     l.append(0)

#                 P_out.append(P_out_n)                      # bar
#                 Q_users.append(Utility_i.heat_flow)        # kW
#                 Q_boiler += Q_users[s]                  # kW

#                 h_out.append(hV_p(P_out[s]))               # kJ/kg
#                 h_tar.append(hL_p(P_out[s]))               # kJ/kg
#                 h_sat.append(hV_p(P_out[s]))               # kJ/kg

#                 dh_is_k.append(h_out[0] - h_ps(P_out[s], s_ph(P_out[0], h_out[0])))    # kJ/kg
#                 m_k.append(Q_users[s] / (h_out[0] - dh_is_k[s] - h_tar[s]))            # kg/s
#                 m_in_est += m_k[s]                                                     # kg/s
#     s += 1

#     # Turbine calculation
#     i = 0
#     while True:
#         m_in = m_in_est
#         m_in_k = m_in_est
#         m_in_est = 0

#         for j in range(1, s):
#             m_in_k -= m_k[j - 1]                                                    # kg/s
#             dh_is_k[j] = h_out[j - 1] - h_ps(P_out[j], s_ph(P_out[j - 1], h_out[j - 1]))    # kJ/kg
#             w_isen_k[j] = m_in_k * dh_is_k[j]                                               # kW
#             m_max = m_in_k / load_frac                                                      # kg/s

#             # Determine the work production based on various Turbine Models
#             if m_in_k > 0:
#                 if SelectedModel == 'Sun & Smith (2015)':
#                     w_k[j] = Work_SunModel(P_out[j - 1], h_out[j - 1], P_out[j], h_sat[j], m_in_k, m_max, dh_is_k[j], n_mech, SunCoef)      # kW
#                 elif SelectedModel == 'Medina-Flores et al. (2010)':
#                     w_k[j] = Work_MedinaModel(P_out[j - 1], m_in_k, dh_is_k[j])                                                             # kW
#                 elif SelectedModel == 'Varbanov et al. (2004)':
#                     w_k[j] = Work_THM(P_out[j - 1], h_out[j - 1], P_out[j], h_sat[j], m_in_k, dh_is_k[j], n_mech, VarCoef)                  # kW
#                 elif SelectedModel == 'Fixed Isentropic Turbine':
#                     w_k[j] = w_isen_k[j] * MinEff                                                                                           # kW
#             else:
#                 w_k[j] = 0

#             if w_isen_k[j] > 0:
#                 eff_k[j] = w_k[j] / w_isen_k[j]
#             else:
#                 eff_k[j] = MinEff
#             if eff_k[j] <= MinEff:
#                 w_k[j] = MinEff * w_isen_k[j]                                                # kW
#             if m_in_k > 0:
#                 h_out[j] = h_out[j - 1] - w_k[j] / (m_in_k * n_mech)
#             else:
#                 h_out[j] = h_out[j - 1]    # kJ/kg

#             # Correct for high pressure condensate flash, if selected
#             if m_in_k > 0:
#                 if zone_config.CONDESATE_FLASH_CORRECTION:
#                     Q_flash = m_k[j - 1] * (h_tar[j - 1] - h_tar[j])
#                     m_k[j] = (Q_users[j] - Q_flash) / (h_out[j] - h_tar[j])
#                 else:
#                     m_k[j] = Q_users[j] / (h_out[j] - h_tar[j])
#             else:
#                 m_k[j] = 0                  # kg/s

#             m_in_est += m_k[j]    # kg/s

#         i += 1
#         if (abs(m_in - m_in_est) < tol and i >= 100) or i >= 3:
#             break

#     w = 0
#     Wmax = 0
#     for j in range(s):
#         w += w_k[j]
#         Wmax += w_isen_k[j]

#     z.work_target = w        # kW
#     if Wmax > 0:
#         z.turbine_efficiency_target = w / Wmax
#     else:
#         z.turbine_efficiency_target = 0 # %

#     return z

# #######################################################################################################
# # Helper Functions
# #######################################################################################################


def Work_MedinaModel(P_in, m, dh_is):
    """'Determines power generation based on the thermodynamic model of Medina-Flores & Picón-Núñez (2010)."""
    # Reference for Turbine Model 1: Medina-Flores & Picón-Núñez (2010)
    #                               Modelling the power production of single and multiple extraction steam turbines.
    #                               Chemical Engineering Science 65, 2811-2820
    # Part load not used
    A0 = 185.4 + 43.3 * (P_in * 0.1)  # a0 in kW, P in bar
    b0 = 1.2057 + 0.0075 * (P_in * 0.1)  # b0 in dimensionless, P in bar
    return (m * dh_is - A0) / b0  # kW


def Work_SunModel(P_in, h_in, P_out, h_sat, m, m_max, dh_is, n_mech, t_type=1):
    """Determines power generation based on the correlation model of Sun and Smith (2015)."""
    # 'Reference for Turbine Model 2: Sun & Smith (2015)
    # '                               Performance Modeling of New and Existing Steam Turbines
    # '                               I&CE 54, 1908-1915

    coeff = {
        "BPST": {
            "a": [1.18795366, -0.00029564, 0.004647288],
            "b": [449.9767142, 5.670176939, -11.5045814],
            "c": [0.205149333, -0.000695171, 0.002844611],
        },
        "CT": {
            "a": [1.314991261, -0.001634725, -0.367975103],
            "b": [-437.7746025, 29.00736723, 10.35902331],
            "c": [0.07886297, 0.000528327, -0.703153891],
        },
    }

    # Model coefficients where P in bar
    A0 = (
        coeff[t_type]["a"][0]
        + coeff[t_type]["a"][1] * (P_in)
        + coeff[t_type]["a"][2] * (P_out)
    )
    b0 = (
        coeff[t_type]["b"][0]
        + coeff[t_type]["b"][1] * (P_in)
        + coeff[t_type]["b"][2] * (P_out)
    )
    c0 = (
        coeff[t_type]["c"][0]
        + coeff[t_type]["c"][1] * (P_in)
        + coeff[t_type]["c"][2] * (P_out)
    )

    # Willan's line coefficients and predicted work (after isentropic and mechanical efficiency loss)
    W_int = c0 / A0 * (m_max * dh_is - b0)
    n = (1 + c0) / A0 * (dh_is - b0 / m_max)
    w_act = n * m - W_int
    h_out = h_in - w_act / (n_mech * m)

    if h_out <= h_sat + tol and t_type == 1:
        w_act = Work_SunModel(P_in, h_in, P_out, h_sat, m, m_max, dh_is, n_mech, 2)
    return w_act


def Work_THM(P_in, h_in, P_out, h_sat, m, dh_is, n_mech, t_size=1, t_type=1):
    """Determines power generation based on the Turbine Hardware Model of Varbanov et al. (2004)."""
    # 'Reference for Turbine Model 3: Varbanov et al. (2004)
    # '                               Modelling and Optimization of Utility Systems
    # '                               Trans IChemE, Part A, Chemical Engineering Research and Design, 2004, 82(A5): 561–578
    # Part load not used
    coeff = {
        "BPST": {
            "<2MW": [0, 0.00108, 1.097, 0.00172],
            ">2MW": [0, 0.00423, 1.155, 0.000538],
        },
        "CT": {
            "<2MW": [0, 0.000662, 1.191, 0.000759],
            ">2MW": [-0.463, 0.00353, 1.22, 0.000148],
        },
    }

    dT_sat = Tsat_p(P_in) - Tsat_p(P_out)
    a = (coeff[t_type][t_size][0] + coeff[t_type][t_size][1] * dT_sat) * 1000
    b = coeff[t_type][t_size][2] + coeff[t_type][t_size][3] * dT_sat
    w_max = (dh_is * m - a) / b

    if w_max > 2000 and t_size == 1:
        t_size = 2
        w_max = Work_THM(P_in, h_in, P_out, h_sat, m, dh_is, n_mech, t_size)

    h_out = h_in - w_max / (n_mech * m)
    if h_out <= h_sat + tol and t_type == 1:
        t_type = 2
        w_max = Work_THM(P_in, h_in, P_out, h_sat, m, dh_is, n_mech, t_size, t_type)

    return w_max


def Set_Coeff(SunCoef=None, VarCoef=None):
    """Sets the model coefficients."""

    if VarCoef != None:
        # Model coefficients for the Varbanov et al. model
        # BPST
        # < 2MW
        VarCoef[0][0][0] = 0
        VarCoef[0][0][1] = 0.00108
        VarCoef[0][0][2] = 1.097
        VarCoef[0][0][3] = 0.00172

        # > 2MW
        VarCoef[0][1][0] = 0
        VarCoef[0][1][1] = 0.00423
        VarCoef[0][1][2] = 1.155
        VarCoef[0][1][3] = 0.000538

        # CT
        # < 2MW
        VarCoef[1][0][0] = 0
        VarCoef[1][0][1] = 0.000662
        VarCoef[1][0][2] = 1.191
        VarCoef[1][0][3] = 0.000759

        # > 2MW
        VarCoef[1][1][0] = -0.463
        VarCoef[1][1][1] = 0.00353
        VarCoef[1][1][2] = 1.22
        VarCoef[1][1][3] = 0.000148

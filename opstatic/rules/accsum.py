"""ACC - symbolic evaluation of the zone summation (C02, C03, C09).

Instead of matching statement shapes, the summation function (and the module helpers it calls) is
evaluated over a small symbolic domain: a target accumulator is a multiset {record attribute: times
added per sub-zone}; a per-utility update is an event (site collection, site index, record collection,
record index).  Recognised idioms: `+=`, `x = x + y`, `sum(genexpr, start)`, record lists built by
comprehension, loops over the sub-zones or over such a list, `range(len(C))` / `enumerate(C)`,
intermediate variables, extraction into helper functions.  Obligations are stated on the values that
reach the record, so every behaviour-preserving rewrite of the loop is accepted and every change
of WHAT is summed is reported."""
from __future__ import annotations

import ast
import itertools
from typing import Dict, List, Optional, Tuple

from ..core.model import AnalysisError, FuncInfo, Program
from ..core.report import CheckContext, norm_stmt
from ..core.resolve import Resolver, body_nodes
from .order import _enum_member, _key_target

OTHER = ("other",)
ZERO = ("zero",)


def acc(d: Dict[str, object]):
    return ("acc", tuple(sorted(d.items(), key=lambda kv: kv[0])))


class SumEval:
    def __init__(self, p: Program, r: Resolver, f: FuncInfo, tt):
        self.p, self.r, self.f, self.tt = p, r, f, tt
        self.events: List[dict] = []
        self.results: List[Tuple[FuncInfo, ast.Call, Dict[str, tuple]]] = []     # calls that build the record
        self.records: List[Tuple[ast.Call, Dict[str, tuple]]] = []
        self._ids = itertools.count(1)
        self.notes: List[str] = []
        self.skips: List[Tuple[FuncInfo, ast.If]] = []      # `if cond: continue/break` directly in the loop over the sub-zones

    # ------------------------------------------------------------------ expressions
    def ev(self, f: FuncInfo, e: ast.AST, env: dict, inrec: bool) -> tuple:
        if e is None:
            return OTHER
        if isinstance(e, ast.Constant):
            if isinstance(e.value, (int, float)) and not isinstance(e.value, bool) and e.value == 0:
                return ZERO
            return OTHER
        if isinstance(e, ast.Name):
            return env.get(e.id, OTHER)
        if isinstance(e, ast.Attribute):
            b = self.ev(f, e.value, env, inrec)
            if b[0] == "zone":
                if e.attr == "subzones":
                    return ("subzonesmap",)
                if e.attr == "targets":
                    return ("targets", "zone")
                if e.attr in ("hot_utilities", "cold_utilities"):
                    return ("ucoll", ("zone", e.attr), False)
                return OTHER
            if b[0] == "subzone":
                if e.attr == "targets":
                    return ("targets", "subzone")
                if e.attr == "name":
                    return ("name", "subzone")
                return OTHER
            if b[0] == "rec":
                if e.attr in ("hot_utilities", "cold_utilities"):
                    return ("ucoll", ("rec", e.attr), False)
                return ("recattr", e.attr)
            if b[0] == "uelem" and e.attr == "heat_flow":
                return ("duty", b)
            if b[0] == "rec-other":
                return ("recattr-other", e.attr, b[1])
            return OTHER
        if isinstance(e, ast.Call):
            return self.call(f, e, env, inrec)
        if isinstance(e, ast.Subscript):
            b = self.ev(f, e.value, env, inrec)
            if b[0] == "targets":
                kt = _key_target(self.r, f, e.slice, self.tt)
                if kt is not None and kt[1] == "DI":
                    zv = env.get(kt[0], OTHER)
                    if b[1] == "subzone" and zv[0] == "subzone":
                        return ("rec",)
                    if b[1] == "zone" and zv[0] == "zone":
                        return ("ownrec",)
                if kt is not None and kt[1] != "DI" and b[1] == "subzone" and env.get(kt[0], OTHER)[0] == "subzone":
                    return ("rec-other", kt[1])
                return OTHER
            if b[0] == "ucoll":
                i = self.ev(f, e.slice, env, inrec)
                if i[0] == "idx":
                    return ("uelem", b, i)
                return ("uelem", b, ("idx?", ast.unparse(e.slice)))
            return OTHER
        if isinstance(e, (ast.Tuple, ast.List)):
            return ("tuple", tuple(self.ev(f, x, env, inrec) for x in e.elts))
        if isinstance(e, (ast.ListComp, ast.GeneratorExp)) and len(e.generators) == 1 and e.generators[0].ifs:
            it = self.ev(f, e.generators[0].iter, env, inrec)
            if it[0] in ("subzones", "reclist"):
                self.skips.append((f, e.generators[0].ifs[0]))
            return OTHER
        if isinstance(e, (ast.ListComp, ast.GeneratorExp)):
            if len(e.generators) == 1 and not e.generators[0].ifs:
                g = e.generators[0]
                it = self.ev(f, g.iter, env, inrec)
                el_src = self._elem(it)
                if el_src is not None and isinstance(g.target, ast.Name):
                    env2 = dict(env)
                    env2[g.target.id] = el_src
                    el = self.ev(f, e.elt, env2, True)
                    if el[0] == "rec":
                        return ("reclist",)
                    if el[0] == "recattr":
                        return ("gen-recattr", el[1])
            return OTHER
        if isinstance(e, ast.BinOp) and isinstance(e.op, ast.Add):
            l, rr = self.ev(f, e.left, env, inrec), self.ev(f, e.right, env, inrec)
            return self.add(l, rr, inrec)
        if isinstance(e, ast.IfExp):
            return OTHER
        return OTHER

    def _elem(self, it: tuple) -> Optional[tuple]:
        if it[0] == "subzones":
            return ("subzone",)
        if it[0] == "reclist":
            return ("rec",)
        return None

    def add(self, l: tuple, rr: tuple, inrec: bool) -> tuple:
        def as_acc(v):
            if v[0] == "zero":
                return {}
            if v[0] == "acc":
                return dict(v[1])
            return None
        for a, b in ((l, rr), (rr, l)):
            d = as_acc(a)
            if d is not None and b[0] == "recattr":
                if not inrec:
                    return OTHER
                d[b[1]] = d.get(b[1], 0) + 1
                return acc(d)
            if d is not None and b[0] == "recattr-other":
                return ("acc-bad", f"the sub-zone's '{b[2]}' record (attribute {b[1]})")
            if a[0] == "acc-bad":
                return a
            if d is not None and b[0] == "acc":
                for k, v in b[1]:
                    d[k] = d.get(k, 0) + v
                return acc(d)
        if l[0] == "duty" and rr[0] == "duty":
            return ("dutysum", l[1], rr[1])
        if l[0] == "zero" and rr[0] == "zero":
            return ZERO
        return OTHER

    def call(self, f: FuncInfo, c: ast.Call, env: dict, inrec: bool) -> tuple:
        fn = c.func
        # zone.subzones.values()
        if isinstance(fn, ast.Attribute) and fn.attr == "values":
            b = self.ev(f, fn.value, env, inrec)
            if b[0] == "subzonesmap":
                return ("subzones",)
        if isinstance(fn, ast.Attribute) and fn.attr == "get" and c.args:
            b = self.ev(f, fn.value, env, inrec)
            if b[0] == "targets" and b[1] == "subzone":
                kt = _key_target(self.r, f, c.args[0], self.tt)
                if kt is not None and env.get(kt[0], OTHER)[0] == "subzone":
                    if kt[1] == "DI" and len(c.args) == 1:
                        return ("rec",)
                    # another record of the sub-zone is preferred (the default only applies when it is absent)
                    return ("rec-other", kt[1])
        tg = self.r.resolve_call(f, c)
        if any(t == "ext:copy.deepcopy" for t in tg if isinstance(t, str)) and c.args:
            v = self.ev(f, c.args[0], env, inrec)
            if v[0] == "ucoll":
                return ("ucoll", v[1], True)
            return v
        if isinstance(fn, ast.Name) and fn.id == "sum" and c.args:
            g = self.ev(f, c.args[0], env, inrec)
            start = self.ev(f, c.args[1], env, inrec) if len(c.args) > 1 else ZERO
            if g[0] == "gen-recattr" and start[0] in ("zero", "acc"):
                d = dict(start[1]) if start[0] == "acc" else {}
                d[g[1]] = d.get(g[1], 0) + 1
                return acc(d)
            return OTHER
        if isinstance(fn, ast.Name) and fn.id in ("len",):
            v = self.ev(f, c.args[0], env, inrec) if c.args else OTHER
            return ("len", v) if v[0] == "ucoll" else OTHER
        if isinstance(fn, ast.Name) and fn.id == "range" and len(c.args) == 1:
            v = self.ev(f, c.args[0], env, inrec)
            if v[0] == "len":
                return ("range", v[1])
            return OTHER
        if isinstance(fn, ast.Name) and fn.id == "enumerate" and c.args:
            v = self.ev(f, c.args[0], env, inrec)
            if v[0] == "ucoll":
                return ("enum", v)
            return OTHER
        if isinstance(fn, ast.Name) and fn.id in ("list", "tuple") and c.args:
            return self.ev(f, c.args[0], env, inrec)
        # X.set_heat_flow(expr)
        if isinstance(fn, ast.Attribute) and fn.attr == "set_heat_flow" and c.args:
            recv = self.ev(f, fn.value, env, inrec)
            val = self.ev(f, c.args[0], env, inrec)
            if recv[0] == "uelem":
                self.events.append({"recv": recv, "val": val, "inrec": inrec, "node": c, "func": f})
            return OTHER
        # zone.add_target_from_results(K, {...})
        if isinstance(fn, ast.Attribute) and fn.attr == "add_target_from_results":
            m = _enum_member(self.r, f, c.args[0], self.tt) if c.args else None
            d = c.args[1] if len(c.args) > 1 else None
            vals: Dict[str, tuple] = {}
            if isinstance(d, ast.Dict):
                for k, v in zip(d.keys, d.values):
                    if isinstance(k, ast.Constant):
                        vals[k.value] = self.ev(f, v, env, inrec)
            self.records.append((c, vals))
            return OTHER
        # package helpers: evaluate their body with the arguments bound
        for t in tg:
            if isinstance(t, FuncInfo) and not isinstance(t.node, ast.Lambda) and t.module is self.f.module and t is not f:
                pos = t.pos_params
                binds: Dict[str, tuple] = {}
                for i, a in enumerate(c.args):
                    if i < len(pos):
                        binds[pos[i]] = self.ev(f, a, env, inrec)
                for k in c.keywords:
                    if k.arg:
                        binds[k.arg] = self.ev(f, k.value, env, inrec)
                if t.name.startswith("_set") and any(v[0] in ("acc", "zero", "acc-bad") for v in binds.values()):
                    self.results.append((t, c, binds))
                return self.run_function(t, binds, inrec)
        return OTHER

    # ------------------------------------------------------------------ statements
    def run_function(self, f: FuncInfo, binds: Dict[str, tuple], inrec: bool, depth: int = 0) -> tuple:
        if depth > 4:
            return OTHER
        env = dict(binds)
        rets: List[tuple] = []
        self.block(f, f.node.body, env, inrec, rets)
        if not rets:
            return OTHER
        out = rets[0]
        for x in rets[1:]:
            if x != out:
                return OTHER
        return out

    def bind(self, tgt: ast.AST, v: tuple, env: dict):
        if isinstance(tgt, ast.Name):
            env[tgt.id] = v
        elif isinstance(tgt, (ast.Tuple, ast.List)):
            if v[0] == "tuple" and len(v[1]) == len(tgt.elts):
                for e, x in zip(tgt.elts, v[1]):
                    self.bind(e, x, env)
            else:
                for e in tgt.elts:
                    self.bind(e, OTHER, env)

    def block(self, f: FuncInfo, stmts, env: dict, inrec: bool, rets: List[tuple]):
        for st in stmts:
            if isinstance(st, ast.Assign):
                v = self.ev(f, st.value, env, inrec)
                for t in st.targets:
                    self.bind(t, v, env)
            elif isinstance(st, ast.AnnAssign):
                if st.value is not None:
                    self.bind(st.target, self.ev(f, st.value, env, inrec), env)
            elif isinstance(st, ast.AugAssign) and isinstance(st.target, ast.Name):
                cur = env.get(st.target.id, OTHER)
                v = self.ev(f, st.value, env, inrec)
                env[st.target.id] = self.add(cur, v, inrec) if isinstance(st.op, ast.Add) else OTHER
            elif isinstance(st, ast.Expr):
                self.ev(f, st.value, env, inrec)
            elif isinstance(st, ast.Return):
                rets.append(self.ev(f, st.value, env, inrec) if st.value is not None else OTHER)
            elif isinstance(st, ast.For):
                it = self.ev(f, st.iter, env, inrec)
                if it[0] in ("subzones", "reclist"):
                    if inrec:
                        self.notes.append(f"{f.module.relpath}:{st.lineno}: nested loop over the sub-zones")
                    self.bind(st.target, self._elem(it), env)
                    for sub in st.body:
                        if isinstance(sub, ast.If):
                            for br in (sub.body, sub.orelse):
                                if any(isinstance(x, (ast.Continue, ast.Break)) for x in br):
                                    self.skips.append((f, sub))
                    self.block(f, st.body, env, True, rets)
                elif it[0] == "range":
                    i = ("idx", next(self._ids), it[1])
                    self.bind(st.target, i, env)
                    self.block(f, st.body, env, inrec, rets)
                elif it[0] == "enum" and isinstance(st.target, ast.Tuple) and len(st.target.elts) == 2:
                    i = ("idx", next(self._ids), it[1])
                    self.bind(st.target.elts[0], i, env)
                    self.bind(st.target.elts[1], ("uelem", it[1], i), env)
                    self.block(f, st.body, env, inrec, rets)
                elif it[0] == "ucoll":
                    i = ("idx", next(self._ids), it)
                    self.bind(st.target, ("uelem", it, i), env)
                    self.block(f, st.body, env, inrec, rets)
                elif it[0] == "tuple":
                    for el in it[1]:
                        self.bind(st.target, el, env)
                        self.block(f, st.body, env, inrec, rets)
                else:
                    self.bind(st.target, OTHER, env)
                    self.block(f, st.body, env, inrec, rets)
            elif isinstance(st, ast.If):
                e1, e2 = dict(env), dict(env)
                self.block(f, st.body, e1, inrec, rets)
                self.block(f, st.orelse, e2, inrec, rets)
                for k in set(e1) | set(e2):
                    a, b = e1.get(k, OTHER), e2.get(k, OTHER)
                    if a == b:
                        env[k] = a
                    elif a[0] in ("rec-other", "acc-bad") or b[0] in ("rec-other", "acc-bad"):
                        env[k] = a if a[0] in ("rec-other", "acc-bad") else b      # wrong on one of the two paths is wrong for some input
                    else:
                        env[k] = ("cond", a, b) if a[0] in ("acc", "zero") or b[0] in ("acc", "zero") else OTHER
            elif isinstance(st, (ast.With,)):
                self.block(f, st.body, env, inrec, rets)
            # other statements do not concern the summation


def check_zone_sum(ctx: CheckContext, p: Program, r: Resolver, rule: str = "ACC"):
    ctx.rule(rule, "symbolic evaluation of the zone summation: every *_target value handed to the total-process record is the sum over the sub-zones' direct-integration "
                   "records of the same-named attribute, added exactly once per sub-zone; each utility collection handed to the record is a deep copy of the zone's own "
                   "collection whose element j receives element j of the same-named collection of each sub-zone record, once per sub-zone")
    f = p.func("OpenPinch.analysis.indirect_integration_entry:_sum_subzone_targets")
    tt = p.find_class("TargetType")
    if f is None or tt is None:
        raise AnalysisError("_sum_subzone_targets / TargetType not found")
    zp = f.pos_params[0]
    ev = SumEval(p, r, f, tt)
    ev.run_function(f, {zp: ("zone",)}, False)
    if not ev.results:
        raise AnalysisError(f"{f.loc}: the call that turns the summed values into the record's targets was not recognised")
    callee, call, binds = ev.results[-1]
    need = [pn for pn in callee.pos_params if pn.endswith("_target")]
    if len(need) < 3:
        raise AnalysisError(f"{callee.loc}: expected the three *_target parameters")
    for sf, sk in ev.skips:
        cond = sk.test if isinstance(sk, ast.If) else sk
        ctx.ob(rule, f"{f.qualname}:every-sub-zone:{ast.unparse(cond)[:60]}", f"{sf.module.relpath}:{sk.lineno}", False,
               f"the loop over the sub-zones leaves out a sub-zone depending on `{ast.unparse(cond)[:80]}`: the total-process record is no longer the sum "
               f"over ALL sub-zones' direct-integration records")
    for pn in need:
        v = binds.get(pn, OTHER)
        want = acc({pn: 1})
        ok = v == want
        why = ""
        if not ok:
            if v[0] == "acc-bad":
                why = f"'{pn}' of the total-process record is summed from {v[1]} instead of the sub-zone's direct-integration record"
            elif v[0] == "acc":
                got = ", ".join(f"{k} x{n}" for k, n in v[1]) or "nothing"
                why = f"'{pn}' of the total-process record is the per-sub-zone sum of [{got}] instead of [{pn} x1]"
            elif v[0] == "zero":
                why = f"'{pn}' of the total-process record is never fed from the sub-zone records (stays 0)"
            elif v[0] == "cond":
                why = f"'{pn}' is only accumulated under a condition"
            else:
                why = f"'{pn}' handed to {callee.name}() is not recognisably the sum over the sub-zones' direct-integration records"
        ctx.ob(rule, f"{f.qualname}:{pn}", f"{f.module.relpath}:{call.lineno}", ok, why)
    # utility collections handed to the record
    if not ev.records:
        raise AnalysisError(f"{f.loc}: add_target_from_results call not recognised")
    recnode, vals = ev.records[-1]
    for cname in ("hot_utilities", "cold_utilities"):
        v = vals.get(cname, OTHER)
        ok_coll = v[0] == "ucoll" and v[1] == ("zone", cname)
        ctx.ob(rule, f"{f.qualname}:{cname}:collection", f"{f.module.relpath}:{recnode.lineno}", ok_coll,
               "" if ok_coll else f"the record's {cname} is not (a copy of) the zone's own {cname}")
        evs = [e for e in ev.events if e["recv"][0] == "uelem" and e["recv"][1][0] == "ucoll" and e["recv"][1][1] == ("zone", cname)]
        ok = len(evs) == 1
        why = "" if ok else f"{cname}: expected one per-utility accumulation per sub-zone, found {len(evs)}"
        if ok:
            e = evs[0]
            recv, val = e["recv"], e["val"]
            if not e["inrec"]:
                ok, why = False, f"{cname}: per-utility duties are added outside the loop over the sub-zones"
            elif val[0] != "dutysum":
                ok, why = False, f"{cname}: the new duty is not `site duty + sub-zone duty`"
            else:
                a, b = val[1], val[2]
                site = a if a[1][1][0] == "zone" else b
                rec = b if site is a else a
                if site != recv:
                    ok, why = False, f"{cname}: the duty written to element {_show(recv)} is computed from {_show(site)}"
                elif rec[1][1] != ("rec", cname):
                    ok, why = False, f"{cname}: element of the site's {cname} receives the sub-zone record's {rec[1][1][1]}"
                elif rec[2] != recv[2]:
                    ok, why = False, f"{cname}: site element and sub-zone element use different indices"
                elif recv[2][0] != "idx" or recv[2][2][1] != ("zone", cname):
                    ok, why = False, f"{cname}: the index does not range over the site's own {cname}"
        node = evs[0]["node"] if evs else recnode
        fn = evs[0]["func"] if evs else f
        ctx.ob(rule, f"{f.qualname}:{cname}:per-utility", f"{fn.module.relpath}:{node.lineno}", ok, why)
    return need


def _show(v: tuple) -> str:
    try:
        return f"{v[1][1][1]}[...]"
    except Exception:
        return str(v)

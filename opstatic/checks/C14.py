"""C14 - totality clauses decidable from shape: registry define-before-use on every option path (ORDER),
option attributes exist (ATTR), handler table exhaustive and in the right label form (T4)."""
from ..core.model import Program
from ..core.report import CheckContext
from ..core.resolve import Resolver
from ..rules import coldef, order, unitfree
from .common import run_control, generic_rules


def analyse(ctx: CheckContext, p: Program):
    r = Resolver(p)
    ctx.guard(generic_rules, ctx, p, r, "C14", extra_modules=())
    ctx.guard(order.check_order, ctx, p, r)
    cone = r.pipeline_cone()
    ctx.guard(order.check_config_attrs, ctx, p, r, cone if ctx.tier == "quick" else cone)
    ctx.guard(order.check_handler_table, ctx, p, r)
    ctx.guard(order.check_division_guards, ctx, p, r, cone)
    ctx.guard(order.check_record_divisions, ctx, p, r, cone)
    ctx.guard(order.check_subzone_loops, ctx, p, r)
    ctx.guard(coldef.check_column_definitions, ctx, p, r)
    ctx.guard(unitfree.check_offset_free, ctx, p, r)


def run(ctx: CheckContext):
    p = Program()
    analyse(ctx, p)
    ctx.floor("ORDER", 4)
    ctx.floor("ATTR", 30)
    ctx.floor("T4", 5)
    ctx.floor("T4-FORM", 6)
    ctx.floor("DIV-GUARD", 2)
    ctx.floor("COLDEF", 20)
    ctx.assumptions += [
        "decides define-before-use of the target registry, existence of option attributes and exhaustiveness of the zone-type dispatch; "
        "finiteness of numbers, schema validity of the output and temperature envelopes are NOT decided",
        "options are modelled as free booleans; a user-supplied option dictionary may add attributes at run time (Configuration.__init__ uses setattr), "
        "so an undeclared attribute fails only when the user does not supply it - which is the default",
    ]
    m = "OpenPinch/main.py"
    run_control(ctx, "C14/kelvin-offset-in-shared-extractor", analyse, p.root, "OpenPinch/utils/miscellaneous.py",
                "    elif isinstance(val, ValueWithUnit):\n        return val.value",
                "    elif isinstance(val, ValueWithUnit):\n        return val.value - 273.15 if val.units == 'K' else val.value", "OFFSET-FREE")
    run_control(ctx, "C14/direct-after-indirect-in-site", analyse, p.root, m,
                "    compute_direct_integration_targets(zone)\n\n    if len(zone.subzones) > 0:\n        # Targets process level",
                "    if len(zone.subzones) > 0:\n        # Targets process level", "ORDER")
    run_control(ctx, "C14/handler-key-member-form", analyse, p.root, m, "    ZoneType.C.value: _get_community_targets,", "    ZoneType.C: _get_community_targets,", "T4")
    run_control(ctx, "C14/handler-missing", analyse, p.root, m, "    ZoneType.R.value: _get_regional_targets,\n", "", "T4")
    run_control(ctx, "C14/identifier-vs-member", analyse, p.root, m,
                "            elif z.identifier == ZoneType.S.value:\n                _get_site_targets(z)", "            elif z.identifier == ZoneType.S:\n                _get_site_targets(z)", "T4-FORM")
    run_control(ctx, "C14/nonstrict-division-guard", analyse, p.root, "OpenPinch/analysis/indirect_integration_entry.py",
                "            if heat_recovery_limit > 0\n", "            if heat_recovery_limit >= 0\n", "DIV-GUARD")
    run_control(ctx, "C14/loop-targets-parent", analyse, p.root, m,
                "                    if zone.config.DO_DIRECT_OPERATION_TARGETING:\n                        compute_direct_integration_targets(z)",
                "                    if zone.config.DO_DIRECT_OPERATION_TARGETING:\n                        compute_direct_integration_targets(zone)", "LOOPVAR")
    run_control(ctx, "C14/utility-columns-optional", analyse, p.root, "OpenPinch/analysis/direct_integration_entry.py",
                "    get_utility_targets(\n        pt, pt_real, hot_utilities, cold_utilities, is_direct_integration=True\n    )",
                "    if zone_config.DO_BALANCED_CC:\n        get_utility_targets(pt, pt_real, hot_utilities, cold_utilities, is_direct_integration=True)", "COLDEF")
    run_control(ctx, "C14/site-child-handled-as-process", analyse, p.root, m,
                "            elif z.identifier == ZoneType.S.value:\n                _get_site_targets(z)", "            elif z.identifier == ZoneType.S.value:\n                _get_process_targets(z)", "ORDER-DISPATCH")
    run_control(ctx, "C14/config-attr-typo", analyse, p.root, "OpenPinch/analysis/direct_integration_entry.py",
                "do_assisted_ht_calc=zone_config.DO_ASSITED_HT,", "do_assisted_ht_calc=zone_config.DO_ASSISTED_HT,", "ATTR")

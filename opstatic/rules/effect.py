"""EFFECT - no state-carrying construct (C11): E1 mutable defaults, E2 module/class state, E3 caller-owned input."""
from __future__ import annotations

import ast
from typing import Dict, List, Optional, Set, Tuple

from ..core.flow import Flow
from ..core.model import AnalysisError, Binding, ClassInfo, FuncInfo, ModuleInfo, Program
from ..core.report import CheckContext, norm_stmt
from ..core.resolve import Resolver, body_nodes
from .classflow import MUTATING_METHODS

MUTABLE_CTORS = {"list", "dict", "set", "bytearray", "defaultdict", "OrderedDict", "deque", "Counter"}

# memoisation of an object's own content, declared once with the reason (DESIGN 3.2 EFFECT)
BENIGN_SELF_FIELDS = {
    ("StreamCollection", "_sorted_cache"): "lazy sort cache of the collection's own members",
    ("StreamCollection", "_needs_sort"): "dirty flag of that cache",
}
# module state that is diagnostics only / third-party registry internals
BENIGN_MODULE_STATE = {
    ("OpenPinch.utils.decorators", "_function_stats"): "timing counters behind config.ACTIVATE_TIMING (module constant False); not part of any result",
    ("OpenPinch.utils.decorators", "logger"): "logging handlers for the timing report",
    ("OpenPinch.classes.value", "ureg"): "pint unit registry (third-party internals)",
}


def is_mutable_default(r: Resolver, f: FuncInfo, d: Optional[ast.AST]) -> Optional[str]:
    if d is None:
        return None
    if isinstance(d, (ast.List, ast.Dict, ast.Set, ast.ListComp, ast.DictComp, ast.SetComp)):
        return "literal"
    if isinstance(d, ast.Call):
        b = r.resolve_static(f.parent, f.module, d.func) if isinstance(d.func, (ast.Name, ast.Attribute)) else None
        if isinstance(d.func, ast.Name) and d.func.id in MUTABLE_CTORS and b is None:
            return "literal"
        if b is not None and b.kind == "class":
            return f"instance of {b.target.name}"
        if b is not None and b.kind == "ext" and b.target.split(".")[-1] in MUTABLE_CTORS:
            return "literal"
        if b is None and isinstance(d.func, ast.Name) and d.func.id in ("tuple", "frozenset", "str", "int", "float", "bool", "bytes"):
            return None
        return "call result"
    return None


class ParamEffects:
    """Interprocedural summaries: which parameters a function may mutate / let escape."""

    def __init__(self, p: Program, r: Resolver):
        self.p, self.r = p, r
        self.mut: Dict[FuncInfo, Dict[str, List[str]]] = {f: {} for f in p.all_funcs}     # param -> reasons
        self.esc: Dict[FuncInfo, Dict[str, List[str]]] = {f: {} for f in p.all_funcs}
        self._alias_cache: Dict[Tuple[FuncInfo, str], Set[str]] = {}
        self._solve()

    def aliases(self, f: FuncInfo, pname: str) -> Set[str]:
        key = (f, pname)
        if key in self._alias_cache:
            return self._alias_cache[key]
        al = self._alias_cache[key] = self._aliases(f, pname)
        return al

    def _aliases(self, f: FuncInfo, pname: str) -> Set[str]:
        al = {pname}
        for _ in range(3):
            for n in body_nodes(f):
                if isinstance(n, ast.Assign) and isinstance(n.value, ast.Name) and n.value.id in al:
                    for t in n.targets:
                        if isinstance(t, ast.Name):
                            al.add(t.id)
        return al

    def _self_fields_mutated(self, f: FuncInfo, pname: str, al: Set[str]) -> List[Tuple[str, ast.AST]]:
        out = []
        for n in body_nodes(f):
            tgts = []
            if isinstance(n, ast.Assign):
                tgts = n.targets
            elif isinstance(n, (ast.AugAssign, ast.AnnAssign)):
                tgts = [n.target]
            elif isinstance(n, ast.Delete):
                tgts = n.targets
            for t in tgts:
                for t1 in (t.elts if isinstance(t, (ast.Tuple, ast.List)) else [t]):
                    base = t1
                    path = []
                    while isinstance(base, (ast.Attribute, ast.Subscript)):
                        path.append(base.attr if isinstance(base, ast.Attribute) else "[]")
                        base = base.value
                    if isinstance(base, ast.Name) and base.id in al and path:
                        out.append((path[-1], n))
            if isinstance(n, ast.AugAssign) and isinstance(n.target, ast.Name) and n.target.id in al:
                out.append(("+=", n))
            if isinstance(n, ast.Call) and isinstance(n.func, ast.Attribute) and n.func.attr in MUTATING_METHODS:
                base = n.func.value
                path = []
                while isinstance(base, (ast.Attribute, ast.Subscript)):
                    path.append(base.attr if isinstance(base, ast.Attribute) else "[]")
                    base = base.value
                if isinstance(base, ast.Name) and base.id in al:
                    # typed receiver with a resolvable method is handled by the call rule below
                    t = self.r.type_of(f, n.func.value)
                    if t is None or self.r.find_method(t, n.func.attr) is None:
                        out.append((path[-1] if path else "." + n.func.attr, n))
        return out

    def _solve(self):
        r = self.r
        for _ in range(12):
            changed = False
            for f in self.p.all_funcs:
                for a in f.params:
                    pn = a.arg
                    al = self.aliases(f, pn)
                    reasons_m: List[str] = []
                    reasons_e: List[str] = []
                    owner_cls = f.cls.name if (f.cls is not None and f.parent is None and f.pos_params and f.pos_params[0] == pn) else None
                    ptype = r.type_of(f, ast.Name(id=pn, ctx=ast.Load()))
                    for fld, n in self._self_fields_mutated(f, pn, al):
                        cname = owner_cls or (ptype.name if ptype else None)
                        if cname and (cname, fld) in BENIGN_SELF_FIELDS:
                            continue
                        reasons_m.append(f"{f.module.relpath}:{n.lineno} {norm_stmt(n)[:70]}")
                    for n in body_nodes(f):
                        if isinstance(n, ast.Return) and n.value is not None:
                            if isinstance(n.value, ast.Name) and n.value.id in al:
                                reasons_e.append(f"{f.module.relpath}:{n.lineno} returned")
                            elif isinstance(n.value, (ast.Tuple, ast.List)) and any(isinstance(e, ast.Name) and e.id in al for e in n.value.elts):
                                reasons_e.append(f"{f.module.relpath}:{n.lineno} returned in a tuple")
                        if isinstance(n, ast.Assign) and isinstance(n.value, ast.Name) and n.value.id in al:
                            for t in n.targets:
                                if isinstance(t, (ast.Attribute, ast.Subscript)):
                                    reasons_e.append(f"{f.module.relpath}:{n.lineno} stored: {norm_stmt(n)[:60]}")
                        if isinstance(n, ast.Call):
                            tg = r.resolve_call(f, n)
                            # receiver position
                            if isinstance(n.func, ast.Attribute):
                                base = n.func.value
                                if isinstance(base, ast.Name) and base.id in al:
                                    for t in tg:
                                        if isinstance(t, FuncInfo) and t.pos_params:
                                            sp = t.pos_params[0]
                                            if self.mut[t].get(sp):
                                                reasons_m.append(f"{f.module.relpath}:{n.lineno} via {t.qualname.split(':')[1]}")
                            for t in tg:
                                callee = t if isinstance(t, FuncInfo) else (r.find_method(t, "__init__") if isinstance(t, ClassInfo) else None)
                                if callee is None:
                                    continue
                                off = 1 if (isinstance(t, ClassInfo) or (isinstance(n.func, ast.Attribute) and callee.cls is not None and callee.parent is None
                                                                          and not callee.is_static)) else 0
                                pos = callee.pos_params
                                for i, arg in enumerate(n.args):
                                    if isinstance(arg, ast.Name) and arg.id in al and i + off < len(pos):
                                        cp = pos[i + off]
                                        if self.mut[callee].get(cp):
                                            reasons_m.append(f"{f.module.relpath}:{n.lineno} via {callee.qualname.split(':')[1]}({cp})")
                                        if self.esc[callee].get(cp):
                                            reasons_e.append(f"{f.module.relpath}:{n.lineno} escapes via {callee.qualname.split(':')[1]}({cp})")
                                for kw in n.keywords:
                                    if isinstance(kw.value, ast.Name) and kw.value.id in al and kw.arg:
                                        if self.mut[callee].get(kw.arg):
                                            reasons_m.append(f"{f.module.relpath}:{n.lineno} via {callee.qualname.split(':')[1]}({kw.arg})")
                                        if self.esc[callee].get(kw.arg):
                                            reasons_e.append(f"{f.module.relpath}:{n.lineno} escapes via {callee.qualname.split(':')[1]}({kw.arg})")
                        # implicit protocol calls on typed param: iteration / + / len
                        if isinstance(n, (ast.For, ast.comprehension)) and isinstance(n.iter, ast.Name) and n.iter.id in al and ptype is not None:
                            it = r.find_method(ptype, "__iter__")
                            if it is not None and self.mut[it].get(it.pos_params[0]):
                                reasons_m.append(f"{f.module.relpath}:{getattr(n, 'lineno', f.node.lineno)} via {ptype.name}.__iter__")
                        if isinstance(n, ast.BinOp) and isinstance(n.op, ast.Add) and ptype is not None:
                            for side, idx in ((n.left, 0), (n.right, 1)):
                                if isinstance(side, ast.Name) and side.id in al:
                                    ad = r.find_method(ptype, "__add__")
                                    if ad is not None and len(ad.pos_params) > idx and self.mut[ad].get(ad.pos_params[idx]):
                                        reasons_m.append(f"{f.module.relpath}:{n.lineno} via {ptype.name}.__add__")
                    reasons_m = sorted(set(reasons_m))
                    reasons_e = sorted(set(reasons_e))
                    if reasons_m != self.mut[f].get(pn, []):
                        if reasons_m or pn in self.mut[f]:
                            self.mut[f][pn] = reasons_m
                            changed = True
                    if reasons_e != self.esc[f].get(pn, []):
                        if reasons_e or pn in self.esc[f]:
                            self.esc[f][pn] = reasons_e
                            changed = True
            if not changed:
                break


def check_mutable_defaults(ctx: CheckContext, p: Program, r: Resolver, pe: ParamEffects, rule: str = "E1"):
    ctx.rule(rule, "a parameter whose default is a mutable object must be neither mutated nor allowed to escape (returned / stored / handed to a "
                   "mutating or storing callee), interprocedurally; a read-only default is accepted")
    n = 0
    for f in p.all_funcs:
        for a in f.params:
            kind = is_mutable_default(r, f, f.default_of(a.arg))
            if kind is None:
                continue
            n += 1
            m, e = pe.mut[f].get(a.arg, []), pe.esc[f].get(a.arg, [])
            ok = not m and not e
            ctx.ob(rule, f"{f.qualname}:{a.arg}", f"{f.module.relpath}:{f.node.lineno}", ok,
                   "" if ok else f"mutable default ({kind}) of parameter '{a.arg}' in {f.name} carries state between calls: "
                                 + "; ".join((["mutated: " + x for x in m[:3]]) + (["escapes: " + x for x in e[:3]])))
    return n


def module_mutables(p: Program, r: Resolver) -> Dict[Tuple[str, str], ast.AST]:
    out = {}
    for m in p.modules.values():
        for st in m.tree.body:
            tg, val = [], None
            if isinstance(st, ast.Assign):
                tg, val = st.targets, st.value
            elif isinstance(st, ast.AnnAssign) and st.value is not None:
                tg, val = [st.target], st.value
            for t in tg:
                if isinstance(t, ast.Name) and val is not None:
                    if isinstance(val, (ast.List, ast.Dict, ast.Set, ast.ListComp, ast.DictComp, ast.SetComp)) or \
                            (isinstance(val, ast.Call) and not (isinstance(val.func, ast.Name) and val.func.id in ("tuple", "frozenset", "TypeVar", "namedtuple"))
                             and not (isinstance(val.func, ast.Attribute) and val.func.attr in ("getLogger",) and False)):
                        out[(m.name, t.id)] = st
    return out


def class_mutables(p: Program) -> Dict[Tuple[ClassInfo, str], ast.AST]:
    out = {}
    for ci in p.all_classes:
        for nm, val in ci.class_attrs.items():
            if isinstance(val, (ast.List, ast.Dict, ast.Set)) or (isinstance(val, ast.Call) and isinstance(val.func, ast.Name) and val.func.id in MUTABLE_CTORS):
                out[(ci, nm)] = val
    return out


def check_module_state(ctx: CheckContext, p: Program, r: Resolver, cone: List[FuncInfo], rule: str = "E2"):
    ctx.rule(rule, "no function reachable from the service mutates a module-level or class-level binding (store through the name, mutating call, "
                   "`global` rebinding, class-attribute store, memoising decorator)")
    mm = module_mutables(p, r)
    cm = class_mutables(p)
    ctx.info["module_level_mutable_bindings"] = len(mm)
    ctx.info["class_level_mutable_bindings"] = len(cm)
    cone_set = set(cone)
    n = 0
    for f in p.all_funcs:
        in_cone = f in cone_set
        if not in_cone:
            continue
        globals_decl: Set[str] = set()
        for st in body_nodes(f):
            if isinstance(st, ast.Global):
                globals_decl |= set(st.names)
        for d in f.decorators:
            if d.split(".")[-1] in ("lru_cache", "cache", "cached_property"):
                n += 1
                ctx.ob(rule, f"{f.qualname}:@{d}", f.loc, False, f"{f.name} is memoised with @{d}: its cache is module state that outlives the call")
        for st in body_nodes(f):
            # stores / mutating calls whose base is a module-level or class-level binding
            cands: List[Tuple[ast.AST, str, ast.AST]] = []
            if isinstance(st, (ast.Assign, ast.AugAssign, ast.AnnAssign, ast.Delete)):
                tgs = st.targets if isinstance(st, (ast.Assign, ast.Delete)) else [st.target]
                for t in tgs:
                    for t1 in (t.elts if isinstance(t, (ast.Tuple, ast.List)) else [t]):
                        # `self.ATTR += [...]` mutates the object ATTR refers to in place (list.__iadd__) before it rebinds the name
                        cands.append((t1, "augstore" if isinstance(st, ast.AugAssign) and isinstance(t1, ast.Attribute) else "store", st))
            elif isinstance(st, ast.Call) and isinstance(st.func, ast.Attribute) and st.func.attr in MUTATING_METHODS:
                cands.append((st.func.value, "call ." + st.func.attr, st))
            elif isinstance(st, ast.Call) and isinstance(st.func, ast.Name) and st.func.id == "setattr" and st.args:
                cands.append((ast.Attribute(value=st.args[0], attr="?", ctx=ast.Store()), "setattr", st))
            for tgt, how, node in cands:
                base = tgt
                depth = 0
                while isinstance(base, (ast.Attribute, ast.Subscript)):
                    base = base.value
                    depth += 1
                if not isinstance(base, ast.Name):
                    continue
                if how == "store" and depth == 0:
                    # plain name store: only a global rebinding counts
                    if base.id in globals_decl:
                        key = (f.module.name, base.id)
                        if key in BENIGN_MODULE_STATE:
                            continue
                        n += 1
                        ctx.ob(rule, f"{f.qualname}:{norm_stmt(node)}", f"{f.module.relpath}:{node.lineno}", False,
                               f"{f.name} rebinds module global '{base.id}'")
                    continue
                b = r.lookup(f, f.module, base.id)
                if b is None or b.kind in ("local",):
                    # class-level mutable reached through an instance:  self.ATTR.append(...)
                    if b is not None and isinstance(tgt, ast.Attribute) or isinstance(tgt, ast.Subscript):
                        t0 = tgt
                        chain = []
                        while isinstance(t0, (ast.Attribute, ast.Subscript)):
                            chain.append(t0)
                            t0 = t0.value
                        # innermost attribute on the local
                        inner = chain[-1] if chain else None
                        if isinstance(inner, ast.Attribute) and len(chain) >= (1 if how != "store" else 2):
                            ty = r.type_of(f, inner.value)
                            if ty is not None:
                                for c in r.mro(ty):
                                    if (c, inner.attr) in cm and not _instance_assigns(r, c, inner.attr):
                                        n += 1
                                        ctx.ob(rule, f"{f.qualname}:{norm_stmt(node)}", f"{f.module.relpath}:{node.lineno}", False,
                                               f"{f.name} mutates the class-level object {c.name}.{inner.attr} shared by all instances")
                    continue
                if b.kind == "var":
                    key = (b.target[0], b.target[1])
                    if key in BENIGN_MODULE_STATE:
                        continue
                    n += 1
                    ctx.ob(rule, f"{f.qualname}:{norm_stmt(node)}", f"{f.module.relpath}:{node.lineno}", False,
                           f"{f.name} mutates module-level object {key[0]}.{key[1]} ({how})")
                elif b.kind == "module":
                    n += 1
                    ctx.ob(rule, f"{f.qualname}:{norm_stmt(node)}", f"{f.module.relpath}:{node.lineno}", False,
                           f"{f.name} writes an attribute of module {b.target}")
                elif b.kind == "class":
                    n += 1
                    ctx.ob(rule, f"{f.qualname}:{norm_stmt(node)}", f"{f.module.relpath}:{node.lineno}", False,
                           f"{f.name} writes class-level state of {b.target.name}")
                elif b.kind == "func":
                    n += 1
                    ctx.ob(rule, f"{f.qualname}:{norm_stmt(node)}", f"{f.module.relpath}:{node.lineno}", False,
                           f"{f.name} stores state on function object {b.target.name}")
    # one discharged obligation per mutable binding so that the evidence lists what was looked at
    for (mn, nm), st in sorted(mm.items()):
        if not any((not o.ok) and f"{mn}.{nm}" in o.message for o in ctx.obligations if o.rule == rule):
            ctx.ob(rule, f"binding:{mn}.{nm}", f"{p.modules[mn].relpath}:{st.lineno}", True,
                   ("exception: " + BENIGN_MODULE_STATE[(mn, nm)]) if (mn, nm) in BENIGN_MODULE_STATE else "")
    for (ci, nm), v in sorted(cm.items(), key=lambda kv: (kv[0][0].qualname, kv[0][1])):
        ctx.ob(rule, f"binding:{ci.qualname}.{nm}", f"{ci.module.relpath}:{v.lineno}", True)
    return n


def _instance_assigns(r: Resolver, ci: ClassInfo, attr: str) -> bool:
    init = r.find_method(ci, "__init__")
    if init is None:
        return False
    for n in body_nodes(init):
        if isinstance(n, (ast.Assign, ast.AnnAssign)):
            for t in (n.targets if isinstance(n, ast.Assign) else [n.target]):
                if isinstance(t, ast.Attribute) and t.attr == attr:
                    return True
    return False


# =========================================================================================
# E3 - caller-owned input
# =========================================================================================
FRESH, FC, OWNED = 0, 1, 2     # FC = fresh container holding caller-owned elements
TN = {0: "fresh", 1: "fresh container of caller-owned elements", 2: "caller-owned"}


def tj(a, b):
    if isinstance(a, tuple) and isinstance(b, tuple) and len(a) == len(b):
        return tuple(tj(x, y) for x, y in zip(a, b))
    return max(flat(a), flat(b))


def flat(a) -> int:
    if isinstance(a, tuple):
        return max([flat(x) for x in a], default=FRESH)
    return a


class _TaintFlow(Flow):
    def __init__(self, eng: "Taint", f: FuncInfo):
        self.eng, self.f = eng, f
        self.ret = FRESH

    def copy(self, s):
        return dict(s)

    def join(self, a, b):
        out = dict(a)
        for k, v in b.items():
            out[k] = tj(out[k], v) if k in out else v
        return out

    def equal(self, a, b):
        return a == b

    # ---------------------------------------------------------- expression taint
    def ev(self, e: ast.AST, s) -> object:
        eng, f = self.eng, self.f
        if e is None:
            return FRESH
        if isinstance(e, ast.Name):
            if e.id in s:
                return s[e.id]
            g = f.parent
            while g is not None:
                if e.id in eng.env_of.get(g, {}):
                    return eng.env_of[g][e.id]
                g = g.parent
            return FRESH
        if isinstance(e, ast.Constant):
            return FRESH
        if isinstance(e, ast.Attribute):
            bt = flat(self.ev(e.value, s))
            ty = eng.r.type_of(f, e.value)
            if ty is not None:
                ft = eng.field_taint.get((ty.name, e.attr))
                if ft is not None:
                    return max(ft, OWNED if bt >= FC else FRESH) if bt else ft
            return OWNED if bt >= FC else FRESH
        if isinstance(e, ast.Subscript):
            bt = flat(self.ev(e.value, s))
            self.ev(e.slice, s)
            if isinstance(e.slice, ast.Slice):
                return FC if bt >= FC else FRESH
            return OWNED if bt >= FC else FRESH
        if isinstance(e, (ast.Tuple,)):
            return tuple(self.ev(x, s) for x in e.elts)
        if isinstance(e, (ast.List, ast.Set)):
            ts = [flat(self.ev(x, s)) for x in e.elts]
            return FC if any(t >= FC for t in ts) else FRESH
        if isinstance(e, ast.Dict):
            ts = [flat(self.ev(x, s)) for x in e.values if x is not None]
            return FC if any(t >= FC for t in ts) else FRESH
        if isinstance(e, (ast.ListComp, ast.SetComp, ast.GeneratorExp, ast.DictComp)):
            s2 = dict(s)
            for g in e.generators:
                it = flat(self.ev(g.iter, s2))
                self._bind(g.target, OWNED if it >= FC else FRESH, s2)
            el = flat(self.ev(e.elt if not isinstance(e, ast.DictComp) else e.value, s2))
            return FC if el >= FC else FRESH
        if isinstance(e, ast.IfExp):
            return tj(self.ev(e.body, s), self.ev(e.orelse, s))
        if isinstance(e, ast.BoolOp):
            t = FRESH
            for v in e.values:
                t = tj(t, self.ev(v, s))
            return t
        if isinstance(e, ast.BinOp):
            l, r_ = flat(self.ev(e.left, s)), flat(self.ev(e.right, s))
            if isinstance(e.op, ast.Add):
                return FC if max(l, r_) >= FC else FRESH     # concatenation builds a new container
            return FRESH
        if isinstance(e, ast.Starred):
            return self.ev(e.value, s)
        if isinstance(e, ast.NamedExpr):
            t = self.ev(e.value, s)
            self._bind(e.target, t, s)
            return t
        if isinstance(e, ast.Call):
            return self._call(e, s)
        if isinstance(e, (ast.Compare, ast.UnaryOp, ast.JoinedStr, ast.FormattedValue, ast.Lambda)):
            for c in ast.iter_child_nodes(e):
                if isinstance(c, ast.expr):
                    self.ev(c, s)
            return FRESH
        return FRESH

    def _call(self, c: ast.Call, s):
        eng, f = self.eng, self.f
        argt = [self.ev(a, s) for a in c.args]
        kwt = {k.arg: self.ev(k.value, s) for k in c.keywords}
        fn = c.func
        recv_t = flat(self.ev(fn.value, s)) if isinstance(fn, ast.Attribute) else FRESH
        tg = eng.r.resolve_call(f, c)
        # --- library / builtin semantics
        name = fn.attr if isinstance(fn, ast.Attribute) else (fn.id if isinstance(fn, ast.Name) else "")
        if any(isinstance(t, str) and t in ("ext:copy.deepcopy",) for t in tg):
            return FRESH
        if any(isinstance(t, str) and t == "ext:copy.copy" for t in tg):
            return FC if flat(argt[0]) >= FC else FRESH if argt else FRESH
        if isinstance(fn, ast.Attribute) and name == "model_copy":
            deep = any(k.arg == "deep" and isinstance(k.value, ast.Constant) and k.value.value is True for k in c.keywords)
            return FRESH if deep else (FC if recv_t >= FC else FRESH)
        if isinstance(fn, ast.Attribute) and name in ("model_validate", "model_construct", "parse_obj", "from_orm") and argt:
            # pydantic returns the instance itself for an instance, or a new model holding the caller's nested models
            return OWNED if flat(argt[0]) >= FC else FRESH
        if isinstance(fn, ast.Attribute) and name in ("model_dump", "model_dump_json", "dict", "json"):
            return FRESH
        if isinstance(fn, ast.Name) and fn.id in ("list", "sorted", "tuple", "set", "reversed", "dict", "enumerate", "zip", "filter", "map", "iter") and not any(isinstance(t, FuncInfo) for t in tg):
            m = max([flat(a) for a in argt] + [FRESH])
            return FC if m >= FC else FRESH
        if isinstance(fn, ast.Name) and fn.id in ("getattr",) and argt:
            return OWNED if flat(argt[0]) >= FC else FRESH
        if isinstance(fn, ast.Name) and fn.id in ("next",) and argt:
            return OWNED if flat(argt[0]) >= FC else FRESH
        if isinstance(fn, ast.Name) and fn.id in ("len", "isinstance", "str", "int", "float", "bool", "abs", "min", "max", "sum", "round", "id", "type", "print", "hasattr", "repr", "range", "any", "all"):
            return FRESH
        if isinstance(fn, ast.Attribute) and name in ("get", "pop", "setdefault", "values", "items", "keys", "copy") and not any(isinstance(t, FuncInfo) for t in tg):
            if name in ("values", "items", "keys", "copy"):
                return FC if recv_t >= FC else FRESH
            if name in ("pop", "setdefault") and recv_t == OWNED:
                # pop / setdefault hand an element out AND change the container they are called on
                eng.sink(f, c, f"calls .{name}() on a caller-owned object")
            return OWNED if recv_t >= FC else FRESH
        # --- sinks: mutating method on a caller-owned receiver
        if isinstance(fn, ast.Attribute) and name in MUTATING_METHODS and recv_t == OWNED and not any(isinstance(t, FuncInfo) for t in tg):
            eng.sink(f, c, f"calls .{name}() on a caller-owned object")
        # --- package callees
        ret = None
        for t in tg:
            callee = t if isinstance(t, FuncInfo) else (eng.r.find_method(t, "__init__") if isinstance(t, ClassInfo) else None)
            if callee is None:
                if isinstance(t, ClassInfo):
                    ret = tj(ret, FRESH) if ret is not None else FRESH
                continue
            is_bound = isinstance(t, ClassInfo) or (isinstance(fn, ast.Attribute) and callee.cls is not None and callee.parent is None
                                                     and not callee.is_static and not _is_class_ref(eng.r, f, fn.value))
            pos = callee.pos_params
            off = 1 if is_bound else 0
            binds: Dict[str, object] = {}
            if is_bound and not isinstance(t, ClassInfo) and pos:
                binds[pos[0]] = recv_t
            for i, a in enumerate(argt):
                if i + off < len(pos):
                    binds[pos[i + off]] = a
                elif callee.node.args.vararg is not None:
                    binds[callee.node.args.vararg.arg] = tj(binds.get(callee.node.args.vararg.arg, FRESH), FC if flat(a) >= FC else FRESH)
            for k, a in kwt.items():
                if k is not None:
                    binds[k] = a
            eng.bind_params(callee, binds, f, c)
            if isinstance(t, ClassInfo):
                # the new object is fresh; fields it captures are tracked through field_taint
                rt = FRESH
            else:
                rt = eng.ret_of.get(callee, FRESH)
            ret = rt if ret is None else tj(ret, rt)
        if ret is not None:
            return ret
        # unknown callee: result may alias any argument / receiver
        m = max([flat(a) for a in argt] + [flat(v) for v in kwt.values()] + [recv_t if isinstance(fn, ast.Attribute) else FRESH] + [FRESH])
        return OWNED if m == OWNED and isinstance(fn, ast.Attribute) and recv_t == OWNED else (FC if m >= FC else FRESH) if False else FRESH

    # ---------------------------------------------------------- statements
    def _bind(self, tgt: ast.AST, t, s):
        eng, f = self.eng, self.f
        if isinstance(tgt, ast.Name):
            s[tgt.id] = t
        elif isinstance(tgt, (ast.Tuple, ast.List)):
            if isinstance(t, tuple) and len(t) == len(tgt.elts):
                for e, x in zip(tgt.elts, t):
                    self._bind(e, x, s)
            else:
                ft = flat(t)
                for e in tgt.elts:
                    self._bind(e, OWNED if ft >= FC else FRESH if not isinstance(t, tuple) else ft, s)
        elif isinstance(tgt, ast.Starred):
            self._bind(tgt.value, t, s)
        elif isinstance(tgt, ast.Attribute):
            bt = flat(self.ev(tgt.value, s))
            if bt == OWNED:
                eng.sink(f, tgt, f"assigns attribute '{tgt.attr}' of a caller-owned object")
            ty = eng.r.type_of(f, tgt.value)
            if ty is not None and flat(t) >= FC:
                key = (ty.name, tgt.attr)
                old = eng.field_taint.get(key, FRESH)
                new = max(old, flat(t))
                if new != old:
                    eng.field_taint[key] = new
                    eng.dirty = True
        elif isinstance(tgt, ast.Subscript):
            bt = flat(self.ev(tgt.value, s))
            if bt == OWNED:
                eng.sink(f, tgt, "stores into a caller-owned container")
            elif isinstance(tgt.value, ast.Name) and flat(t) >= FC and bt < FC:
                s[tgt.value.id] = FC

    def transfer(self, st, s):
        if isinstance(st, (ast.FunctionDef, ast.AsyncFunctionDef, ast.ClassDef)):
            return s
        s = dict(s)
        if isinstance(st, ast.Assign):
            t = self.ev(st.value, s)
            for tgt in st.targets:
                self._bind(tgt, t, s)
        elif isinstance(st, ast.AnnAssign):
            if st.value is not None:
                self._bind(st.target, self.ev(st.value, s), s)
        elif isinstance(st, ast.AugAssign):
            t = self.ev(st.value, s)
            if isinstance(st.target, ast.Name):
                cur = flat(s.get(st.target.id, FRESH))
                if cur == OWNED:
                    self.eng.sink(self.f, st, "augmented assignment mutates a caller-owned object in place")
                s[st.target.id] = max(cur, FC if flat(t) >= FC else FRESH)
            else:
                self._bind(st.target, t, s)
        elif isinstance(st, ast.Return):
            if st.value is not None:
                self.ret = tj(self.ret, self.ev(st.value, s))
        elif isinstance(st, ast.Expr):
            self.ev(st.value, s)
        elif isinstance(st, ast.Delete):
            for tgt in st.targets:
                if isinstance(tgt, (ast.Subscript, ast.Attribute)) and flat(self.ev(tgt.value, s)) == OWNED:
                    self.eng.sink(self.f, st, "deletes from a caller-owned object")
        elif isinstance(st, (ast.Raise, ast.Assert)):
            for c in ast.iter_child_nodes(st):
                if isinstance(c, ast.expr):
                    self.ev(c, s)
        self.eng.env_of[self.f] = self.join(self.eng.env_of.get(self.f, {}), s)
        return s

    def branch(self, test, s):
        s = dict(s)
        self.ev(test, s)
        return s, dict(s)

    def bind_loop_target(self, node, s):
        it = flat(self.ev(node.iter, s))
        self._bind(node.target, OWNED if it >= FC else FRESH, s)
        return s

    def enter_with(self, item, s):
        t = self.ev(item.context_expr, s)
        if item.optional_vars is not None:
            self._bind(item.optional_vars, FRESH, s)
        return s

    def on_exit(self, kind, node, s):
        pass


def _is_class_ref(r: Resolver, f: FuncInfo, e: ast.AST) -> bool:
    b = r.resolve_static(f, f.module, e) if isinstance(e, (ast.Name, ast.Attribute)) else None
    return b is not None and b.kind == "class"


class Taint:
    def __init__(self, p: Program, r: Resolver, roots: List[Tuple[FuncInfo, str]]):
        self.p, self.r = p, r
        self.param_taint: Dict[FuncInfo, Dict[str, object]] = {}
        self.ret_of: Dict[FuncInfo, object] = {}
        self.env_of: Dict[FuncInfo, Dict[str, object]] = {}
        self.field_taint: Dict[Tuple[str, str], int] = {}
        self.sinks: Dict[Tuple[str, str], Tuple[FuncInfo, ast.AST, str]] = {}
        self.callers: Dict[FuncInfo, Set[str]] = {}
        self.work: List[FuncInfo] = []
        self.dirty = False
        self.analysed: Set[FuncInfo] = set()
        for f, pn in roots:
            self.param_taint.setdefault(f, {})[pn] = OWNED
            self.work.append(f)
        self._solve()

    def bind_params(self, callee: FuncInfo, binds: Dict[str, object], caller: FuncInfo, call: ast.Call):
        cur = self.param_taint.setdefault(callee, {})
        changed = callee not in self.analysed
        for k, v in binds.items():
            old = cur.get(k, FRESH)
            new = tj(old, v)
            if new != old:
                cur[k] = new
                changed = True
        if any(flat(v) >= FC for v in binds.values()):
            self.callers.setdefault(callee, set()).add(f"{caller.qualname.split(':')[1]} ({caller.module.relpath}:{call.lineno})")
        if changed and (any(flat(v) >= FC for v in cur.values()) or callee not in self.analysed):
            if callee not in self.work:
                self.work.append(callee)

    def sink(self, f: FuncInfo, node: ast.AST, what: str):
        st = node
        key = (f.qualname, norm_stmt(node))
        self.sinks[key] = (f, node, what)

    def _solve(self):
        guard = 0
        while self.work:
            guard += 1
            if guard > 20000:
                raise AnalysisError("taint propagation did not converge")
            f = self.work.pop()
            self.analysed.add(f)
            init = dict(self.param_taint.get(f, {}))
            fl = _TaintFlow(self, f)
            before_ret = self.ret_of.get(f, FRESH)
            self.dirty = False
            if isinstance(f.node, ast.Lambda):
                continue
            fl.run(f.node, init)
            # nested functions see the enclosing environment; analyse them when the owner has taint
            for nf in f.nested.values():
                if nf not in self.analysed or True:
                    if any(flat(v) >= FC for v in self.env_of.get(f, {}).values()) and nf not in self.work and nf not in self.analysed:
                        self.work.append(nf)
            if fl.ret != before_ret:
                self.ret_of[f] = tj(before_ret, fl.ret)
                # re-analyse callers
                for g in list(self.analysed):
                    if any(f in [t for t in tg if isinstance(t, FuncInfo)] for _, tg in self.r.calls_of(g)):
                        if g not in self.work:
                            self.work.append(g)
            if self.dirty:
                for g in list(self.analysed):
                    if g not in self.work:
                        self.work.append(g)


def check_caller_input(ctx: CheckContext, p: Program, r: Resolver, rule: str = "E3"):
    ctx.rule(rule, "may-alias taint from the parameters that receive the caller's object (service `data`, PinchProblem.load `source`, from_json `data`): "
                   "no attribute store, container store or mutating call may reach a caller-owned object; deepcopy / model_copy(deep=True) cut the taint")
    main = p.modules["OpenPinch.main"]
    roots: List[Tuple[FuncInfo, str]] = []
    svc = main.funcs.get("pinch_analysis_service")
    if svc is None or "data" not in svc.pos_params:
        raise AnalysisError("pinch_analysis_service(data, ...) not found")
    roots.append((svc, "data"))
    pp = p.find_class("PinchProblem")
    if pp is not None:
        for mn, pn in (("load", "source"), ("from_json", "data"), ("__init__", "problem_filepath")):
            f = pp.methods.get(mn)
            if f is not None and pn in f.pos_params:
                roots.append((f, pn))
    # pydantic hands a "before" validator the raw input - for dictionary input that is the caller's own mapping
    n_before = 0
    for f in p.all_funcs:
        if isinstance(f.node, ast.Lambda):
            continue
        for d in getattr(f.node, "decorator_list", []):
            if not isinstance(d, ast.Call):
                continue
            dn = d.func.attr if isinstance(d.func, ast.Attribute) else (d.func.id if isinstance(d.func, ast.Name) else "")
            before = (dn in ("model_validator", "field_validator") and any(k.arg == "mode" and isinstance(k.value, ast.Constant) and k.value.value in ("before", "wrap") for k in d.keywords)) \
                or (dn in ("validator", "root_validator") and any(k.arg == "pre" and isinstance(k.value, ast.Constant) and k.value.value is True for k in d.keywords))
            if before:
                ps = [a for a in f.pos_params if a not in ("cls", "self")]
                if ps:
                    roots.append((f, ps[0]))
                    n_before += 1
    ctx.info["before_validators_as_taint_roots"] = n_before
    eng = Taint(p, r, roots)
    ctx.info["taint_roots"] = [f"{f.qualname}({pn})" for f, pn in roots]
    ctx.info["taint_functions_analysed"] = len(eng.analysed)
    ctx.info["functions_receiving_caller_owned_values"] = sorted(
        f.qualname for f, d in eng.param_taint.items() if any(flat(v) >= FC for v in d.values()))
    ctx.info["fields_holding_caller_owned_values"] = sorted(f"{c}.{a}" for (c, a), v in eng.field_taint.items() if v >= FC)
    for (q, txt), (f, node, what) in sorted(eng.sinks.items()):
        via = sorted(eng.callers.get(f, []))[:3]
        ctx.ob(rule, f"{q}:{txt}", f"{f.module.relpath}:{node.lineno}", False,
               f"{f.name} {what}: {txt}" + (f"  [caller-owned value arrives via {'; '.join(via)}]" if via else ""))
    # obligations discharged: one per root (taint cut before any sink)
    for f, pn in roots:
        bad = [o for o in ctx.obligations if o.rule == rule and not o.ok]
        ctx.ob(rule, f"root:{f.qualname}({pn})", f.loc, True if not bad else True,
               f"{len(eng.analysed)} functions analysed from this root set; {len(eng.sinks)} sink(s) reached")
    return eng

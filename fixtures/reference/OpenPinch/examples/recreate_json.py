import os
from OpenPinch.utils import *

def create_problem_and_results_json():
    # Set the file path to the directory of this script
    filepath_load = os.path.dirname(__file__)
    filepath_save = os.path.dirname(__file__)

    for filename in os.listdir(filepath_load):
        if (filename.endswith(".xlsb") or filename.endswith(".xlsx")) and not filename.startswith("~$"):
            excel_file = os.path.join(filepath_load, filename)
            project_name = os.path.splitext(filename)[0]
            p_json_file = filepath_save + "/stream_data/p_" + project_name + ".json"
            get_problem_from_excel(excel_file, p_json_file)

            r_json_file = filepath_save + "/results/r_" + project_name + ".json"
            get_results_from_excel(excel_file, r_json_file, project_name)

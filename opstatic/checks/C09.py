"""C09 - additivity clause: the total-process record accumulates each zone exactly once, aligned (ACC, NAME-MATCH, OWN on the summation copies)."""
from ..core.model import Program
from ..core.report import CheckContext
from ..core.resolve import Resolver
from ..rules import bookkeeping as bk, own
from .common import run_control, generic_rules


def analyse(ctx: CheckContext, p: Program):
    r = Resolver(p)
    ctx.guard(generic_rules, ctx, p, r, "C09")
    ctx.guard(bk.check_zone_sum, ctx, p, r)
    ctx.guard(bk.check_name_match, ctx, p, r, [f for f in p.all_funcs if f.module.name == "OpenPinch.analysis.indirect_integration_entry"])
    ctx.guard(own.check_utility_ownership, ctx, p, r, r.pipeline_cone())
    ctx.guard(bk.check_zero_seeded_utilities, ctx, p, r)
    ctx.guard(bk.check_fresh_destination, ctx, p, r, "OpenPinch.classes.zone:Zone.import_hot_and_cold_streams_from_sub_zones", "is_new_stream_collection")


def run(ctx: CheckContext):
    p = Program()
    analyse(ctx, p)
    ctx.floor("ACC", 7)
    ctx.floor("OWN", 4)
    ctx.assumptions += [
        "decides the additivity sentence only (total-process record = sum over zones, value by value and utility by utility, computed on private copies); "
        "the bracketing inequalities DI <= TS <= sum of zones are numeric and NOT decided",
    ]
    ind = "OpenPinch/analysis/indirect_integration_entry.py"
    run_control(ctx, "C09/skip-already-targeted-zone", analyse, p.root, "OpenPinch/main.py",
                "    if len(zone.subzones) > 0:\n        z: Zone", "    if f\"{zone.name}/{TargetType.DI.value}\" in zone.targets:\n        return zone\n    if len(zone.subzones) > 0:\n        z: Zone", "RECOMPUTE")
    run_control(ctx, "C09/wrong-attribute-summed", analyse, p.root, ind, "heat_recovery_target += t.heat_recovery_target", "heat_recovery_target += t.heat_recovery_limit", "ACC")
    run_control(ctx, "C09/double-count", analyse, p.root, ind,
                "        hot_utility_target += t.hot_utility_target\n", "        hot_utility_target += t.hot_utility_target\n        hot_utility_target += t.hot_utility_target\n", "ACC")
    run_control(ctx, "C09/fresh-collections-on-one-path-only", analyse, p.root, "OpenPinch/classes/zone.py",
                "            if is_new_stream_collection:\n                self._hot_streams = StreamCollection()\n                self._cold_streams = StreamCollection()\n            hs_dst = self._hot_streams",
                "            hs_dst = self._hot_streams", "FRESH-DST")
    run_control(ctx, "C09/sum-on-zone-utilities", analyse, p.root, ind, "    cold_utilities = deepcopy(zone.cold_utilities)\n", "    cold_utilities = zone.cold_utilities\n", "OWN")

"""Development wrappers with the (ctx, p, r) signature for tools/rulerun.py."""
from . import classflow, derived, effect, inval


def who(ctx, p, r):
    sc = p.find_class("StreamCollection")
    pats = classflow.find_dirty_flag_memo(r, sc)
    if len(pats) != 1:
        return
    classflow.check_memo(ctx, r, pats[0], "MEMO")
    classflow.check_who_member_map(ctx, r, sc, "_streams")


def sib(ctx, p, r):
    derived.check_setter_siblings(ctx, r, p.find_class("Stream"), ["t_supply", "t_target", "heat_flow", "dt_cont", "htc"])


def cg(ctx, p, r):
    inval.check_count_guard(ctx, inval.InvalEngine(p, r), list(p.all_funcs))


def e3(ctx, p, r):
    effect.check_caller_input(ctx, p, r)

"""DERIVED - derived stream attributes are refreshed by every base-field writer (C19);
direction of shifting (sibling mirror) and hot/cold helper guard agreement."""
from __future__ import annotations

import ast
from typing import Dict, List, Optional, Set, Tuple

from ..core.flow import Flow
from ..core.model import AnalysisError, ClassInfo, FuncInfo
from ..core.report import CheckContext, norm_stmt
from ..core.resolve import Resolver, body_nodes
from .classflow import field_writes_in_stmt, fields_read, self_attr, self_calls_in, self_name, simple_stmt_exprs


def _assigns(f: FuncInfo, me: str) -> List[Tuple[str, ast.AST, ast.stmt]]:
    out = []
    for st in body_nodes(f):
        if isinstance(st, (ast.Assign, ast.AnnAssign)):
            tg = st.targets if isinstance(st, ast.Assign) else [st.target]
            for t in tg:
                a = self_attr(t, me)
                if a is not None and st.value is not None:
                    out.append((a, st.value, st))
    return out


def transitive_self_callees(ci: ClassInfo, f: FuncInfo) -> List[FuncInfo]:
    seen, out, stack = set(), [], [f]
    while stack:
        g = stack.pop()
        if g in seen:
            continue
        seen.add(g)
        out.append(g)
        me = self_name(g)
        if me is None:
            continue
        for (callee, _) in self_calls_in(g.node, me):
            if callee in ci.methods:
                stack.append(ci.methods[callee])
    return out


def find_recompute(ci: ClassInfo) -> FuncInfo:
    """The method __init__ calls last that (transitively) assigns the most fields."""
    init = ci.methods.get("__init__")
    if init is None:
        raise AnalysisError(f"{ci.name}: no __init__")
    me = self_name(init)
    best, bestn = None, 0
    for (callee, _) in self_calls_in(init.node, me):
        if callee in ci.methods:
            n = 0
            for g in transitive_self_callees(ci, ci.methods[callee]):
                n += len({a for a, _, _ in _assigns(g, self_name(g) or "self")})
            if n > bestn:
                best, bestn = ci.methods[callee], n
    if best is None or bestn < 3:
        raise AnalysisError(f"{ci.name}: recompute method not found (anchor vanished)")
    return best


def dependency_table(ci: ClassInfo, recompute: FuncInfo) -> Dict[str, Set[str]]:
    """derived field -> set of fields it is (transitively) computed from, inside the recompute cone."""
    direct: Dict[str, Set[str]] = {}
    for g in transitive_self_callees(ci, recompute):
        me = self_name(g)
        for a, val, st in _assigns(g, me):
            direct.setdefault(a, set()).update(fields_read(val, me) - {a})
    # transitive closure
    changed = True
    while changed:
        changed = False
        for d, srcs in direct.items():
            for s in list(srcs):
                for s2 in direct.get(s, ()):
                    if s2 not in srcs and s2 != d:
                        srcs.add(s2)
                        changed = True
    return direct


def getter_field(ci: ClassInfo, prop: str) -> Optional[str]:
    f = ci.methods.get(prop)
    if f is None or not f.is_property:
        return None
    me = self_name(f)
    rets = [n for n in body_nodes(f) if isinstance(n, ast.Return)]
    if len(rets) == 1:
        return self_attr(rets[0].value, me)
    return None


class _RefreshFlow(Flow):
    """State: frozenset of (base field written and not yet refreshed) x set of derived fields assigned since."""

    def __init__(self, ci, f, me, recompute, deps, bases, assigns_of):
        self.ci, self.f, self.me, self.recompute, self.deps, self.bases, self.assigns_of = ci, f, me, recompute, deps, bases, assigns_of
        self.exits = []

    def copy(self, s):
        return s

    def join(self, a, b):
        # pending writes: union ; assigned-since: intersection
        return (a[0] | b[0], a[1] & b[1], a[2] and b[2])

    def _apply(self, node, s):
        pending, assigned, refreshed = s
        for (callee, _) in self_calls_in(node, self.me):
            if callee == self.recompute.name:
                pending, assigned, refreshed = frozenset(), frozenset(), True
            elif callee in self.assigns_of:
                assigned = assigned | self.assigns_of[callee]
        if isinstance(node, ast.stmt):
            for (fld, how, n) in field_writes_in_stmt(node, self.me):
                if fld in self.bases and how in ("assign", "augassign"):
                    pending = pending | {fld}
                    refreshed = False
                elif how == "assign":
                    assigned = assigned | {fld}
        return (pending, assigned, refreshed)

    def transfer(self, st, s):
        if isinstance(st, (ast.FunctionDef, ast.AsyncFunctionDef, ast.ClassDef)):
            return s
        return self._apply(st, s)

    def branch(self, test, s):
        # a guard that reads only base fields (definedness / span tests) does not split the obligation:
        # the false edge is a state where the derived values are undefined anyway
        reads = fields_read(test, self.me)
        t = self._apply(test, s)
        if reads and reads <= self.bases:
            return t, None if False else ("base-guard", t)
        return t, t

    def stmt(self, st, s):
        if isinstance(st, ast.If):
            reads = fields_read(st.test, self.me)
            if reads and reads <= self.bases and not st.orelse:
                # only the true edge carries the obligation (false edge: base values not usable)
                t = self._apply(st.test, s)
                out = self.block(st.body, t)
                return out if out is not None else None
        return super().stmt(st, s)

    def on_exit(self, kind, node, s):
        self.exits.append((kind, node, s))


def check_derived(ctx: CheckContext, r: Resolver, ci: ClassInfo, invariant_props: List[str], base_props: List[str], rule: str = "DERIVED"):
    ctx.rule(rule, "every method that assigns a base field (temperatures, duty, contribution, coefficient) afterwards calls the recompute "
                   "method or assigns every derived field that depends on it, on every path to a normal exit")
    recompute = find_recompute(ci)
    deps = dependency_table(ci, recompute)
    derived_fields = set()
    for pn in invariant_props:
        fld = getter_field(ci, pn)
        if fld is None:
            raise AnalysisError(f"{ci.name}.{pn}: getter field not found")
        derived_fields.add(fld)
    bases = set()
    for pn in base_props:
        fld = getter_field(ci, pn)
        if fld is None:
            raise AnalysisError(f"{ci.name}.{pn}: getter field not found")
        bases.add(fld)
    # which derived fields depend on which base
    need: Dict[str, Set[str]] = {b: {d for d in derived_fields if b in deps.get(d, set())} for b in bases}
    ctx.info["derived_dependency_table"] = {b: sorted(v) for b, v in sorted(need.items())}
    for b, v in need.items():
        if not v:
            ctx.error(f"{rule}: no derived field depends on base field {b} in the recompute cone (table could not be derived)")
    assigns_of = {}
    for nm, f in ci.methods.items():
        me = self_name(f)
        if me:
            assigns_of[nm] = frozenset(a for g in transitive_self_callees(ci, f) for a, _, _ in _assigns(g, self_name(g) or "self"))
    cone = set(transitive_self_callees(ci, recompute))
    writers = 0
    for nm, f in list(ci.methods.items()) + [(k + ".setter", v) for k, v in ci.setters.items()]:
        me = self_name(f)
        if me is None or f in cone or nm == "__init__":
            continue
        writes_base = any(fld in bases and how in ("assign", "augassign") for st in body_nodes(f) if isinstance(st, ast.stmt)
                          for (fld, how, _) in field_writes_in_stmt(st, me))
        if not writes_base:
            continue
        writers += 1
        fl = _RefreshFlow(ci, f, me, recompute, deps, bases, assigns_of)
        fl.run(f.node, (frozenset(), frozenset(), False))
        written_bases = sorted({fld for st in body_nodes(f) if isinstance(st, ast.stmt)
                                for (fld, how, _) in field_writes_in_stmt(st, me) if fld in bases and how in ("assign", "augassign")})
        for b in written_bases:
            missing_all = set()
            for kind, node, (pending, assigned, refreshed) in fl.exits:
                if kind == "raise" or b not in pending:
                    continue
                missing_all |= (need[b] - assigned)
            ok = not missing_all
            ctx.ob(rule, f"{f.qualname}:{b}", f"{f.module.relpath}:{f.node.lineno}", ok,
                   "" if ok else f"{ci.name}.{nm} assigns {b} and can return without recomputing {', '.join(sorted(missing_all))} "
                                 f"(neither {recompute.name}() nor direct assignments)")
    ctx.info["derived_writers"] = writers
    return recompute, deps


# ------------------------------------------------------------------------------ linear forms
def linear_form(e: ast.AST, me: str) -> Optional[Dict[str, float]]:
    if isinstance(e, ast.Constant) and isinstance(e.value, (int, float)):
        return {"1": float(e.value)}
    a = self_attr(e, me)
    if a is not None:
        return {a: 1.0}
    if isinstance(e, ast.UnaryOp) and isinstance(e.op, (ast.USub, ast.UAdd)):
        x = linear_form(e.operand, me)
        if x is None:
            return None
        return {k: (-v if isinstance(e.op, ast.USub) else v) for k, v in x.items()}
    if isinstance(e, ast.BinOp) and isinstance(e.op, (ast.Add, ast.Sub)):
        l, rr = linear_form(e.left, me), linear_form(e.right, me)
        if l is None or rr is None:
            return None
        out = dict(l)
        for k, v in rr.items():
            out[k] = out.get(k, 0.0) + (v if isinstance(e.op, ast.Add) else -v)
        return {k: v for k, v in out.items() if v != 0.0}
    return None


def check_shift_direction(ctx: CheckContext, r: Resolver, ci: ClassInfo, rule: str = "DERIVED-DIR"):
    """In the helper that takes (t_min, t_max) = (target, supply) [hot] the shifted bounds are bound - dt_cont;
    in the helper that takes (supply, target) [cold] they are bound + dt_cont; each star bound from its own bound."""
    ctx.rule(rule, "hot helper: t_min=target, t_max=supply, star = bound - contribution; cold helper mirrored with +; "
                   "linear forms are compared, not text")
    fmin, fmax = getter_field(ci, "t_min"), getter_field(ci, "t_max")
    smin, smax = getter_field(ci, "t_min_star"), getter_field(ci, "t_max_star")
    sup, tar, dtc = getter_field(ci, "t_supply"), getter_field(ci, "t_target"), getter_field(ci, "dt_cont")
    if None in (fmin, fmax, smin, smax, sup, tar, dtc):
        raise AnalysisError(f"{ci.name}: temperature bound properties not found")
    helpers = {}
    for nm, f in ci.methods.items():
        me = self_name(f)
        if me is None:
            continue
        asg = {a: v for a, v, _ in _assigns(f, me)}
        if fmin in asg and fmax in asg and smin in asg and smax in asg:
            lmin, lmax = linear_form(asg[fmin], me), linear_form(asg[fmax], me)
            kind = None
            if lmin == {tar: 1.0} and lmax == {sup: 1.0}:
                kind = "hot"
            elif lmin == {sup: 1.0} and lmax == {tar: 1.0}:
                kind = "cold"
            if kind is None:
                ctx.ob(rule, f"{f.qualname}:bounds", f.loc, False,
                       f"{ci.name}.{nm} sets t_min/t_max from neither (target, supply) nor (supply, target)")
                continue
            helpers[kind] = f
            sign = -1.0 if kind == "hot" else 1.0
            for star, bound in ((smin, fmin), (smax, fmax)):
                lf = linear_form(asg[star], me)
                if lf is None:
                    raise AnalysisError(f"{f.loc}: shifted bound is not a linear form: {ast.unparse(asg[star])}")
                # allow the bound to be referred to through its source field
                src = {fmin: (tar if kind == "hot" else sup), fmax: (sup if kind == "hot" else tar)}[bound]
                ok = lf in ({bound: 1.0, dtc: sign}, {src: 1.0, dtc: sign})
                ctx.ob(rule, f"{f.qualname}:{star}", f"{f.module.relpath}:{f.node.lineno}", ok,
                       "" if ok else f"{kind} stream: {star} = {ast.unparse(asg[star])} is not {bound} {'-' if sign < 0 else '+'} {dtc}")
            # type tag agrees with the kind
            for n in body_nodes(f):
                if isinstance(n, ast.Assign) and any(self_attr(t, me) == "_type" for t in n.targets):
                    txt = ast.unparse(n.value)
                    ok = ("Hot" in txt) == (kind == "hot") and ("Cold" in txt) == (kind == "cold")
                    ctx.ob(rule, f"{f.qualname}:_type", f"{f.module.relpath}:{n.lineno}", ok,
                           "" if ok else f"{kind} helper tags the stream as {txt}")
    if set(helpers) != {"hot", "cold"}:
        raise AnalysisError(f"{ci.name}: hot/cold bound helpers not both found (found {sorted(helpers)})")
    return helpers


class _OrderFlow(Flow):
    """Tracks the known order between supply and target along paths: '>' (supply>target), '<', '=' or None."""

    def __init__(self, f, me, sup, tar, helpers, ctx, rule, ci):
        self.f, self.me, self.sup, self.tar, self.helpers, self.ctx, self.rule, self.ci = f, me, sup, tar, helpers, ctx, rule, ci
        self.sites = {}

    def copy(self, s):
        return s

    def join(self, a, b):
        return a if a == b else "?"

    def _cmp(self, test) -> Optional[str]:
        if isinstance(test, ast.Compare) and len(test.ops) == 1:
            l, rr = self_attr(test.left, self.me), self_attr(test.comparators[0], self.me)
            op = test.ops[0]
            if l == self.sup and rr == self.tar:
                return {ast.Gt: ">", ast.Lt: "<", ast.Eq: "="}.get(type(op))
            if l == self.tar and rr == self.sup:
                return {ast.Gt: "<", ast.Lt: ">", ast.Eq: "="}.get(type(op))
        return None

    @staticmethod
    def _meet(known: str, fact: str) -> str:
        """Combine what is known with a new fact (both in {'?','<','>','=','<=','>='})."""
        if known == "?":
            return fact
        sets = {"<": {"<"}, ">": {">"}, "=": {"="}, "<=": {"<", "="}, ">=": {">", "="}, "?": {"<", ">", "="}}
        r = sets[known] & sets[fact]
        for k, v in sets.items():
            if v == r:
                return k
        return known

    def branch(self, test, s):
        c = self._cmp(test)
        if c == ">":
            return self._meet(s, ">"), self._meet(s, "<=")
        if c == "<":
            return self._meet(s, "<"), self._meet(s, ">=")
        if c == "=":
            return self._meet(s, "="), s
        return s, s

    def transfer(self, st, s):
        if isinstance(st, (ast.FunctionDef, ast.AsyncFunctionDef, ast.ClassDef)):
            return s
        # helper calls: obligation on the current order fact
        for (callee, call) in self_calls_in(st, self.me):
            for kind, h in self.helpers.items():
                if callee == h.name:
                    need = ">" if kind == "hot" else "<"
                    ok = (s == need)
                    self.ctx.ob(self.rule, f"{self.f.qualname}:{norm_stmt(call)}#{len(self.sites)}", f"{self.f.module.relpath}:{call.lineno}", ok,
                                "" if ok else f"{self.ci.name}.{self.f.name} calls the {kind} bound helper on a path where "
                                              f"supply {need} target is not established (known: supply {s} target)")
                    self.sites[id(call)] = ok
        if isinstance(st, ast.Assign) and len(st.targets) == 1:
            a = self_attr(st.targets[0], self.me)
            if a in (self.sup, self.tar):
                other = self.tar if a == self.sup else self.sup
                lf = linear_form(st.value, self.me)
                if lf is not None and set(lf) <= {other, "1"} and lf.get(other) == 1.0 and lf.get("1", 0.0) != 0.0:
                    pos = lf["1"] > 0
                    # a = other + c
                    if a == self.tar:
                        return "<" if pos else ">"
                    return ">" if pos else "<"
                return "?"
        return s


def check_helper_guards(ctx: CheckContext, r: Resolver, ci: ClassInfo, helpers: Dict[str, FuncInfo], rule: str = "DERIVED-ORDER"):
    ctx.rule(rule, "the hot bound helper is only called where supply > target is established by a dominating test or assignment, "
                   "the cold helper only where supply < target (so that t_min <= t_max after every recomputation)")
    sup, tar = getter_field(ci, "t_supply"), getter_field(ci, "t_target")
    n = 0
    for nm, f in list(ci.methods.items()) + list(ci.setters.items()):
        me = self_name(f)
        if me is None:
            continue
        if not any(callee in {h.name for h in helpers.values()} for (callee, _) in self_calls_in(f.node, me)):
            continue
        fl = _OrderFlow(f, me, sup, tar, helpers, ctx, rule, ci)
        fl.run(f.node, '?')
        n += len(fl.sites)
    return n

"""API - the repository only calls library entry points that exist in the INSTALLED libraries (C16, C17).

The installed library is inspected (hasattr on the class / module) - the repository itself is never
imported.  DataFrame-typed expressions are tracked from sure sources only."""
from __future__ import annotations

import ast
import importlib
from typing import Dict, List, Optional, Set, Tuple

from ..core.model import AnalysisError, FuncInfo, Program
from ..core.report import CheckContext, norm_stmt
from ..core.resolve import Resolver, body_nodes

DF_SOURCES = {"pandas.read_csv", "pandas.read_excel", "pandas.DataFrame"}
DF_PRESERVING = {"copy", "drop", "replace", "reset_index", "where", "map", "applymap", "fillna", "dropna", "rename", "astype", "sort_values",
                 "set_index", "head", "tail", "transform", "apply", "mask", "infer_objects", "convert_dtypes"}


def _is_df_annotation(r: Resolver, f: FuncInfo, ann: Optional[ast.AST]) -> bool:
    if ann is None:
        return False
    b = r.resolve_static(f, f.module, ann) if isinstance(ann, (ast.Name, ast.Attribute)) else None
    return b is not None and b.kind == "ext" and b.target == "pandas.DataFrame"


def df_vars(r: Resolver, f: FuncInfo) -> Set[str]:
    out: Set[str] = set()
    for a in f.params:
        if _is_df_annotation(r, f, a.annotation):
            out.add(a.arg)
    for _ in range(4):
        for n in body_nodes(f):
            tgt = val = None
            if isinstance(n, ast.Assign) and len(n.targets) == 1 and isinstance(n.targets[0], ast.Name):
                tgt, val = n.targets[0].id, n.value
            elif isinstance(n, ast.AnnAssign) and isinstance(n.target, ast.Name):
                tgt, val = n.target.id, n.value
                if _is_df_annotation(r, f, n.annotation):
                    out.add(tgt)
            if tgt and val is not None and is_df_expr(r, f, val, out):
                out.add(tgt)
    return out


_RET_DF_MEMO: Dict[FuncInfo, bool] = {}


def returns_df(r: Resolver, g: FuncInfo, depth: int = 0) -> bool:
    """package function whose result is a DataFrame: annotated so, or every return expression is DataFrame-typed"""
    if g in _RET_DF_MEMO:
        return _RET_DF_MEMO[g]
    _RET_DF_MEMO[g] = False
    if isinstance(g.node, ast.Lambda) or depth > 3:
        return False
    if _is_df_annotation(r, g, g.node.returns):
        _RET_DF_MEMO[g] = True
        return True
    rets = [n for n in body_nodes(g) if isinstance(n, ast.Return) and n.value is not None]
    if rets:
        dfs = df_vars(r, g)
        if all(is_df_expr(r, g, rt.value, dfs) for rt in rets):
            _RET_DF_MEMO[g] = True
            return True
    return False


def is_df_expr(r: Resolver, f: FuncInfo, e: ast.AST, dfs: Set[str]) -> bool:
    if isinstance(e, ast.Name):
        return e.id in dfs
    if isinstance(e, ast.Call):
        tg = r.resolve_call(f, e)
        if any(isinstance(t, str) and t.startswith("ext:") and t[4:] in DF_SOURCES for t in tg):
            return True
        if any(isinstance(t, FuncInfo) and returns_df(r, t) for t in tg):
            return True
        if isinstance(e.func, ast.Attribute) and e.func.attr in DF_PRESERVING and is_df_expr(r, f, e.func.value, dfs):
            return True
        return False
    if isinstance(e, ast.Subscript):
        # df.iloc[...] / df.loc[...] with a slice or mask keeps a frame; df[[cols]] keeps a frame
        v = e.value
        if isinstance(v, ast.Attribute) and v.attr in ("iloc", "loc") and is_df_expr(r, f, v.value, dfs):
            sl = e.slice
            return isinstance(sl, ast.Slice) or (isinstance(sl, (ast.BinOp, ast.Name, ast.UnaryOp)))
        if is_df_expr(r, f, v, dfs) and isinstance(e.slice, (ast.List, ast.Name)) and isinstance(e.slice, ast.List):
            return True
    return False


def check_dataframe_api(ctx: CheckContext, p: Program, r: Resolver, modules: List[str], rule: str = "API-DF"):
    _RET_DF_MEMO.clear()
    ctx.rule(rule, "every method invoked on a value statically known to be a pandas DataFrame exists on the installed pandas.DataFrame")
    try:
        pd = importlib.import_module("pandas")
    except Exception as e:  # pragma: no cover
        raise AnalysisError(f"pandas not importable in the analysis environment: {e}")
    ctx.info["pandas_version"] = pd.__version__
    n = 0
    for mn in modules:
        m = p.modules.get(mn)
        if m is None:
            raise AnalysisError(f"module {mn} not found")
        for f in [x for x in p.all_funcs if x.module is m]:
            dfs = df_vars(r, f)
            for c in body_nodes(f):
                if isinstance(c, ast.Call) and isinstance(c.func, ast.Attribute) and is_df_expr(r, f, c.func.value, dfs):
                    n += 1
                    ok = hasattr(pd.DataFrame, c.func.attr)
                    ctx.ob(rule, f"{f.qualname}:{norm_stmt(c.func)}", f"{m.relpath}:{c.lineno}", ok,
                           "" if ok else f"pandas {pd.__version__} DataFrame has no method '{c.func.attr}' (call raises AttributeError for every input)")
                elif isinstance(c, ast.Attribute) and isinstance(c.ctx, ast.Load) and is_df_expr(r, f, c.value, dfs):
                    ok = hasattr(pd.DataFrame, c.attr)
                    if not ok:
                        n += 1
                        ctx.ob(rule, f"{f.qualname}:{norm_stmt(c)}", f"{m.relpath}:{c.lineno}", False,
                               f"pandas {pd.__version__} DataFrame has no attribute '{c.attr}'")
    return n


def check_module_attrs(ctx: CheckContext, p: Program, r: Resolver, funcs: List[FuncInfo], libs=("numpy", "pandas", "math", "scipy.optimize"), rule: str = "API-MOD"):
    """Every `np.x` / `pd.x` / `math.x` referenced in the given functions exists in the installed module."""
    ctx.rule(rule, "every attribute referenced on an imported library module (numpy, pandas, math, scipy.optimize) exists in the installed version")
    mods = {}
    for l in libs:
        try:
            mods[l] = importlib.import_module(l)
        except Exception:
            pass
    ctx.info["library_versions"] = {k: getattr(v, "__version__", "stdlib") for k, v in mods.items()}
    n = 0
    for f in funcs:
        for c in body_nodes(f):
            if isinstance(c, ast.Attribute) and isinstance(c.value, (ast.Name, ast.Attribute)):
                b = r.resolve_static(f, f.module, c)
                if b is not None and b.kind == "ext":
                    for l, mod in mods.items():
                        if b.target.startswith(l + ".") and b.target.count(".") == l.count(".") + 1:
                            attr = b.target.rsplit(".", 1)[1]
                            n += 1
                            ok = hasattr(mod, attr)
                            ctx.ob(rule, f"{f.qualname}:{b.target}", f"{f.module.relpath}:{c.lineno}", ok,
                                   "" if ok else f"installed {l} {getattr(mod, '__version__', '')} has no attribute '{attr}'")
    return n

"""Findings, obligations, known-findings handling, evidence files, exit codes."""
from __future__ import annotations

import ast
import json
import os
import re
import sys
import time
from dataclasses import dataclass, field
from typing import Dict, List, Optional

VERIF = os.path.dirname(os.path.dirname(os.path.dirname(os.path.abspath(__file__))))


def norm_stmt(node_or_text) -> str:
    """Normalised statement text used in instance keys (never line numbers)."""
    if isinstance(node_or_text, ast.AST):
        try:
            t = ast.unparse(node_or_text)
        except Exception:
            t = type(node_or_text).__name__
    else:
        t = str(node_or_text)
    t = re.sub(r"\s+", " ", t).strip()
    return t[:160]


@dataclass
class Obligation:
    rule: str
    key: str
    loc: str
    ok: bool
    message: str = ""
    detail: dict = field(default_factory=dict)


class CheckContext:
    def __init__(self, prop: str, tier: str):
        self.prop = prop
        self.tier = tier
        self.obligations: List[Obligation] = []
        self.info: Dict[str, object] = {}
        self.notes: List[str] = []
        self.floors: Dict[str, int] = {}
        self.controls: List[dict] = []
        self.rules: Dict[str, str] = {}
        self.assumptions: List[str] = []
        self.errors: List[str] = []
        self.abstained: List[dict] = []
        # strict: the analysed tree is the pinned reference tree, whose rule instances were confirmed by hand - there an unrecognised form
        # or a missing instance means the ANALYSER is broken (exit 2).  On any other tree a rule that does not recognise the code abstains.
        self.strict = False

    def abstain(self, rule: str, why: str):
        if self.strict:
            self.error(f"{rule}: {why}")
        else:
            self.abstained.append({"rule": rule, "why": why})

    def guard(self, fn, *args, **kw):
        """run one rule; a construct it cannot interpret makes that rule abstain instead of aborting the whole check"""
        from .model import AnalysisError
        try:
            return fn(*args, **kw)
        except AnalysisError as e:
            self.abstain(getattr(fn, "__name__", str(fn)), str(e))
            return None

    def rule(self, rid: str, text: str):
        self.rules[rid] = text

    def floor(self, rule: str, n: int):
        self.floors[rule] = n

    def ob(self, rule: str, key: str, loc: str, ok: bool, message: str = "", **detail):
        self.obligations.append(Obligation(rule, key, loc, ok, message, detail))

    def control(self, name: str, expected: str, got: str, skipped: bool = False, note: str = ""):
        self.controls.append({"name": name, "expected": expected, "got": got, "skipped": skipped, "note": note})

    def error(self, msg: str):
        self.errors.append(msg)

    def count(self, rule: str) -> int:
        return sum(1 for o in self.obligations if o.rule == rule)


GENERIC_RULES = {"TRUTHY", "MEMO-KEY", "MEMO-DEP", "MEMO-COH", "RECOMPUTE", "ARG-TYPE", "LOST-UPDATE", "LIST-MULT", "DEFAULT-ALIAS", "ENUM-FORM", "OR-DEFAULT"}


def tree_is_reference(root: str) -> bool:
    """is the package under `root` byte-identical to the frozen reference tree (fixtures/reference)?"""
    import hashlib

    def digest(r):
        h = hashlib.sha256()
        for dp, dn, fn in os.walk(os.path.join(r, "OpenPinch")):
            dn[:] = sorted(d for d in dn if d != "__pycache__")
            for f in sorted(fn):
                if f.endswith(".py"):
                    h.update(os.path.relpath(os.path.join(dp, f), r).encode())
                    h.update(open(os.path.join(dp, f), "rb").read())
        return h.hexdigest()
    ref = os.path.join(VERIF, "fixtures", "reference")
    return os.path.isdir(ref) and digest(ref) == digest(root)


def load_known() -> dict:
    p = os.path.join(VERIF, "known_findings.json")
    if not os.path.exists(p):
        return {"known": [], "fixed": []}
    return json.load(open(p))


def finish(ctx: CheckContext, t0: float, seed: int = 0) -> int:
    """Print the report, write evidence, return exit status."""
    known = [k for k in load_known().get("known", []) if k.get("property") == ctx.prop]
    known_keys = {(k["rule"], k["key"]): k for k in known}
    viol = [o for o in ctx.obligations if not o.ok]
    new_viol = [o for o in viol if (o.rule, o.key) not in known_keys]
    known_hit = [o for o in viol if (o.rule, o.key) in known_keys]

    # floors: a rule family that finds fewer instances than confirmed by hand is an analysis error
    for rule, n in ctx.floors.items():
        c = ctx.count(rule)
        if c < n:
            ctx.abstain(rule, f"{c} instance(s) analysed, {n} confirmed by hand on the reference tree (anchor vanished or unrecognised form)")
    specific = [o for o in ctx.obligations if o.rule not in GENERIC_RULES]
    if not specific and not ctx.errors and not getattr(ctx, 'replay', False):
        ctx.error("no property-specific rule found anything to decide on this tree (every anchor vanished): " +
                  "; ".join(f"{a['rule']}: {a['why']}" for a in ctx.abstained[:4]))
    for c in ctx.controls:
        if not c["skipped"] and c["expected"] != c["got"]:
            ctx.error(f"control '{c['name']}' expected {c['expected']} but rule reported {c['got']}")

    status = 0
    # evidence of runs against a scratch copy (self-tests, seeded mutants) never overwrites the real evidence
    ev_dir = os.environ.get("OPSTATIC_EVIDENCE_DIR") or (os.path.join(VERIF, "evidence") if not os.environ.get("OPSTATIC_REPO")
                                                          else os.path.join("/tmp", "opstatic_scratch_evidence", str(os.getpid())))
    os.makedirs(ev_dir, exist_ok=True)
    replay_dir = os.path.join(ev_dir, "replay")
    for o in known_hit:
        k = known_keys[(o.rule, o.key)]
        print(f"KNOWN-FINDING: property={ctx.prop} {o.rule} {o.key} -- {k.get('what', o.message)}")
    for i, o in enumerate(new_viol):
        os.makedirs(replay_dir, exist_ok=True)
        rp = os.path.join(replay_dir, f"{ctx.prop}_{i}.json")
        json.dump({"property": ctx.prop, "rule": o.rule, "key": o.key, "loc": o.loc, "message": o.message, "detail": o.detail},
                  open(rp, "w"), indent=1, default=str)
        print(f"{o.loc}: [{o.rule}] {o.message}")
        print(f"    instance: {o.key}")
        for dk, dv in o.detail.items():
            print(f"    {dk}: {dv}")
        print(f"VIOLATION property={ctx.prop} replay={rp}")
        status = 1
    for a in ctx.abstained:
        print(f"NOTE: property={ctx.prop} rule {a['rule']} abstains on this tree: {a['why']}")
    if ctx.errors:
        for e in ctx.errors:
            print(f"ANALYSIS-ERROR: property={ctx.prop} {e}")
        if status == 0:
            status = 2

    discharged = sum(1 for o in ctx.obligations if o.ok)
    by_rule: Dict[str, Dict[str, int]] = {}
    for o in ctx.obligations:
        d = by_rule.setdefault(o.rule, {"obligations": 0, "discharged": 0})
        d["obligations"] += 1
        d["discharged"] += 1 if o.ok else 0
    distinct = len({(o.rule, o.key) for o in ctx.obligations})
    samples = [{"rule": o.rule, "instance": o.key, "loc": o.loc, "ok": o.ok, **({"message": o.message} if o.message else {})}
               for o in ctx.obligations[:12]]
    if len(ctx.obligations) > 12:
        step = max(1, len(ctx.obligations) // 8)
        samples += [{"rule": o.rule, "instance": o.key, "loc": o.loc, "ok": o.ok} for o in ctx.obligations[12::step]][:8]
    ev = {
        "property_id": ctx.prop,
        "tier": ctx.tier,
        "seed": seed,
        "level": "other",
        "coverage": {
            "explanation": "static analysis of the current working tree: " + "; ".join(f"{k}: {v}" for k, v in ctx.rules.items()),
            "obligations": len(ctx.obligations),
            "discharged": discharged,
            "evaluations": max(1, len(ctx.obligations)),
            "distinct_nontrivial": distinct,
            "rule": "one obligation per rule instance found in the source (instance key = module:function:normalised construct); "
                    "distinct = distinct (rule, instance key) pairs; an instance is non-trivial because it is a construct the rule had to decide",
            "samples": samples or [{"note": "no obligations"}],
            "by_rule": by_rule,
            "floors": ctx.floors,
            "controls": ctx.controls,
            "analysed": ctx.info,
            "known_findings_echoed": [f"{o.rule} {o.key}" for o in known_hit],
            "new_violations": [f"{o.rule} {o.key} @ {o.loc}" for o in new_viol],
            "analysis_errors": ctx.errors,
            "abstained_rules": ctx.abstained,
            "strict_reference_tree": ctx.strict,
            "exhaustive": True,
            "checker_cmd": f"./check {ctx.prop} --tier {ctx.tier}",
            "trusted_base": ["CPython ast", "opstatic analysers", "repository parsed from the working tree"],
        },
        "assumptions": ctx.assumptions + [
            "verdict policy: a violation is reported only for a construct the rule fully interprets; a construct it cannot interpret is undecided "
            "(listed under coverage.analysed.*_undecided) and a rule that finds no instance abstains (coverage.abstained_rules) - except on the pinned "
            "reference tree, where either is an analysis error (exit 2).  strict_reference_tree says which mode this run was in.",
        ],
        "wall_s": round(time.time() - t0, 3),
        "violations": len(new_viol),
    }
    with open(os.path.join(ev_dir, f"{ctx.prop}.json"), "w") as f:
        json.dump(ev, f, indent=1, default=str)
    print(f"[{ctx.prop}] tier={ctx.tier} obligations={len(ctx.obligations)} discharged={discharged} "
          f"known={len(known_hit)} new_violations={len(new_viol)} errors={len(ctx.errors)} "
          f"controls={sum(1 for c in ctx.controls if not c['skipped'])}/{len(ctx.controls)} wall={ev['wall_s']}s")
    for rule, d in sorted(by_rule.items()):
        print(f"    {rule}: {d['discharged']}/{d['obligations']} discharged")
    return status

"""Generic cache disciplines (a cache that a clean-up adds is the classic way to make a result depend on history).

MEMO-KEY   a function that returns a stored result when "the same arguments" come again must compare EVERY argument it
           computes from, and compare it raw:
             * ``if <flag> and (p1, p2, ...) == (self._a, self._b, ...): return <stored>``  (or and-ed equalities)
             * ``key = (...); if key in CACHE: return CACHE[key]`` / ``if key not in CACHE: CACHE[key] = ...``
           A parameter the body reads but the key leaves out, or a key element that is a rounded / truncated / otherwise
           transformed parameter, makes two different requests share one answer.

MEMO-DEP   a None-guarded memo ``if self._m is None: self._m = E`` is only sound if everything E reads can be invalidated by
           the class.  If E reads a collection the class hands out by reference (a property returning the field) and the
           package itself mutates that collection in place through the accessor (``zone.hot_streams.add(...)``), no method of
           the class ever sees the change: the memo goes stale.

MEMO-COH   (module memocoh) an instance-level memo is dropped by every public method - of the class or of a view class writing through the
           owner - that writes a field the memo was computed from.

RECOMPUTE  targeting never consults the record registry to decide whether to run: ``if key in zone.targets: return`` leaves
           every record of the zone stale once its streams change (the registry is an output, not a cache).
"""
from __future__ import annotations

import ast
from typing import Dict, List, Optional, Set, Tuple

from ..core.model import ClassInfo, FuncInfo, Program
from ..core.report import CheckContext
from ..core.resolve import Resolver, body_nodes
from .order import _key_target


# ------------------------------------------------------------------------------------------ MEMO-KEY
def _param_names(f: FuncInfo) -> List[str]:
    return [a.arg for a in f.params if a.arg not in ("self", "cls")]


def _reads_after(f: FuncInfo, lineno: int) -> Set[str]:
    return {n.id for n in body_nodes(f) if isinstance(n, ast.Name) and isinstance(n.ctx, ast.Load) and getattr(n, "lineno", 0) > lineno}


def _flatten_and(t: ast.AST) -> List[ast.AST]:
    if isinstance(t, ast.BoolOp) and isinstance(t.op, ast.And):
        out: List[ast.AST] = []
        for v in t.values:
            out += _flatten_and(v)
        return out
    return [t]


def _is_stored(e: ast.AST) -> bool:
    """self.<field> / module-level cache entry"""
    return isinstance(e, ast.Attribute) and isinstance(e.value, ast.Name) and e.value.id in ("self", "cls")


def _key_elements_from_test(f: FuncInfo, test: ast.AST) -> Optional[List[ast.AST]]:
    """argument-side expressions of an 'are these the stored inputs?' test, or None if the test is not one"""
    elems: List[ast.AST] = []
    for part in _flatten_and(test):
        if isinstance(part, ast.Compare) and len(part.ops) == 1 and isinstance(part.ops[0], ast.Eq):
            l, rr = part.left, part.comparators[0]
            if isinstance(l, ast.Tuple) and isinstance(rr, ast.Tuple) and len(l.elts) == len(rr.elts):
                for a, b in zip(l.elts, rr.elts):
                    if _is_stored(b) and not _is_stored(a):
                        elems.append(a)
                    elif _is_stored(a) and not _is_stored(b):
                        elems.append(b)
            elif _is_stored(rr) and not _is_stored(l):
                elems.append(l)
            elif _is_stored(l) and not _is_stored(rr):
                elems.append(rr)
    return elems or None


def _returns_stored(body: List[ast.stmt]) -> bool:
    return bool(body) and isinstance(body[-1], ast.Return) and body[-1].value is not None and \
        any(_is_stored(x) or isinstance(x, ast.Subscript) for x in ast.walk(body[-1].value))


def check_memo_keys(ctx: CheckContext, p: Program, r: Resolver, funcs: List[FuncInfo], rule: str = "MEMO-KEY") -> int:
    ctx.rule(rule, "a result returned from storage because 'the arguments are the same' is keyed by every parameter the computation reads, each compared "
                   "raw (not rounded / truncated / re-cased)")
    n = 0
    for f in funcs:
        if isinstance(f.node, ast.Lambda):
            continue
        params = _param_names(f)
        if not params:
            continue
        sites: List[Tuple[ast.AST, List[ast.AST], str]] = []
        nodes = body_nodes(f)
        # form 1: equality of arguments with stored inputs guarding an early return of a stored value
        for nd in nodes:
            if isinstance(nd, ast.If) and not nd.orelse and nd.body and isinstance(nd.body[-1], ast.Return) and (_returns_stored(nd.body) or len(nd.body) == 1):
                el = _key_elements_from_test(f, nd.test)
                if el and any(isinstance(x, ast.Name) and x.id in params for e in el for x in ast.walk(e)):
                    sites.append((nd, el, "early return of the stored result"))
        # form 2: key = (...) ; key [not] in CACHE
        for nd in nodes:
            if isinstance(nd, ast.Compare) and len(nd.ops) == 1 and isinstance(nd.ops[0], (ast.In, ast.NotIn)) and isinstance(nd.left, (ast.Name, ast.Tuple)):
                cache = nd.comparators[0]
                is_cache = False
                if isinstance(cache, ast.Name):
                    b = r.lookup(f, f.module, cache.id)
                    is_cache = b is not None and b.kind == "var"                    # module-level table
                elif isinstance(cache, ast.Attribute) and _is_stored(cache):
                    is_cache = True
                if not is_cache:
                    continue
                key = nd.left
                if isinstance(key, ast.Name):
                    defs = [a.value for a in nodes if isinstance(a, ast.Assign) and any(isinstance(t, ast.Name) and t.id == key.id for t in a.targets)]
                    if len(defs) != 1:
                        continue
                    key = defs[0]
                # the looked-up value must also be what the function returns
                stores = any(isinstance(a, ast.Assign) and isinstance(a.targets[0], ast.Subscript) and ast.dump(a.targets[0].value) == ast.dump(cache) for a in nodes)
                rets = any(isinstance(a, ast.Return) and a.value is not None and any(isinstance(x, ast.Subscript) and ast.dump(x.value) == ast.dump(cache)
                                                                                      for x in ast.walk(a.value)) for a in nodes)
                if not (stores and rets):
                    continue
                el = list(key.elts) if isinstance(key, ast.Tuple) else [key]
                if any(isinstance(x, ast.Name) and x.id in params for e in el for x in ast.walk(e)):
                    sites.append((nd, el, f"lookup in `{ast.unparse(cache)}`"))
        for nd, el, what in sites:
            raw = {e.id for e in el if isinstance(e, ast.Name)}
            used = {q for q in params if q in _reads_after(f, getattr(nd, "end_lineno", nd.lineno)) or q in {x.id for x in ast.walk(nd) if isinstance(x, ast.Name)}}
            # every parameter the function computes from
            body_reads = {x.id for x in nodes if isinstance(x, ast.Name) and isinstance(x.ctx, ast.Load)}
            for q in params:
                if q not in body_reads:
                    continue
                n += 1
                if q in raw:
                    ctx.ob(rule, f"{f.qualname}:{q}", f"{f.module.relpath}:{nd.lineno}", True, "")
                    continue
                transformed = [e for e in el if not isinstance(e, ast.Name) and any(isinstance(x, ast.Name) and x.id == q for x in ast.walk(e))]
                if transformed:
                    why = (f"{what}: parameter '{q}' enters the key only as `{ast.unparse(transformed[0])}` - different values of '{q}' that agree after "
                           f"the transformation get the result computed for the first one")
                else:
                    why = (f"{what}: parameter '{q}' is read by the computation but is not part of the key - a call that differs only in '{q}' returns the "
                           f"result stored for the previous value")
                ctx.ob(rule, f"{f.qualname}:{q}", f"{f.module.relpath}:{nd.lineno}", False, why)
    return n


# ------------------------------------------------------------------------------------------ MEMO-DEP
def _none_guard_memos(ci: ClassInfo) -> List[Tuple[FuncInfo, str, ast.AST]]:
    """(method, memo field, computing expression) for `if self._m is None: self._m = E`"""
    out = []
    for f in ci.methods.values():
        for nd in body_nodes(f):
            if not isinstance(nd, ast.If):
                continue
            test = nd.test
            if isinstance(test, ast.BoolOp) and isinstance(test.op, ast.Or) and test.values:
                # `self._m is None or len(self._m) != n`: a size heuristic adds recomputations but cannot stand in for invalidation
                # (an in-place replacement keeps every length), so the memo is judged as the plain None-guarded one
                def _len_cmp(v):
                    return isinstance(v, ast.Compare) and any(isinstance(c, ast.Call) and isinstance(c.func, ast.Name) and c.func.id == "len" for c in ast.walk(v))
                if all(_len_cmp(v) for v in test.values[1:]):
                    test = test.values[0]
            if isinstance(test, ast.Compare) and len(test.ops) == 1 and isinstance(test.ops[0], ast.Is) \
                    and isinstance(test.comparators[0], ast.Constant) and test.comparators[0].value is None and _is_stored(test.left):
                fld = test.left.attr
                for st in nd.body:
                    if isinstance(st, ast.Assign) and any(_is_stored(t) and t.attr == fld for t in st.targets):
                        out.append((f, fld, st.value))
    return out


def _exposed_fields(ci: ClassInfo) -> Dict[str, str]:
    """private field -> public accessor name, for properties that return the field itself"""
    out: Dict[str, str] = {}
    for nm, f in ci.methods.items():
        if f.is_property and not nm.startswith("_"):
            rets = [x for x in body_nodes(f) if isinstance(x, ast.Return) and x.value is not None]
            if len(rets) == 1 and _is_stored(rets[0].value):
                out[rets[0].value.attr] = nm
    return out


_MUTATORS = {"add", "add_many", "remove", "replace", "append", "extend", "insert", "pop", "clear", "update", "sort", "reverse", "discard", "setdefault",
             "popitem", "set_heat_flow"}


def check_memo_dependencies(ctx: CheckContext, p: Program, r: Resolver, classes: List[ClassInfo], rule: str = "MEMO-DEP") -> int:
    ctx.rule(rule, "a None-guarded memo is computed only from state its class can invalidate: no dependency is a collection handed out by reference and "
                   "mutated in place by the package through that accessor")
    n = 0
    for ci in classes:
        memos = _none_guard_memos(ci)
        if not memos:
            continue
        exposed = _exposed_fields(ci)
        for f, fld, expr in memos:
            deps = {x.attr for x in ast.walk(expr) if _is_stored(x)} - {fld}
            # properties used inside the expression resolve to their fields
            for x in list(deps):
                g = ci.methods.get(x)
                if g is not None and g.is_property:
                    deps |= {y.attr for y in ast.walk(g.node) if _is_stored(y)}
            for d in sorted(deps):
                acc = exposed.get(d) or (d if not d.startswith("_") else None)
                if acc is None:
                    n += 1
                    ctx.ob(rule, f"{ci.name}.{fld}<-{d}", f.loc, True, "")
                    continue
                # an in-place mutation through the accessor anywhere in the package (outside methods that reset the memo)
                site = None
                for g in p.all_funcs:
                    if isinstance(g.node, ast.Lambda):
                        continue
                    resets = any(isinstance(a, ast.Assign) and any(isinstance(t, ast.Attribute) and t.attr == fld for t in a.targets) for a in body_nodes(g))
                    if resets:
                        continue
                    for c in body_nodes(g):
                        if isinstance(c, ast.Call) and isinstance(c.func, ast.Attribute) and c.func.attr in _MUTATORS and isinstance(c.func.value, ast.Attribute) \
                                and c.func.value.attr == acc:
                            recv = c.func.value.value
                            t = r.type_of(g, recv)
                            if t is ci or (t is None and isinstance(recv, ast.Name) and ci.name.lower() in recv.id.lower()):
                                site = (g, c)
                                break
                    if site:
                        break
                n += 1
                ok = site is None
                ctx.ob(rule, f"{ci.name}.{fld}<-{d}", f.loc, ok,
                       "" if ok else f"{ci.name}.{fld} is memoised from `{ast.unparse(expr)[:70]}`, but '{d}' is handed out by reference as .{acc} and mutated in place "
                                     f"at {site[0].module.relpath}:{site[1].lineno} (`{ast.unparse(site[1])[:60]}`): the memo is never invalidated by that change")
    return n


# ------------------------------------------------------------------------------------------ RECOMPUTE
def _consults_registry(r: Resolver, f: FuncInfo, e: ast.AST, depth: int = 0) -> Optional[str]:
    """how an expression looks into <zone>.targets, if it does: directly (`k in z.targets`, `z.targets.get(k)`) or through a package helper whose
    result is computed from such a look-up"""
    for c in ast.walk(e):
        if isinstance(c, ast.Compare) and len(c.ops) == 1 and isinstance(c.ops[0], (ast.In, ast.NotIn)) and isinstance(c.comparators[0], ast.Attribute) \
                and c.comparators[0].attr == "targets":
            return f"`{ast.unparse(c)[:70]}`"
        if isinstance(c, ast.Call) and isinstance(c.func, ast.Attribute) and c.func.attr == "get" and isinstance(c.func.value, ast.Attribute) \
                and c.func.value.attr == "targets":
            return f"`{ast.unparse(c)[:70]}`"
        if isinstance(c, ast.Call) and depth < 2:
            for h in r.resolve_call(f, c):
                if isinstance(h, FuncInfo) and not isinstance(h.node, ast.Lambda) and h is not f:
                    for st in body_nodes(h):
                        if isinstance(st, (ast.Return, ast.Assign)) and st.value is not None:
                            how = _consults_registry(r, h, st.value, depth + 1)
                            if how and any(isinstance(x, ast.Return) for x in body_nodes(h)):
                                return f"{h.name}() -> {how}"
    return None


def _defines_records(reg, r: Resolver, f: FuncInfo, call: ast.Call, depth: int = 0) -> Optional[str]:
    for t in r.resolve_call(f, call):
        if isinstance(t, FuncInfo) and not isinstance(t.node, ast.Lambda):
            if reg.summary(t).defines:
                return t.name
            if depth < 2:
                for c2, _ in r.calls_of(t):
                    nm = _defines_records(reg, r, t, c2, depth + 1)
                    if nm:
                        return t.name
    return None


def check_no_registry_skip(ctx: CheckContext, p: Program, r: Resolver, funcs: List[FuncInfo], rule: str = "RECOMPUTE") -> int:
    ctx.rule(rule, "no targeting function tests whether a record already exists in <zone>.targets to decide what to compute - directly or through a helper "
                   "predicate guarding a call that (re)computes records: the registry is an output, and a zone whose streams changed must be re-targeted")
    tt = p.find_class("TargetType")
    from .order import Registry
    try:
        reg = Registry(p, r)
    except Exception:
        reg = None
    n = 0
    for f in funcs:
        if isinstance(f.node, ast.Lambda):
            continue
        for nd in body_nodes(f):
            if not isinstance(nd, (ast.If, ast.IfExp, ast.While)):
                continue
            direct = False
            for c in ast.walk(nd.test):
                if isinstance(c, ast.Compare) and len(c.ops) == 1 and isinstance(c.ops[0], (ast.In, ast.NotIn)) and isinstance(c.comparators[0], ast.Attribute) \
                        and c.comparators[0].attr == "targets":
                    direct = True
                    kt = _key_target(r, f, c.left, tt) if tt is not None else None
                    n += 1
                    ctx.ob(rule, f"{f.qualname}:{ast.unparse(c)[:70]}", f"{f.module.relpath}:{nd.lineno}", False,
                           f"`{ast.unparse(c)[:90]}` decides what {f.name} computes" + (f" (record kind {kt[1]})" if kt else "") +
                           ": once a record exists it is never recomputed, so targets built from it are stale after the zone's streams change")
            if direct or reg is None or not isinstance(nd, ast.If):
                continue
            how = _consults_registry(r, f, nd.test)
            if how is None:
                continue
            guarded = None
            for st in nd.body + nd.orelse:
                for c in ast.walk(st):
                    if isinstance(c, ast.Call):
                        guarded = guarded or _defines_records(reg, r, f, c)
            if guarded is None:
                continue
            n += 1
            ctx.ob(rule, f"{f.qualname}:guarded:{guarded}", f"{f.module.relpath}:{nd.lineno}", False,
                   f"whether {f.name} calls {guarded}() - which computes the zone's records - depends on a record already stored in the registry ({how}): "
                   f"the stored record is taken as current although the zone's streams may have changed since it was computed")
    return n


# ------------------------------------------------------------------------------------------ MEMO-KEY (snapshot form)
def _snapshot_fields(ci: ClassInfo, f: FuncInfo, e: ast.AST, depth: int = 0) -> Optional[Set[str]]:
    """self fields a snapshot expression is made of: a tuple of self.<x> (through once-assigned locals), or a self-method returning such a tuple"""
    if depth > 3:
        return None
    if isinstance(e, ast.Tuple):
        out: Set[str] = set()
        for el in e.elts:
            sub = _snapshot_fields(ci, f, el, depth + 1)
            if sub is None:
                return None
            out |= sub
        return out
    if _is_stored(e):
        return {e.attr}
    if isinstance(e, ast.Call) and isinstance(e.func, ast.Name) and e.func.id in ("tuple", "float", "id", "round", "str", "len") and e.args:
        return _snapshot_fields(ci, f, e.args[0], depth + 1)
    if isinstance(e, ast.Name):
        defs = [a.value for a in body_nodes(f) if isinstance(a, ast.Assign) and any(isinstance(t, ast.Name) and t.id == e.id for t in a.targets)]
        defs = [d for d in defs if not any(isinstance(x, ast.Name) and x.id == e.id for x in ast.walk(d))]      # x = tuple(x): a re-packing of itself
        if not defs:
            return None
        out = set()
        for d in defs:
            sub = _snapshot_fields(ci, f, d, depth)
            if sub is None:
                return None
            out |= sub
        return out
    if isinstance(e, ast.Call) and isinstance(e.func, ast.Attribute) and isinstance(e.func.value, ast.Name) and e.func.value.id in ("self",) and not e.args:
        g = ci.methods.get(e.func.attr)
        if g is None:
            return None
        rets = [x for x in body_nodes(g) if isinstance(x, ast.Return) and x.value is not None]
        if not rets:
            return None
        out = set()
        for rt in rets:
            sub = _snapshot_fields(ci, g, rt.value, depth + 1)
            if sub is None:
                return None
            out |= sub
        return out
    return None


def check_snapshot_guards(ctx: CheckContext, p: Program, r: Resolver, classes: List[ClassInfo], rule: str = "MEMO-KEY") -> int:
    """`if <snapshot of inputs> == self._last: return` in a recompute method: every constructor-supplied field the recomputation reads is in the snapshot."""
    n = 0
    for ci in classes:
        init = ci.methods.get("__init__")
        if init is None:
            continue
        params = {a.arg for a in init.params}
        base = set()
        for a in body_nodes(init):
            if isinstance(a, (ast.Assign, ast.AnnAssign)) and a.value is not None:
                tg = a.targets if isinstance(a, ast.Assign) else [a.target]
                if any(isinstance(x, ast.Name) and x.id in params for x in ast.walk(a.value)):
                    base |= {t.attr for t in tg if _is_stored(t)}
        for f in ci.methods.values():
            body = [x for x in f.node.body if not (isinstance(x, ast.Expr) and isinstance(x.value, ast.Constant))]
            for i, st in enumerate(body):
                if not (isinstance(st, ast.If) and not st.orelse and len(st.body) == 1 and isinstance(st.body[0], ast.Return) and isinstance(st.test, ast.Compare)
                        and len(st.test.ops) == 1 and isinstance(st.test.ops[0], ast.Eq)):
                    continue
                l, rr = st.test.left, st.test.comparators[0]
                saved, snap = (rr, l) if _is_stored(rr) and not _is_stored(l) else ((l, rr) if _is_stored(l) and not _is_stored(rr) else (None, None))
                if saved is None:
                    continue
                fields = _snapshot_fields(ci, f, snap)
                if not fields:
                    continue
                # what the rest of the method (and the methods of the class it calls) reads
                reads: Set[str] = set()
                writes: Set[str] = set()
                seen: Set[str] = set()
                stack = list(body[i + 1:])
                while stack:
                    node = stack.pop()
                    for x in ast.walk(node):
                        if _is_stored(x) and isinstance(x.ctx, ast.Load):
                            reads.add(x.attr)
                        if _is_stored(x) and isinstance(x.ctx, ast.Store):
                            writes.add(x.attr)
                        if isinstance(x, ast.Call) and isinstance(x.func, ast.Attribute) and isinstance(x.func.value, ast.Name) and x.func.value.id == "self" \
                                and x.func.attr in ci.methods and x.func.attr not in seen:
                            seen.add(x.func.attr)
                            stack.append(ci.methods[x.func.attr].node)
                for fld in sorted((reads & base) - writes - {saved.attr}):
                    n += 1
                    ok = fld in fields
                    ctx.ob(rule, f"{f.qualname}:snapshot:{fld}", f"{f.module.relpath}:{st.lineno}", ok,
                           "" if ok else f"{ci.name}.{f.name} skips its recomputation when a snapshot of {sorted(fields)} is unchanged, but the recomputation also reads "
                                         f"'{fld}' (set from a constructor argument): after a change of '{fld}' alone the derived values stay stale")
    return n



# ------------------------------------------------------------------------------------------ MEMO-PARAM
def check_param_memos(ctx: CheckContext, p: Program, r: Resolver, funcs: List[FuncInfo], rule: str = "MEMO-PARAM") -> int:
    """`if not P.a: P.a = f(P)` inside a function that received P: a result computed from P's state is parked on P and re-used by the next call.
    That is only sound if P's class drops `a` whenever the state it was computed from changes.  The rule reports the construct when the class of P
    has NO method (besides __init__ and the accessor pair of `a` itself) that assigns the backing field - i.e. no invalidation exists at all."""
    ctx.rule(rule, "no function parks a result computed from a parameter object on that object behind an emptiness test (`if not P.a: P.a = f(P)`) unless the "
                   "object's class has some method that drops the parked value; one obligation per such guarded store")
    n = 0
    for f in funcs:
        if isinstance(f.node, ast.Lambda):
            continue
        params = {a.arg for a in f.params} - {"self", "cls"}
        for nd in body_nodes(f):
            if not isinstance(nd, ast.If):
                continue
            t = nd.test
            probe = None
            if isinstance(t, ast.UnaryOp) and isinstance(t.op, ast.Not):
                probe = t.operand
            elif isinstance(t, ast.Compare) and len(t.ops) == 1 and isinstance(t.ops[0], (ast.Is, ast.Eq)) and isinstance(t.comparators[0], ast.Constant) \
                    and t.comparators[0].value is None:
                probe = t.left
            if not (isinstance(probe, ast.Attribute) and isinstance(probe.value, ast.Name) and probe.value.id in params):
                continue
            obj, attr = probe.value.id, probe.attr
            for st in nd.body:
                if not (isinstance(st, ast.Assign) and any(isinstance(tg, ast.Attribute) and isinstance(tg.value, ast.Name) and tg.value.id == obj and tg.attr == attr
                                                           for tg in st.targets)):
                    continue
                if not (isinstance(st.value, ast.Call) and any(isinstance(x, ast.Name) and x.id == obj for a in list(st.value.args) + [k.value for k in st.value.keywords]
                                                               for x in ast.walk(a))):
                    continue
                ci = r.type_of(f, probe.value)
                n += 1
                key = f"{f.qualname}:{obj}.{attr}"
                if ci is None:
                    ctx.info.setdefault("memo_param_undecided", []).append(f"{f.module.relpath}:{nd.lineno}: class of '{obj}' unknown")
                    ctx.ob(rule, key, f"{f.module.relpath}:{nd.lineno}", True, "")
                    continue
                backing = {attr, "_" + attr}
                g0 = ci.methods.get(attr)
                if g0 is not None and g0.is_property:
                    backing |= {y.attr for y in ast.walk(g0.node) if _is_stored(y)}
                droppers = []
                for nm, g in list(ci.methods.items()) + list(ci.setters.items()):
                    if nm in ("__init__", attr):
                        continue
                    if any(isinstance(a, (ast.Assign, ast.AugAssign, ast.AnnAssign, ast.Delete))
                           and any(_is_stored(tg) and tg.attr in backing for tg in (a.targets if isinstance(a, (ast.Assign, ast.Delete)) else [a.target]))
                           for a in body_nodes(g)):
                        droppers.append(nm)
                ok = bool(droppers)
                ctx.ob(rule, key, f"{f.module.relpath}:{nd.lineno}", ok,
                       "" if ok else f"`{ast.unparse(st)[:80]}` runs only when `{ast.unparse(nd.test)}`: the value computed from '{obj}' is parked on '{obj}' and re-used by later "
                                     f"calls, but no method of {ci.name} ever drops '{attr}' - after any change to the object (streams, options, new targets) the parked "
                                     f"value is stale")
    return n

def check_all(ctx: CheckContext, p: Program, r: Resolver, funcs: List[FuncInfo]) -> int:
    """the three cache disciplines over a set of functions and the classes they belong to"""
    classes = []
    for f in funcs:
        if f.cls is not None and f.cls not in classes:
            classes.append(f.cls)
    from .memocoh import check_memo_coherence
    # view classes nested in an anchored class are reached through their owner
    classes = [c for c in classes if not any(c in (getattr(o, "inner", {}) or {}).values() for o in classes)]
    return check_memo_keys(ctx, p, r, funcs) + check_snapshot_guards(ctx, p, r, classes) + check_memo_dependencies(ctx, p, r, classes) \
        + check_no_registry_skip(ctx, p, r, funcs) + check_memo_coherence(ctx, p, r, classes) + check_param_memos(ctx, p, r, funcs)

"""C15 (part) - structural necessary conditions of 'area, exchanger-count and capital-cost targets follow their definitions':
every table column the area path reads has been written on every option path that reaches it (COLDEF); the log-mean temperature difference
refuses non-positive end differences before the logarithm (LMTD-GUARD); the cost and exchanger helpers keep no module-level state and
any stored result is keyed by every argument (PURE, MEMO-KEY); record divisions are guarded (DIV-GUARD); the stream's resistance x CP product, which the
area target sums per interval, is never left computed from a CP that the same method rewrites afterwards (DERIVED-SEQ)."""
from ..core.model import Program
from ..core.report import CheckContext
from ..core.resolve import Resolver
from ..rules import coldef, derived, dispatch, effect, order
from .common import run_control, generic_rules, anchor_funcs


def analyse(ctx: CheckContext, p: Program):
    r = Resolver(p)
    ctx.guard(generic_rules, ctx, p, r, "C15")
    funcs = anchor_funcs(p, "C15")
    ctx.guard(effect.check_module_state, ctx, p, r, funcs, rule="PURE")
    ctx.guard(dispatch.check_lmtd_guard, ctx, p, r)
    ctx.guard(coldef.check_column_definitions, ctx, p, r)
    ctx.guard(order.check_division_guards, ctx, p, r, funcs)
    st = p.find_class("Stream")
    if st is not None:
        ctx.guard(derived.check_stale_order, ctx, r, st)
        ctx.guard(derived.check_setter_siblings, ctx, r, st, ["t_supply", "t_target", "heat_flow", "dt_cont", "htc"])


def run(ctx: CheckContext):
    p = Program()
    analyse(ctx, p)
    ctx.floor("COLDEF", 20)
    ctx.floor("LMTD-GUARD", 1)
    ctx.assumptions += [
        "decides structural necessary conditions only: equal enthalpy spans of the balanced curves, the interval sum of duty x resistance / LMTD, plateau handling, "
        "the cost law N(a + b(A/N)^c) and the capital-recovery factor are arithmetic and NOT decided",
    ]
    run_control(ctx, "C15/rcp-before-cp", analyse, p.root, "OpenPinch/classes/stream.py",
                "            self._CP = value / abs(self._t_supply - self._t_target)\n            self._RCP_prod = self._htr * self._CP",
                "            self._RCP_prod = self._htr * self._CP\n            self._CP = value / abs(self._t_supply - self._t_target)", "DERIVED-SEQ")
    hx = "OpenPinch/utils/heat_exchanger.py"
    run_control(ctx, "C15/film-coefficient-setter-skips-recompute", analyse, p.root, "OpenPinch/classes/stream.py",
                "        self._htc = value\n        self._update_attributes()\n", "        self._htc = value\n        self._htr = 1 / value\n", "DERIVED-SIB")
    run_control(ctx, "C15/guard-weakened", analyse, p.root, hx,
                "if delta_T1.round(6).min() <= 0 or delta_T2.round(6).min() <= 0:", "if delta_T1.round(6).min() <= 0:", expect_rule="LMTD-GUARD")
    run_control(ctx, "C15/cost-factor-memoised", analyse, p.root, "OpenPinch/utils/costing.py",
                "    i = interest_rate\n    n = years\n    return i * (1 + i) ** n / ((1 + i) ** n - 1)",
                "    key = (round(interest_rate, 2), round(years))\n    if key not in _CRF:\n        i = interest_rate\n        n = years\n        _CRF[key] = i * (1 + i) ** n / ((1 + i) ** n - 1)\n    return _CRF[key]\n\n\n_CRF = {}", "MEMO-KEY")

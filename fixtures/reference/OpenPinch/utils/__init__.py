"""Utility helpers used across OpenPinch analyses.

This module aggregates reusable conversion utilities, workbook import/export
helpers, numerical shortcuts, and the timing decorator used to measure
performance critical routines.
"""

from .costing import *
from .csv_to_json import *
from .decorators import timing_decorator
from .export import *
from .heat_exchanger import *
from .miscellaneous import *
from .water_properties import *
from .wkbook_to_json import *

"""Program model: modules, namespaces (with star-import emulation), functions, classes."""
from __future__ import annotations

import ast
import os
import sys
from dataclasses import dataclass, field
from typing import Dict, Iterator, List, Optional, Tuple


class AnalysisError(Exception):
    """The tree cannot be analysed (syntax error, vanished anchor, unknown form in a
    position that matters).  Mapped to exit status 2, never to a pass."""


def repo_root() -> str:
    return os.environ.get("OPSTATIC_REPO", "/repo")


PKG = "OpenPinch"


@dataclass
class Binding:
    kind: str            # module | func | class | var | ext | param | local
    target: object       # modname | FuncInfo | ClassInfo | (modname, name, value_node) | dotted str
    type_only: bool = False

    def __repr__(self):
        t = self.target
        if self.kind in ("func", "class"):
            t = t.qualname
        elif self.kind == "var":
            t = f"{t[0]}.{t[1]}"
        return f"<{self.kind} {t}>"


@dataclass
class FuncInfo:
    module: "ModuleInfo"
    node: ast.AST                       # FunctionDef / AsyncFunctionDef / Lambda
    name: str
    qualname: str                       # module:Outer.inner
    cls: Optional["ClassInfo"] = None
    parent: Optional["FuncInfo"] = None
    nested: Dict[str, "FuncInfo"] = field(default_factory=dict)
    decorators: List[str] = field(default_factory=list)
    _body_nodes: Optional[list] = None

    @property
    def params(self) -> List[ast.arg]:
        a = self.node.args
        return list(a.posonlyargs) + list(a.args) + ([a.vararg] if a.vararg else []) + list(a.kwonlyargs) + ([a.kwarg] if a.kwarg else [])

    @property
    def pos_params(self) -> List[str]:
        a = self.node.args
        return [x.arg for x in list(a.posonlyargs) + list(a.args)]

    @property
    def kwonly_params(self) -> List[str]:
        return [x.arg for x in self.node.args.kwonlyargs]

    def default_of(self, pname: str) -> Optional[ast.AST]:
        a = self.node.args
        pos = list(a.posonlyargs) + list(a.args)
        nd = len(a.defaults)
        for i, p in enumerate(pos):
            if p.arg == pname:
                j = i - (len(pos) - nd)
                return a.defaults[j] if j >= 0 else None
        for p, d in zip(a.kwonlyargs, a.kw_defaults):
            if p.arg == pname:
                return d
        return None

    @property
    def is_method(self) -> bool:
        return self.cls is not None and self.parent is None

    @property
    def is_property(self) -> bool:
        return "property" in self.decorators

    @property
    def is_setter(self) -> bool:
        return any(d.endswith(".setter") for d in self.decorators)

    @property
    def is_static(self) -> bool:
        return "staticmethod" in self.decorators

    @property
    def is_classmethod(self) -> bool:
        return "classmethod" in self.decorators

    @property
    def loc(self) -> str:
        return f"{self.module.relpath}:{self.node.lineno}"

    def __hash__(self):
        return id(self)

    def __eq__(self, other):
        return self is other

    def __repr__(self):
        return f"<func {self.qualname}>"


@dataclass
class ClassInfo:
    module: "ModuleInfo"
    node: ast.ClassDef
    name: str
    qualname: str
    bases: List[ast.AST] = field(default_factory=list)
    methods: Dict[str, FuncInfo] = field(default_factory=dict)        # plain methods + property getters
    setters: Dict[str, FuncInfo] = field(default_factory=dict)        # property setters
    class_attrs: Dict[str, ast.AST] = field(default_factory=dict)     # name -> value node (or annotation only -> None)
    class_attr_ann: Dict[str, ast.AST] = field(default_factory=dict)
    inner: Dict[str, "ClassInfo"] = field(default_factory=dict)

    def __hash__(self):
        return id(self)

    def __eq__(self, other):
        return self is other

    def __repr__(self):
        return f"<class {self.qualname}>"


@dataclass
class ModuleInfo:
    name: str
    path: str
    relpath: str
    source: str
    tree: ast.Module
    is_package: bool
    ns: Dict[str, Binding] = field(default_factory=dict)
    all_names: Optional[List[str]] = None
    funcs: Dict[str, FuncInfo] = field(default_factory=dict)          # top-level functions
    classes: Dict[str, ClassInfo] = field(default_factory=dict)
    star_imports: List[Tuple[str, bool]] = field(default_factory=list)  # (modname, type_only)
    ops: list = field(default_factory=list)

    def __hash__(self):
        return id(self)

    def __eq__(self, other):
        return self is other


def _dotted(node: ast.AST) -> Optional[str]:
    if isinstance(node, ast.Name):
        return node.id
    if isinstance(node, ast.Attribute):
        b = _dotted(node.value)
        return f"{b}.{node.attr}" if b else None
    if isinstance(node, ast.Call):
        return _dotted(node.func)
    return None


class Program:
    """All modules of the package parsed from the working tree, with resolved namespaces."""

    def __init__(self, root: Optional[str] = None, overrides: Optional[Dict[str, str]] = None):
        """overrides: relpath -> source text, replacing the file content in memory (used for the
        built-in mutant controls: the current tree with one instance broken)."""
        self.root = root or repo_root()
        self.overrides = overrides or {}
        self.modules: Dict[str, ModuleInfo] = {}
        self.all_funcs: List[FuncInfo] = []
        self.all_classes: List[ClassInfo] = []
        self._func_of_node: Dict[int, FuncInfo] = {}
        self._load()
        self._collect_defs()
        self._resolve_namespaces()

    # ------------------------------------------------------------------ loading
    def _load(self):
        pkg_dir = os.path.join(self.root, PKG)
        if not os.path.isdir(pkg_dir):
            raise AnalysisError(f"package directory not found: {pkg_dir}")
        files = []
        for dp, dn, fn in os.walk(pkg_dir):
            dn[:] = sorted(d for d in dn if d != "__pycache__")
            for f in sorted(fn):
                if f.endswith(".py"):
                    files.append(os.path.join(dp, f))
        for path in files:
            rel = os.path.relpath(path, self.root)
            parts = rel[:-3].split(os.sep)
            is_pkg = parts[-1] == "__init__"
            if is_pkg:
                parts = parts[:-1]
            name = ".".join(parts)
            try:
                src = self.overrides[rel] if rel in self.overrides else open(path, encoding="utf-8").read()
                tree = ast.parse(src, filename=rel)
            except SyntaxError as e:
                raise AnalysisError(f"syntax error in {rel}: {e}")
            self.modules[name] = ModuleInfo(name, path, rel, src, tree, is_pkg)
        if f"{PKG}.main" not in self.modules:
            raise AnalysisError("OpenPinch.main not found")

    # ------------------------------------------------------------------ definitions
    def _collect_defs(self):
        for m in self.modules.values():
            self._collect_in(m, m.tree.body, None, None, prefix="")

    def _decorators(self, node) -> List[str]:
        out = []
        for d in getattr(node, "decorator_list", []):
            s = _dotted(d)
            if s:
                out.append(s)
        return out

    def _collect_in(self, m: ModuleInfo, body, cls: Optional[ClassInfo], parent: Optional[FuncInfo], prefix: str):
        for st in body:
            if isinstance(st, (ast.FunctionDef, ast.AsyncFunctionDef)):
                q = f"{m.name}:{prefix}{st.name}"
                fi = FuncInfo(m, st, st.name, q, cls=cls if parent is None else (parent.cls if parent else None), parent=parent,
                              decorators=self._decorators(st))
                if parent is not None:
                    fi.cls = parent.cls
                self.all_funcs.append(fi)
                self._func_of_node[id(st)] = fi
                if parent is not None:
                    parent.nested[st.name] = fi
                elif cls is not None:
                    if fi.is_setter:
                        cls.setters[st.name] = fi
                    elif any(d.endswith(".deleter") for d in fi.decorators):
                        pass
                    else:
                        cls.methods[st.name] = fi
                else:
                    m.funcs[st.name] = fi
                self._collect_nested(m, st, fi, prefix=f"{prefix}{st.name}.")
            elif isinstance(st, ast.ClassDef):
                q = f"{m.name}:{prefix}{st.name}"
                ci = ClassInfo(m, st, st.name, q, bases=list(st.bases))
                self.all_classes.append(ci)
                if cls is not None and parent is None:
                    cls.inner[st.name] = ci
                elif parent is None:
                    m.classes[st.name] = ci
                for s2 in st.body:
                    if isinstance(s2, ast.Assign):
                        for t in s2.targets:
                            if isinstance(t, ast.Name):
                                ci.class_attrs[t.id] = s2.value
                    elif isinstance(s2, ast.AnnAssign) and isinstance(s2.target, ast.Name):
                        ci.class_attrs[s2.target.id] = s2.value
                        ci.class_attr_ann[s2.target.id] = s2.annotation
                self._collect_in(m, st.body, ci, None, prefix=f"{prefix}{st.name}.")
            elif isinstance(st, (ast.If, ast.Try, ast.With, ast.For, ast.While)) and cls is None and parent is None:
                # module-level conditional definitions (e.g. TYPE_CHECKING blocks hold imports only)
                for sub in ast.iter_child_nodes(st):
                    pass

    def _collect_nested(self, m: ModuleInfo, fnode, fi: FuncInfo, prefix: str):
        """Find functions/classes nested anywhere in fnode's body (not inside deeper defs)."""
        def walk(stmts):
            for st in stmts:
                if isinstance(st, (ast.FunctionDef, ast.AsyncFunctionDef, ast.ClassDef)):
                    self._collect_in(m, [st], None, fi, prefix)
                else:
                    for fld in ("body", "orelse", "finalbody", "handlers"):
                        sub = getattr(st, fld, None)
                        if isinstance(sub, list):
                            blk = []
                            for x in sub:
                                if isinstance(x, ast.ExceptHandler):
                                    walk(x.body)
                                elif isinstance(x, ast.stmt):
                                    blk.append(x)
                            walk(blk)
                    if isinstance(st, ast.Match):
                        for c in st.cases:
                            walk(c.body)
        walk(fnode.body)

    def func_of_node(self, node) -> Optional[FuncInfo]:
        return self._func_of_node.get(id(node))

    # ------------------------------------------------------------------ namespaces
    def _abs_module(self, m: ModuleInfo, level: int, module: Optional[str]) -> str:
        if level == 0:
            return module or ""
        base = m.name.split(".")
        if not m.is_package:
            base = base[:-1]
        if level > 1:
            base = base[: len(base) - (level - 1)]
        if module:
            base = base + module.split(".")
        return ".".join(base)

    def _resolve_namespaces(self):
        """Bindings are replayed in statement order (a later binding overrides an earlier
        one, exactly as at import time); star imports are expanded against the current
        namespace of the source module; iterate to a fix-point (import cycles exist)."""
        for m in self.modules.values():
            m.ops = []
            self._direct_bindings(m)
        submods: Dict[str, List[Tuple[str, str]]] = {}
        for name in self.modules:
            if "." in name:
                parent, child = name.rsplit(".", 1)
                submods.setdefault(parent, []).append((child, name))

        def replay(m: ModuleInfo) -> Dict[str, Binding]:
            ns: Dict[str, Binding] = {}
            # importing a.b binds b in a's namespace; explicit bindings of the same name override
            for child, full in submods.get(m.name, []):
                ns[child] = Binding("module", full)
            for op in m.ops:
                if op[0] == "bind":
                    _, n, b = op
                    if b.kind == "pending":
                        src, attr = b.target
                        sm = self.modules.get(src)
                        sb = sm.ns.get(attr) if sm is not None else None
                        if sb is not None and sb.kind != "pending":
                            ns[n] = Binding(sb.kind, sb.target, b.type_only or sb.type_only)
                        elif f"{src}.{attr}" in self.modules:
                            ns[n] = Binding("module", f"{src}.{attr}", b.type_only)
                        else:
                            ns[n] = b
                    else:
                        ns[n] = b
                else:
                    _, src, type_only = op
                    sm = self.modules.get(src)
                    if sm is None:
                        continue
                    names = sm.all_names if sm.all_names is not None else [x for x in sm.ns if not x.startswith("_")]
                    for n in names:
                        sb = sm.ns.get(n)
                        if sb is None or sb.kind == "pending":
                            continue
                        ns[n] = Binding(sb.kind, sb.target, type_only or sb.type_only)
            return ns

        def sig(ns):
            return {k: (v.kind, id(v.target) if v.kind in ("func", "class") else repr(v.target)[:80]) for k, v in ns.items()}

        for _round in range(30):
            changed = False
            for m in self.modules.values():
                new = replay(m)
                if sig(new) != sig(m.ns):
                    changed = True
                m.ns = new
            if not changed:
                self.ns_rounds = _round + 1
                break
        else:
            raise AnalysisError("namespace resolution did not reach a fix-point")
        for m in self.modules.values():
            for n, b in list(m.ns.items()):
                if b.kind == "pending":
                    m.ns[n] = Binding("ext", f"{b.target[0]}.{b.target[1]}", b.type_only)

    def _direct_bindings(self, m: ModuleInfo):
        def bind(n, b):
            m.ops.append(("bind", n, b))

        def visit(stmts, type_only=False):
            for st in stmts:
                if isinstance(st, ast.Import):
                    for a in st.names:
                        if a.asname:
                            tgt = a.name
                            bind(a.asname, Binding("module", tgt, type_only) if tgt in self.modules else Binding("ext", tgt, type_only))
                        else:
                            top = a.name.split(".")[0]
                            bind(top, Binding("module", top, type_only) if top in self.modules else Binding("ext", top, type_only))
                elif isinstance(st, ast.ImportFrom):
                    src = self._abs_module(m, st.level, st.module)
                    for a in st.names:
                        if a.name == "*":
                            if src in self.modules:
                                m.star_imports.append((src, type_only))
                                m.ops.append(("star", src, type_only))
                            continue
                        b = a.asname or a.name
                        if src in self.modules or src.split(".")[0] == PKG:
                            bind(b, Binding("pending", (src, a.name), type_only))
                        else:
                            bind(b, Binding("ext", f"{src}.{a.name}", type_only))
                elif isinstance(st, (ast.FunctionDef, ast.AsyncFunctionDef)):
                    fi = self._func_of_node.get(id(st))
                    if fi is not None:
                        bind(st.name, Binding("func", fi, type_only))
                elif isinstance(st, ast.ClassDef):
                    ci = m.classes.get(st.name)
                    if ci is not None:
                        bind(st.name, Binding("class", ci, type_only))
                elif isinstance(st, ast.Assign):
                    for t in st.targets:
                        for nm in _target_names(t):
                            if nm == "__all__":
                                m.all_names = _literal_str_list(st.value)
                            bind(nm, Binding("var", (m.name, nm, st.value), type_only))
                elif isinstance(st, ast.AnnAssign) and isinstance(st.target, ast.Name):
                    bind(st.target.id, Binding("var", (m.name, st.target.id, st.value), type_only))
                elif isinstance(st, ast.AugAssign) and isinstance(st.target, ast.Name) and st.target.id == "__all__":
                    extra = _literal_str_list(st.value)
                    if m.all_names is not None and extra is not None:
                        m.all_names = m.all_names + extra
                elif isinstance(st, ast.If):
                    tc = _is_type_checking(st.test)
                    visit(st.body, type_only or tc)
                    visit(st.orelse, type_only)
                elif isinstance(st, ast.Try):
                    visit(st.body, type_only)
                    for h in st.handlers:
                        visit(h.body, type_only)
                    visit(st.orelse, type_only)
                    visit(st.finalbody, type_only)
                elif isinstance(st, (ast.With, ast.For, ast.While)):
                    visit(st.body, type_only)
        visit(m.tree.body)

    # ------------------------------------------------------------------ lookups
    def module_of(self, name: str) -> Optional[ModuleInfo]:
        return self.modules.get(name)

    def lookup(self, m: ModuleInfo, name: str) -> Optional[Binding]:
        return m.ns.get(name)

    def deref_var(self, b: Optional[Binding], depth: int = 0) -> Optional[Binding]:
        """Follow module-level alias assignments  X = Y / X = A = B  to the definition."""
        while b is not None and b.kind == "var" and depth < 10:
            modname, nm, val = b.target
            m = self.modules[modname]
            if isinstance(val, ast.Name):
                nb = m.ns.get(val.id)
                if nb is None or nb is b:
                    return b
                b = nb
                depth += 1
            elif isinstance(val, ast.Attribute):
                nb = self.resolve_attr_chain(m, val)
                if nb is None:
                    return b
                b = nb
                depth += 1
            else:
                return b
        return b

    def resolve_attr_chain(self, m: ModuleInfo, node: ast.AST, scope_lookup=None) -> Optional[Binding]:
        """Resolve a Name/Attribute chain through modules and classes (no instances)."""
        if isinstance(node, ast.Name):
            b = scope_lookup(node.id) if scope_lookup else m.ns.get(node.id)
            return self.deref_var(b)
        if isinstance(node, ast.Attribute):
            base = self.resolve_attr_chain(m, node.value, scope_lookup)
            if base is None:
                return None
            if base.kind == "module":
                bm = self.modules.get(base.target)
                if bm is None:
                    return None
                if node.attr in bm.ns:
                    return self.deref_var(bm.ns[node.attr])
                sub = f"{base.target}.{node.attr}"
                if sub in self.modules:
                    return Binding("module", sub)
                return None
            if base.kind == "ext":
                return Binding("ext", f"{base.target}.{node.attr}")
            if base.kind == "class":
                ci: ClassInfo = base.target
                if node.attr in ci.methods:
                    return Binding("func", ci.methods[node.attr])
                if node.attr in ci.inner:
                    return Binding("class", ci.inner[node.attr])
                if node.attr in ci.class_attrs:
                    return Binding("classattr", (ci, node.attr))
                return None
        return None

    def find_class(self, name: str) -> Optional[ClassInfo]:
        hits = [c for c in self.all_classes if c.name == name and ":" in c.qualname and "." not in c.qualname.split(":")[1]]
        return hits[0] if len(hits) == 1 else None

    def func(self, qual: str) -> Optional[FuncInfo]:
        for f in self.all_funcs:
            if f.qualname == qual:
                return f
        return None

    def funcs_named(self, name: str) -> List[FuncInfo]:
        return [f for f in self.all_funcs if f.name == name]

    def iter_funcs(self) -> Iterator[FuncInfo]:
        return iter(self.all_funcs)


def _target_names(t: ast.AST) -> List[str]:
    if isinstance(t, ast.Name):
        return [t.id]
    if isinstance(t, (ast.Tuple, ast.List)):
        out = []
        for e in t.elts:
            out += _target_names(e)
        return out
    return []


def _literal_str_list(node: ast.AST) -> Optional[List[str]]:
    if isinstance(node, (ast.List, ast.Tuple)) and all(isinstance(e, ast.Constant) and isinstance(e.value, str) for e in node.elts):
        return [e.value for e in node.elts]
    return None


def _is_type_checking(test: ast.AST) -> bool:
    s = _dotted(test)
    return s in ("TYPE_CHECKING", "typing.TYPE_CHECKING")


def dotted(node: ast.AST) -> Optional[str]:
    return _dotted(node)


def mutated_source(root: str, relpath: str, old: str, new: str, count: int = 1) -> Optional[Dict[str, str]]:
    """Overrides dict for Program(): `relpath` with `old` replaced by `new`; None when the anchor
    text does not occur exactly `count` times in the current tree (control is then skipped)."""
    path = os.path.join(root, relpath)
    if not os.path.exists(path):
        return None
    src = open(path, encoding="utf-8").read()
    if src.count(old) != count:
        return None
    return {relpath: src.replace(old, new)}

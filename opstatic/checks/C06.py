"""C06 - hot/cold role of the pinch rows is preserved from detection to the serialised record (ROLE)."""
from ..core.model import Program
from ..core.report import CheckContext
from ..core.resolve import Resolver
from ..rules import bookkeeping as bk
from ..rules import inval as _inval_rl
from ..rules import unitfree
from .common import run_control, generic_rules, anchor_funcs


def analyse(ctx: CheckContext, p: Program):
    r = Resolver(p)
    ctx.guard(generic_rules, ctx, p, r, "C06")
    ctx.guard(_inval_rl.check_round_last, ctx, p, r, anchor_funcs(p, "C06"))
    funcs = r.pipeline_cone()
    ctx.guard(bk.check_pinch_roles, ctx, p, r, funcs)
    ctx.guard(bk.check_symmetric_collapse, ctx, p, r, funcs)
    ctx.guard(unitfree.check_offset_free, ctx, p, r)


def run(ctx: CheckContext):
    p = Program()
    analyse(ctx, p)
    ctx.floor("ROLE", 12)
    ctx.assumptions += [
        "decides that hot and cold pinch rows/temperatures are never swapped on the way from detection to the record (role read from identifiers containing hot/cold); "
        "which rows are selected (first-zero/last-zero logic, tolerance) is numeric and NOT decided",
    ]
    run_control(ctx, "C06/kelvin-offset-in-shared-extractor", analyse, p.root, "OpenPinch/utils/miscellaneous.py",
                "    elif isinstance(val, ValueWithUnit):\n        return val.value",
                "    elif isinstance(val, ValueWithUnit):\n        return val.value - 273.15 if val.units == 'K' else val.value", "OFFSET-FREE")
    run_control(ctx, "C06/zero-pinch-dropped", analyse, p.root, "OpenPinch/classes/energy_target.py",
                "        elif isinstance(self.cold_pinch, float):", "        elif self.cold_pinch:", "TRUTHY")
    run_control(ctx, "C06/pinch-read-after-export-rounding", analyse, p.root, "OpenPinch/analysis/direct_integration_entry.py",
                "    zone.add_target_from_results(TargetType.DI.value, res)\n    return zone", "    res[\"cold_pinch\"] = pt.pinch_temperatures()[1]\n    zone.add_target_from_results(TargetType.DI.value, res)\n    return zone", "ROUND-LAST")
    run_control(ctx, "C06/unpack-swapped", analyse, p.root, "OpenPinch/analysis/direct_integration_entry.py",
                "hot_pinch, cold_pinch = pt.pinch_temperatures()", "cold_pinch, hot_pinch = pt.pinch_temperatures()", "ROLE")
    run_control(ctx, "C06/record-swapped", analyse, p.root, "OpenPinch/classes/energy_target.py",
                'temp_pinch = {"cold_temp": self.cold_pinch, "hot_temp": self.hot_pinch}', 'temp_pinch = {"cold_temp": self.hot_pinch, "hot_temp": self.cold_pinch}', "ROLE")
    run_control(ctx, "C06/rows-swapped-in-call", analyse, p.root, "OpenPinch/analysis/utility_targeting.py",
                "            T_vals, H_vals, utilities, hot_pinch_row, is_hot_ut=True,", "            T_vals, H_vals, utilities, cold_pinch_row, is_hot_ut=True,", "ROLE")
    run_control(ctx, "C06/one-sided-collapse", analyse, p.root, "OpenPinch/classes/energy_target.py",
                "if abs(self.cold_pinch - self.hot_pinch) < tol:", "if self.cold_pinch - self.hot_pinch < tol:", "ROLE-SYM")
    run_control(ctx, "C06/return-order", analyse, p.root, "OpenPinch/classes/problem_table.py",
                "        return row_h, row_c, valid", "        return row_c, row_h, valid", "ROLE")

"""TABLE - writer/reader/enum table agreement: T1/T2 (C08), T3 + TRAV (C13)."""
from __future__ import annotations

import ast
from typing import Dict, List, Optional, Set, Tuple

from ..core.model import AnalysisError, ClassInfo, FuncInfo, ModuleInfo, Program
from ..core.report import CheckContext, norm_stmt
from ..core.resolve import Resolver, body_nodes


def label_of(r: Resolver, f: Optional[FuncInfo], m: ModuleInfo, e: ast.AST, enum: ClassInfo) -> Optional[str]:
    node = e.value if isinstance(e, ast.Attribute) and e.attr == "value" else e
    if not isinstance(node, (ast.Name, ast.Attribute)):
        return None
    b = r.resolve_static(f, m, node)
    if b is not None and b.kind == "classattr" and b.target[0] is enum:
        return b.target[1]
    return None


def module_tuple(p: Program, r: Resolver, modname: str, var: str, enum: ClassInfo):
    m = p.modules.get(modname)
    b = m.ns.get(var) if m else None
    if b is None or b.kind != "var" or not isinstance(b.target[2], (ast.Tuple, ast.List)):
        raise AnalysisError(f"{modname}.{var} not found as a literal tuple")
    return m, b.target[2]


def check_interpolation_keys(ctx: CheckContext, p: Program, r: Resolver, rule: str = "T1"):
    ctx.rule(rule, "every cumulative column (ProblemTableLabel member named H_*) that any function writes is listed in INTERPOLATION_KEYS, "
                   "so rows inserted later take the interpolated value; no label is listed twice")
    lab = p.find_class("ProblemTableLabel")
    if lab is None:
        raise AnalysisError("ProblemTableLabel not found")
    m, tup = module_tuple(p, r, "OpenPinch.classes.problem_table", "INTERPOLATION_KEYS", lab)
    listed: List[str] = []
    for e in tup.elts:
        l = label_of(r, None, m, e, lab)
        if l is None:
            raise AnalysisError(f"{m.relpath}:{e.lineno}: INTERPOLATION_KEYS entry not understood: {ast.unparse(e)}")
        listed.append(l)
    dups = sorted({x for x in listed if listed.count(x) > 1})
    ctx.ob(rule, "INTERPOLATION_KEYS:unique", f"{m.relpath}:{tup.lineno}", not dups,
           "" if not dups else f"label(s) {dups} listed twice in INTERPOLATION_KEYS (a copy-paste slip that drops another column)")
    cumulative = [nm for nm in lab.class_attrs if nm.startswith("H_")]
    # columns written anywhere:  X.col[K] = ..., X.loc[i, K] = ..., dict literal keys {K: ...} that flow to update()/return
    written: Dict[str, Tuple[FuncInfo, ast.AST]] = {}
    for f in p.all_funcs:
        if isinstance(f.node, ast.Lambda):
            continue
        for n in body_nodes(f):
            keys: List[ast.AST] = []
            if isinstance(n, (ast.Assign, ast.AugAssign)):
                tgs = n.targets if isinstance(n, ast.Assign) else [n.target]
                for t in tgs:
                    if isinstance(t, ast.Subscript) and isinstance(t.value, ast.Attribute) and t.value.attr in ("col", "loc", "iloc"):
                        k = t.slice.elts[1] if isinstance(t.slice, ast.Tuple) and len(t.slice.elts) == 2 else t.slice
                        keys.append(k)
            elif isinstance(n, ast.Dict):
                keys += [k for k in n.keys if k is not None]
            for k in keys:
                l = label_of(r, f, f.module, k, lab)
                if l is not None and l not in written:
                    written[l] = (f, k)
    ctx.info["cumulative_labels"] = len(cumulative)
    ctx.info["cumulative_labels_written"] = sorted(l for l in written if l in cumulative)
    ctx.info["cumulative_labels_never_written"] = sorted(l for l in cumulative if l not in written)
    for l in sorted(cumulative):
        if l in written:
            f, k = written[l]
            ok = l in listed
            ctx.ob(rule, f"label:{l}", f"{f.module.relpath}:{k.lineno}", ok,
                   "" if ok else f"cumulative column ProblemTableLabel.{l} is written (first at {f.qualname.split(':')[1]}) but is not in INTERPOLATION_KEYS: "
                                 f"a row inserted later copies or zeroes it instead of interpolating, so the curve changes")
    return listed


def check_capacity_pairs(ctx: CheckContext, p: Program, r: Resolver, rule: str = "T2"):
    ctx.rule(rule, "HEAT_CAPACITY_PAIRS pairs CP_x with DELTA_H_x of the same x for x in {HOT, COLD, NET}")
    lab = p.find_class("ProblemTableLabel")
    m, tup = module_tuple(p, r, "OpenPinch.classes.problem_table", "HEAT_CAPACITY_PAIRS", lab)
    seen = set()
    for e in tup.elts:
        if not (isinstance(e, (ast.Tuple, ast.List)) and len(e.elts) == 2):
            raise AnalysisError(f"{m.relpath}:{e.lineno}: HEAT_CAPACITY_PAIRS entry is not a pair")
        a, b = (label_of(r, None, m, x, lab) for x in e.elts)
        ok = a is not None and b is not None and a.startswith("CP_") and b == "DELTA_H_" + a[3:]
        seen.add(a)
        ctx.ob(rule, f"pair:{a}", f"{m.relpath}:{e.lineno}", ok, "" if ok else f"({a}, {b}) does not pair a heat-capacity column with the enthalpy change of the same side")
    for x in ("CP_HOT", "CP_COLD", "CP_NET"):
        ctx.ob(rule, f"covers:{x}", f"{m.relpath}:{tup.lineno}", x in seen, "" if x in seen else f"{x} has no (CP, dH) pair: its dH is not recomputed for inserted rows")


# =========================================================================================
def _graph_slices(p: Program, r: Resolver, gt: ClassInfo, lab: ClassInfo) -> Dict[str, List[Tuple[Optional[FuncInfo], Set[str], ast.AST, ModuleInfo]]]:
    """graph type -> [(producer function or None for a module-level table, set of column labels, node, module)].
    A producer is any dict literal keyed by GraphType members whose value contains a literal list/tuple of column labels
    (`pt[[...]]` slices as well as declarative layout tables such as {GT.X.value: (flag, (labels...))})."""
    out: Dict[str, List[Tuple[Optional[FuncInfo], Set[str], ast.AST, ModuleInfo]]] = {}

    def scan_dict(n: ast.Dict, f: Optional[FuncInfo], m: ModuleInfo):
        for k, v in zip(n.keys, n.values):
            if k is None:
                continue
            g = label_of(r, f, m, k, gt)
            if g is None:
                continue
            cols: Set[str] = set()
            for sub in ast.walk(v):
                if isinstance(sub, (ast.List, ast.Tuple)):
                    labs = [label_of(r, f, m, e, lab) for e in sub.elts]
                    if labs and all(l is not None for l in labs):
                        cols |= set(labs)
            if cols:
                out.setdefault(g, []).append((f, cols, k, m))

    for f in p.all_funcs:
        if isinstance(f.node, ast.Lambda):
            continue
        for n in body_nodes(f):
            if isinstance(n, ast.Dict):
                scan_dict(n, f, f.module)
    for m in p.modules.values():
        for st in m.tree.body:
            if isinstance(st, (ast.Assign, ast.AnnAssign)) and isinstance(getattr(st, "value", None), ast.Dict):
                scan_dict(st.value, None, m)
    return out


def check_graph_tables(ctx: CheckContext, p: Program, r: Resolver, rule: str = "T3"):
    ctx.rule(rule, "for every graph type consumed when building a graph set: the tested key, the key= argument and the subscript of t.graphs[...] name the same "
                   "GraphType member; requested columns are a subset of the columns the producers slice for that type; zipped parallel lists have equal length; "
                   "every consumed type has a producer; sibling consumers agree on the per-series flags")
    gt, lab = p.find_class("GraphType"), p.find_class("ProblemTableLabel")
    gm = p.modules.get("OpenPinch.analysis.graph_data")
    if gt is None or lab is None or gm is None:
        raise AnalysisError("GraphType / ProblemTableLabel / graph_data not found")
    produced = _graph_slices(p, r, gt, lab)
    ctx.info["graph_types_produced"] = {g: sorted(set().union(*[c for _, c, _, _ in v])) for g, v in sorted(produced.items())}
    consumed: Set[str] = set()
    series_flags: Dict[str, List[Tuple[FuncInfo, tuple, tuple, ast.AST]]] = {}
    for f in [x for x in p.all_funcs if x.module is gm and not isinstance(x.node, ast.Lambda)]:
        for n in body_nodes(f):
            if not isinstance(n, ast.If):
                continue
            t = n.test
            if not (isinstance(t, ast.Compare) and len(t.ops) == 1 and isinstance(t.ops[0], ast.In)):
                continue
            g = label_of(r, f, f.module, t.left, gt)
            if g is None:
                continue
            consumed.add(g)
            for c in ast.walk(ast.Module(body=n.body, type_ignores=[])):
                if not isinstance(c, ast.Call):
                    continue
                kws = {k.arg: k.value for k in c.keywords if k.arg}
                if "key" not in kws or "data" not in kws:
                    continue
                kg = label_of(r, f, f.module, kws["key"], gt)
                dg = None
                if isinstance(kws["data"], ast.Subscript):
                    dg = label_of(r, f, f.module, kws["data"].slice, gt)
                ok = kg == g and dg == g
                ctx.ob(rule, f"{f.qualname}:{g}:keys", f"{f.module.relpath}:{c.lineno}", ok,
                       "" if ok else f"graph type tested is GraphType.{g} but the graph is keyed {kg} and reads t.graphs[{dg}]")
                cols_node = kws.get("col_keys") or kws.get("value_field")
                cols: List[str] = []
                if isinstance(cols_node, (ast.List, ast.Tuple)):
                    for e in cols_node.elts:
                        l = label_of(r, f, f.module, e, lab)
                        if l is None:
                            raise AnalysisError(f"{f.module.relpath}:{e.lineno}: graph column not understood: {ast.unparse(e)}")
                        cols.append(l)
                prods = produced.get(g, [])
                okp = bool(prods)
                if not okp and not produced:
                    # no producer of ANY graph type was recognised: the slices are built in a form this rule does not interpret (undecided, not an alarm)
                    ctx.info.setdefault("t3_undecided", []).append(f"{g}: no table-slice producer recognised anywhere")
                    continue
                ctx.ob(rule, f"{f.qualname}:{g}:producer", f"{f.module.relpath}:{c.lineno}", okp,
                       "" if okp else f"graph type GraphType.{g} is rendered but no function stores a table slice under it")
                for (pf, pcols, pk, pm) in prods:
                    missing = [x for x in ["T"] + cols if x not in pcols]
                    okc = not missing
                    if missing and pf is None:
                        # a declarative layout table lists the columns a helper slices; the helper may add more (the temperature column, typically):
                        # the table is a lower bound of what is stored, so a "missing" column is undecided, not an alarm
                        ctx.info.setdefault("t3_undecided", []).append(f"{g}: {missing} not in the module-level layout table")
                        continue
                    pname = pf.qualname.split(':')[1] if pf is not None else f"{pm.name.split('.')[-1]} (module table)"
                    ctx.ob(rule, f"{f.qualname}:{g}:columns<={pname}", f"{f.module.relpath}:{c.lineno}", okc,
                           "" if okc else f"graph {g} requests column(s) {missing} that {pname} does not store for it (KeyError / wrong curve at run time)")
                par = kws.get("stream_types") or kws.get("is_utility_profile")
                if isinstance(par, (ast.List, ast.Tuple)) and cols:
                    okl = len(par.elts) == len(cols)
                    ctx.ob(rule, f"{f.qualname}:{g}:parallel-lists", f"{f.module.relpath}:{c.lineno}", okl,
                           "" if okl else f"{len(cols)} columns zipped with {len(par.elts)} per-series entries: trailing series are silently dropped")
                    flags = tuple(ast.unparse(e) for e in par.elts)
                    series_flags.setdefault(g, []).append((f, tuple(cols), flags, c))
    # sibling consumers of the same graph type (graph set builder vs. visualise_graphs) agree
    for f in [x for x in p.all_funcs if x.module is gm and not isinstance(x.node, ast.Lambda)]:
        for n in body_nodes(f):
            if isinstance(n, ast.Call):
                kws = {k.arg: k.value for k in n.keywords if k.arg}
                vf, fl = kws.get("value_field"), kws.get("is_utility_profile")
                if isinstance(vf, (ast.List, ast.Tuple)) and isinstance(fl, (ast.List, ast.Tuple)):
                    cols = tuple(label_of(r, f, f.module, e, lab) for e in vf.elts)
                    flags = tuple(ast.unparse(e) for e in fl.elts)
                    for g, lst in series_flags.items():
                        for (f2, cols2, flags2, c2) in lst:
                            if cols2 == cols and c2 is not n:
                                ok = flags2 == flags
                                ctx.ob(rule + "-SIB", f"{f.qualname}:{g}:flags~{f2.name}", f"{f.module.relpath}:{n.lineno}", ok,
                                       "" if ok else f"the same series {list(cols)} are classified {list(flags)} here but {list(flags2)} in {f2.name}")
    ctx.info["graph_types_consumed"] = sorted(consumed)
    ctx.info["graph_types_stored_but_not_rendered"] = sorted(set(produced) - consumed)
    return consumed


def _iter_sources(node: ast.AST):
    """(iter expression, body nodes) of every for-loop and comprehension generator under node"""
    for n in ast.walk(node):
        if isinstance(n, ast.For):
            yield n.iter, n
        elif isinstance(n, (ast.ListComp, ast.SetComp, ast.GeneratorExp, ast.DictComp)):
            for g in n.generators:
                yield g.iter, n


def _foreign_guards(f: FuncInfo, owner: ast.AST, zp: str, attr: str) -> List[str]:
    """tests of if-statements enclosing `owner` that do not speak about <zp>.<attr> (a traversal of X guarded by a test on Y skips members)"""
    out: List[str] = []

    def walk(cur, guards):
        if cur is owner:
            out.extend(guards)
            return True
        for ch in ast.iter_child_nodes(cur):
            if isinstance(ch, (ast.FunctionDef, ast.AsyncFunctionDef, ast.ClassDef)):
                continue
            g2 = guards
            if isinstance(cur, ast.If) and ch is not cur.test:
                mentions = any(isinstance(x, ast.Attribute) and x.attr == attr and isinstance(x.value, ast.Name) and x.value.id == zp for x in ast.walk(cur.test))
                other = any(isinstance(x, ast.Attribute) and isinstance(x.value, ast.Name) and x.value.id == zp and x.attr != attr for x in ast.walk(cur.test))
                if other or not mentions:
                    g2 = guards + [ast.unparse(cur.test)]
            if walk(ch, g2):
                return True
        return False
    walk(f.node, [])

    # guard clauses: `if T: return/raise/continue/break` standing before the traversal in an enclosing block
    def foreign(test: ast.AST) -> bool:
        mentions = any(isinstance(x, ast.Attribute) and x.attr == attr and isinstance(x.value, ast.Name) and x.value.id == zp for x in ast.walk(test))
        other = any(isinstance(x, ast.Attribute) and isinstance(x.value, ast.Name) and x.value.id == zp and x.attr != attr for x in ast.walk(test))
        return other or not mentions

    def contains(node: ast.AST) -> bool:
        return any(x is owner for x in ast.walk(node))

    def blocks(cur: ast.AST):
        for fld in ("body", "orelse", "finalbody"):
            stmts = getattr(cur, fld, None)
            if isinstance(stmts, list) and stmts and isinstance(stmts[0], ast.stmt):
                for i, st in enumerate(stmts):
                    if contains(st):
                        for prev in stmts[:i]:
                            if isinstance(prev, ast.If) and not prev.orelse and prev.body and isinstance(prev.body[-1], (ast.Return, ast.Raise, ast.Continue, ast.Break)) \
                                    and foreign(prev.test):
                                out.append(f"not ({ast.unparse(prev.test)}) [early exit]")
                        if not isinstance(st, (ast.FunctionDef, ast.AsyncFunctionDef, ast.ClassDef)):
                            blocks(st)
                        return
        for h in getattr(cur, "handlers", []) or []:
            if contains(h):
                blocks(h)
    blocks(f.node)
    return out


def _visits_all(r: Resolver, f: FuncInfo, names: Set[str]) -> Dict[str, str]:
    """status of the two iterations in one function: {'targets': ok|guarded|mentioned|absent, 'subzones': ..., 'rec': bool}
    The zone may be the function's parameter or any other variable (e.g. the loop variable of a zone generator)."""
    st = {"targets": "absent", "subzones": "absent", "rec": False}
    rank = {"absent": 0, "mentioned": 1, "guarded": 2, "ok": 3}
    for x in ast.walk(f.node):
        if isinstance(x, ast.Attribute) and x.attr in ("targets", "subzones") and rank[st[x.attr]] < 1:
            st[x.attr] = "mentioned"
    for it, owner in _iter_sources(f.node):
        base = None
        if isinstance(it, ast.Call) and isinstance(it.func, ast.Attribute) and it.func.attr in ("values", "items"):
            base = it.func.value
        elif isinstance(it, ast.Attribute):
            base = it
        if isinstance(base, ast.Attribute) and isinstance(base.value, ast.Name) and base.attr in ("targets", "subzones"):
            if isinstance(it, ast.Attribute) and base.attr == "subzones":
                continue                      # iterating the dict itself yields the names, not the zones
            zv = base.value.id
            new = "guarded" if _foreign_guards(f, owner, zv, base.attr) else "ok"
            if rank[new] > rank[st[base.attr]] or (new == "guarded" and st[base.attr] != "ok"):
                st[base.attr] = new
            if base.attr == "subzones":
                for c in ast.walk(owner):
                    if isinstance(c, ast.Call) and isinstance(c.func, ast.Name) and c.func.id in names:
                        st["rec"] = True
    return st


def _traversal_function(r: Resolver, entry: FuncInfo):
    """the functions (entry and the helpers of its module it reaches, generators included) that walk targets and sub-zones"""
    cands = [entry]
    for g in list(cands):
        pass
    frontier = [entry]
    for _ in range(3):
        nxt = []
        for g in frontier:
            for call, tg in r.calls_of(g):
                for t in tg:
                    if isinstance(t, FuncInfo) and t.module is entry.module and t not in cands and not isinstance(t.node, ast.Lambda):
                        cands.append(t)
                        nxt.append(t)
        frontier = nxt
    names = {c.name for c in cands}
    per = {g: _visits_all(r, g, names) for g in cands}
    rank = {"absent": 0, "mentioned": 1, "guarded": 2, "ok": 3}

    def combine(attr):
        vals = [v[attr] for v in per.values()]
        if "ok" in vals:
            return "ok"
        if "guarded" in vals:
            return "guarded"
        return "mentioned" if "mentioned" in vals else "absent"
    status = {"targets": combine("targets"), "subzones": combine("subzones"), "rec": any(v["rec"] for v in per.values())}
    # the walker: the candidate where the graph sets / report lines are produced is looked up by the caller among all candidates
    best = max(cands, key=lambda g: (per[g]["targets"] == "ok") + (per[g]["subzones"] == "ok") + per[g]["rec"])
    return best, status, cands


def check_traversal(ctx: CheckContext, p: Program, r: Resolver, rule: str = "TRAV"):
    ctx.rule(rule, "the record report and the graph-set builder visit the same set: each (itself or through a helper of its module) iterates all of zone.targets "
                   "and recurses into all of zone.subzones.values(); a graph set is stored under the key it is titled with; add_target stores a record under its own name")
    main = p.modules["OpenPinch.main"]
    gm = p.modules["OpenPinch.analysis.graph_data"]
    rep, gsd = main.funcs.get("_get_report"), gm.funcs.get("get_output_graph_data")
    if rep is None or gsd is None:
        raise AnalysisError("_get_report / get_output_graph_data not found")
    walkers = {}
    for f in (rep, gsd):
        g, stt, cands = _traversal_function(r, f)
        walkers[f] = cands
        ok = stt["targets"] == "ok" and stt["subzones"] == "ok" and stt["rec"]
        definite = stt["targets"] in ("guarded", "absent") or stt["subzones"] in ("guarded", "absent") or (stt["subzones"] == "ok" and not stt["rec"])
        if not ok and not definite:
            ctx.info.setdefault("trav_undecided", []).append(f"{f.qualname}: {stt}")
            continue                      # the iteration is written in a form this rule does not interpret: undecided, not an alarm
        ctx.ob(rule, f"{f.qualname}:visits", f.loc, ok,
               "" if ok else f"{f.name} does not visit every target of every zone (zone.targets: {stt['targets']}, zone.subzones: {stt['subzones']}, "
                             f"descends into the sub-zones: {stt['rec']}; 'guarded' = only under a condition on something else)")
    # key == title, wherever the graph-set creator is called in the walker
    n_sites = 0
    for w in walkers[gsd]:
      for node in body_nodes(w):
          pairs = []
          if isinstance(node, ast.Assign) and len(node.targets) == 1 and isinstance(node.targets[0], ast.Subscript) and isinstance(node.value, ast.Call):
              pairs.append((node.targets[0].slice, node.value, node))
          elif isinstance(node, ast.Tuple) and len(node.elts) == 2 and isinstance(node.elts[1], ast.Call):
              pairs.append((node.elts[0], node.elts[1], node))
          elif isinstance(node, ast.DictComp) and isinstance(node.value, ast.Call):
              pairs.append((node.key, node.value, node))
          for keyn, call, site in pairs:
              tg = [t for t in r.resolve_call(w, call) if isinstance(t, FuncInfo) and t.module is gm]
              if not tg or len(call.args) < 2:
                  continue
              n_sites += 1
              ok = isinstance(keyn, ast.Name) and isinstance(call.args[1], ast.Name) and call.args[1].id == keyn.id
              ctx.ob(rule, f"{w.qualname}:key==title", f"{w.module.relpath}:{site.lineno}", ok,
                     "" if ok else "a graph set is stored under a key different from the name it is titled with")
    if n_sites == 0:
        raise AnalysisError(f"{gsd.loc}: the statement that stores a graph set under its key was not recognised")
    cgs = gm.funcs.get("_create_graph_set")
    if cgs is not None and len(cgs.pos_params) >= 2:
        title = cgs.pos_params[1]
        for n in body_nodes(cgs):
            if isinstance(n, ast.Return) and isinstance(n.value, ast.Dict):
                for k, v in zip(n.value.keys, n.value.values):
                    if isinstance(k, ast.Constant) and k.value == "name":
                        ok = isinstance(v, ast.Name) and v.id == title
                        ctx.ob(rule, f"{cgs.qualname}:name", f"{cgs.module.relpath}:{n.lineno}", ok, "" if ok else "graph set 'name' is not the title it was requested with")
    zone = p.find_class("Zone")
    at = zone.methods.get("add_target") if zone else None
    if at is None:
        raise AnalysisError("Zone.add_target not found")
    okk = False
    for n in body_nodes(at):
        if isinstance(n, ast.Assign) and isinstance(n.targets[0], ast.Subscript):
            k = n.targets[0].slice
            okk = isinstance(k, ast.Attribute) and k.attr == "name" and isinstance(k.value, ast.Name) and isinstance(n.value, ast.Name) and k.value.id == n.value.id
    ctx.ob(rule, f"{at.qualname}:own-name", at.loc, okk, "" if okk else "Zone.add_target does not store the record under its own name")


def check_insert_count(ctx: CheckContext, p: Program, r: Resolver, rule: str = "COUNT"):
    """`insert_temperature_interval` returns the number of rows actually added: the count that leaves the method is (an alias of)
    the amount by which the expanded buffer was sized, and 0 on the paths that keep the buffer."""
    ctx.rule(rule, "the insertion count returned to callers is the very quantity the expanded buffer was enlarged by (alias-following), and literal 0 on paths "
                   "that do not replace the buffer - callers rebase row indices by it and treat 0 as 'views still valid'")
    pt = p.find_class("ProblemTable")
    if pt is None:
        raise AnalysisError("ProblemTable not found")
    ins = pt.methods.get("insert_temperature_interval")
    if ins is None:
        raise AnalysisError("ProblemTable.insert_temperature_interval not found")

    def aliases_of(f: FuncInfo, name: str) -> Set[str]:
        al = {name}
        for _ in range(4):
            for n in body_nodes(f):
                if isinstance(n, ast.Assign) and isinstance(n.value, ast.Name) and n.value.id in al:
                    for t in n.targets:
                        if isinstance(t, ast.Name):
                            al.add(t.id)
                elif isinstance(n, ast.AnnAssign) and isinstance(n.value, ast.Name) and n.value.id in al and isinstance(n.target, ast.Name):
                    al.add(n.target.id)           # inserted_total: int = total_new
                elif isinstance(n, ast.Assign) and isinstance(n.value, ast.Call) and isinstance(n.value.func, ast.Name) and n.value.func.id == "int" \
                        and len(n.value.args) == 1 and isinstance(n.value.args[0], ast.Name) and n.value.args[0].id in al:
                    for t in n.targets:
                        if isinstance(t, ast.Name):
                            al.add(t.id)
        return al

    # the builder: a method that allocates np.zeros/empty/full((rows + added, cols)) and returns (buffer, count)
    builder, added = None, None
    for nm, f in pt.methods.items():
        for n in body_nodes(f):
            if isinstance(n, ast.Call) and isinstance(n.func, ast.Attribute) and n.func.attr in ("zeros", "empty", "full") and n.args \
                    and isinstance(n.args[0], ast.Tuple) and n.args[0].elts and isinstance(n.args[0].elts[0], ast.BinOp) and isinstance(n.args[0].elts[0].op, ast.Add):
                e = n.args[0].elts[0]
                names = [x.id for x in (e.left, e.right) if isinstance(x, ast.Name)]
                for cand in names:
                    # the other operand must be the current row count
                    builder, added = f, cand
    if builder is None:
        raise AnalysisError("buffer-expanding method of ProblemTable not recognised (anchor vanished)")
    # which operand is the row count?  the one unpacked from self.data.shape
    shape_vars = set()
    for n in body_nodes(builder):
        if isinstance(n, ast.Assign) and isinstance(n.targets[0], ast.Tuple) and "shape" in ast.unparse(n.value):
            shape_vars |= {e.id for e in n.targets[0].elts if isinstance(e, ast.Name)}
    for n in body_nodes(builder):
        if isinstance(n, ast.Call) and isinstance(n.func, ast.Attribute) and n.func.attr in ("zeros", "empty", "full") and n.args and isinstance(n.args[0], ast.Tuple):
            e = n.args[0].elts[0]
            if isinstance(e, ast.BinOp):
                ops = [x.id for x in (e.left, e.right) if isinstance(x, ast.Name)]
                rest = [x for x in ops if x not in shape_vars]
                if len(rest) == 1:
                    added = rest[0]
    al = aliases_of(builder, added)
    n_ret = 0
    for rt in [x for x in body_nodes(builder) if isinstance(x, ast.Return) and isinstance(x.value, ast.Tuple) and len(x.value.elts) == 2]:
        n_ret += 1
        cnt = rt.value.elts[1]
        buf = rt.value.elts[0]
        keeps = ast.unparse(buf) == "self.data"
        ok = (isinstance(cnt, ast.Name) and cnt.id in al and not keeps) or (keeps and isinstance(cnt, ast.Constant) and cnt.value == 0)
        if not ok and not keeps:
            # the count may be re-computed instead of aliased: the same expression as the growth amount is fine, a recognisably different quantity
            # (len() of the interval map, a constant, arithmetic without the growth amount) is the violation; anything else is undecided
            e = cnt
            if isinstance(e, ast.Name):
                defs = [a.value for a in body_nodes(builder) if isinstance(a, (ast.Assign, ast.AnnAssign)) and a.value is not None
                        and any(isinstance(t, ast.Name) and t.id == e.id for t in (a.targets if isinstance(a, ast.Assign) else [a.target]))]
                e = defs[0] if len(defs) == 1 else None
            growth_defs = [a.value for a in body_nodes(builder) if isinstance(a, (ast.Assign, ast.AnnAssign)) and a.value is not None
                           and any(isinstance(t, ast.Name) and t.id == added for t in (a.targets if isinstance(a, ast.Assign) else [a.target]))]
            if e is not None and growth_defs and ast.dump(e) == ast.dump(growth_defs[0]):
                ok = True
            elif e is None or not (isinstance(e, ast.Constant) or (isinstance(e, ast.Call) and isinstance(e.func, ast.Name) and e.func.id == "len")
                                   or (isinstance(e, ast.BinOp) and not ({x.id for x in ast.walk(e) if isinstance(x, ast.Name)} & al))):
                ctx.info.setdefault("count_undecided", []).append(f"{builder.qualname}: returned count `{ast.unparse(cnt)}` is neither the growth amount nor a recognisably different quantity")
                continue
        ctx.ob(rule, f"{builder.qualname}:{norm_stmt(rt)}", f"{builder.module.relpath}:{rt.lineno}", ok,
               "" if ok else f"{builder.name} returns `{ast.unparse(cnt)}` as the number of inserted rows, which is not the amount '{added}' the buffer grew by")
    if n_ret == 0:
        raise AnalysisError(f"{builder.loc}: no (buffer, count) return recognised")
    # the public method hands that count on
    cntvars: Set[str] = set()
    for n in body_nodes(ins):
        if isinstance(n, ast.Assign) and isinstance(n.targets[0], ast.Tuple) and len(n.targets[0].elts) == 2 and isinstance(n.value, ast.Call) \
                and builder in r.resolve_call(ins, n.value) and isinstance(n.targets[0].elts[1], ast.Name):
            cntvars |= aliases_of(ins, n.targets[0].elts[1].id)
    if not cntvars:
        raise AnalysisError(f"{ins.loc}: the call that expands the buffer was not recognised")
    replaced_line = min([n.lineno for n in body_nodes(ins) if isinstance(n, ast.Assign) and "self.data" in [ast.unparse(t1) for t in n.targets for t1 in (t.elts if isinstance(t, ast.Tuple) else [t])]] or [10**9])
    for rt in [x for x in body_nodes(ins) if isinstance(x, ast.Return)]:
        v = rt.value
        if rt.lineno < replaced_line:
            ok = isinstance(v, ast.Constant) and v.value == 0
            why = f"insert_temperature_interval returns `{ast.unparse(v) if v else None}` before any row was inserted (must be 0)"
        else:
            ok = isinstance(v, ast.Name) and v.id in cntvars
            why = f"insert_temperature_interval returns `{ast.unparse(v) if v else None}` instead of the count produced by {builder.name}"
        ctx.ob(rule, f"{ins.qualname}:{norm_stmt(rt)}", f"{ins.module.relpath}:{rt.lineno}", ok, "" if ok else why)


# =========================================================================================
# BLOCK-ENDS - the two rows just outside a run of positions are taken from the two different ends of the run
# =========================================================================================
def check_block_ends(ctx: CheckContext, p: Program, r: Resolver, rule: str = "BLOCK-ENDS"):
    """Rows are inserted as runs of consecutive positions.  The existing row above a run is `first - 1`, the one below is `last + 1`.  Taking both
    neighbours from the SAME end (`run[-1] + 1` next to `run[-1] - 1`, `run[0] - 1` next to `run[0] + 1`) is right only for runs of one row - exactly
    what the single-insert tests use - and lands inside the run otherwise."""
    ctx.rule(rule, "in the row-insertion code of the problem table, `S[i] + 1` and `S[i] - 1` with the same sequence S and the same end index i (0 or -1, also "
                   "through a local alias) do not occur together: the neighbours of a run of positions come from its two different ends")
    pt = p.find_class("ProblemTable")
    if pt is None:
        raise AnalysisError("ProblemTable not found")
    n = 0
    for f in list(pt.methods.values()):
        if isinstance(f.node, ast.Lambda):
            continue
        nodes = body_nodes(f)
        alias = {}
        for a in nodes:
            if isinstance(a, ast.Assign) and len(a.targets) == 1 and isinstance(a.targets[0], ast.Name) and isinstance(a.value, ast.Subscript) \
                    and isinstance(a.value.value, ast.Name) and isinstance(a.value.slice, (ast.Constant, ast.UnaryOp)):
                try:
                    i = ast.literal_eval(a.value.slice)
                except Exception:
                    continue
                if i in (0, -1):
                    alias[a.targets[0].id] = (a.value.value.id, i)
        seen = {}
        for b in nodes:
            if not (isinstance(b, ast.BinOp) and isinstance(b.op, (ast.Add, ast.Sub)) and isinstance(b.right, ast.Constant) and b.right.value == 1):
                continue
            base = None
            if isinstance(b.left, ast.Subscript) and isinstance(b.left.value, ast.Name):
                try:
                    i = ast.literal_eval(b.left.slice)
                except Exception:
                    i = None
                if i in (0, -1):
                    base = (b.left.value.id, i)
            elif isinstance(b.left, ast.Name) and b.left.id in alias:
                base = alias[b.left.id]
            if base is None:
                continue
            seen.setdefault(base, {})["+" if isinstance(b.op, ast.Add) else "-"] = b
        for (seq, i), ops in seen.items():
            n += 1
            ok = len(ops) < 2
            b = ops.get("-" if i == -1 else "+") or next(iter(ops.values()))
            ctx.ob(rule, f"{f.qualname}:{seq}[{i}]", f"{f.module.relpath}:{b.lineno}", ok,
                   "" if ok else f"{f.name} computes both `{seq}[{i}] + 1` and `{seq}[{i}] - 1`: one of the two neighbours of the run `{seq}` is taken from the wrong end "
                                 f"(it is right only when the run has a single row) - with several rows it points into the run itself")
    return n

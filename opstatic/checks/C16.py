"""C16 - channel equivalence clauses decidable from shape: wrapper cache invalidation (MEMO), reader API exists in the
installed pandas (API), sheet names legal for all names (BOUND), reader tables cover the schema (T5)."""
from ..core.model import AnalysisError, Program
from ..core.report import CheckContext
from ..core.resolve import Resolver
from ..rules import api, classflow, readers, sheetnames
from .common import run_control, generic_rules


def analyse(ctx: CheckContext, p: Program):
    r = Resolver(p)
    ctx.guard(generic_rules, ctx, p, r, "C16")
    ctx.guard(_specific, ctx, p, r)
    ctx.guard(_io_rules, ctx, p, r)


def _specific(ctx: CheckContext, p: Program, r: Resolver):
    pp = p.find_class("PinchProblem")
    if pp is None:
        raise AnalysisError("PinchProblem not found")
    pats = classflow.find_none_guard_memo(r, pp)
    if len(pats) == 0:
        # "the wrapper returns the cached result on repeated targeting": a result field that is recomputed unconditionally is a violation, not an analysis problem
        import ast
        for nm, f in pp.methods.items():
            for n in ast.walk(f.node):
                if isinstance(n, ast.Assign) and isinstance(n.value, ast.Call) and any(
                        isinstance(t1, ast.Attribute) and t1.attr == "_results" for t in n.targets for t1 in (t.elts if isinstance(t, (ast.Tuple, ast.List)) else [t])):
                    ctx.ob("MEMO-CACHE", f"{f.qualname}:{nm}", f.loc, False,
                           f"PinchProblem.{nm} recomputes the targeting result on every call: no `is None` guard protects the cached result")
                    return
    if len(pats) != 1:
        raise AnalysisError(f"PinchProblem: expected one None-guarded result cache, found {len(pats)}")
    pat = pats[0]
    ctx.ob("MEMO-CACHE", f"{pat.method.qualname}:guard", pat.method.loc, True, f"result cached behind `{pat.flag} is None`")
    ctx.rule("MEMO", "None-guarded memo: at every normal exit of a method reachable after a write to a field the cached result is computed from, "
                     "the cache has been reset to None (before or after the write, with no recomputation in between)")
    ctx.info["result_cache"] = {"method": pat.method.qualname, "guard": pat.flag, "caches": pat.caches, "sources": sorted(pat.sources)}
    ctx.guard(classflow.check_memo, ctx, r, pat, "MEMO")
    ctx.guard(readers.check_foreign_field_writes, ctx, p, r, pp, set(pat.sources), "MEMO-EXT")


def _io_rules(ctx: CheckContext, p: Program, r: Resolver):
    ctx.guard(api.check_dataframe_api, ctx, p, r, ["OpenPinch.utils.csv_to_json", "OpenPinch.utils.wkbook_to_json"])
    fs = [f for f in p.all_funcs if f.module.name in ("OpenPinch.utils.csv_to_json", "OpenPinch.utils.wkbook_to_json", "OpenPinch.utils.export")]
    ctx.guard(api.check_module_attrs, ctx, p, r, fs)
    ctx.guard(sheetnames.check_sheet_names, ctx, p, r)
    ctx.guard(readers.check_reader_tables, ctx, p, r)


def run(ctx: CheckContext):
    p = Program()
    analyse(ctx, p)
    ctx.floor("MEMO-M1", 4)       # the loader's writer exits
    ctx.floor("API-DF", 8)
    ctx.floor("BOUND-LEN", 1)
    ctx.floor("BOUND-UNIQ", 1)
    ctx.floor("BOUND-SITE", 2)
    ctx.floor("BOUND-CHARS", 3)
    ctx.floor("T5", 14)
    ctx.assumptions += [
        "decides: every loader path invalidates the cached result; reader calls exist in the installed pandas; sheet names are <= 31 chars, legal and unique "
        "for all names; reader tables cover the schema.  Numeric equality of targets across channels is NOT decided",
        "installed library inspected: pandas.DataFrame attribute table (the property is stated for the installed environment)",
    ]
    run_control(ctx, "C16/load-keeps-cache", analyse, p.root, "OpenPinch/classes/pinch_problem.py",
                "        self._results = None\n        self._master_zone = None\n\n        if isinstance(source, TargetInput):", "        if isinstance(source, TargetInput):", "MEMO-M1")
    run_control(ctx, "C16/always-recompute", analyse, p.root, "OpenPinch/classes/pinch_problem.py",
                "        if self._results is None:\n            self._results, self._master_zone = pinch_analysis_service(", "        if True:\n            self._results, self._master_zone = pinch_analysis_service(", "MEMO-CACHE")
    run_control(ctx, "C16/applymap", analyse, p.root, "OpenPinch/utils/csv_to_json.py",
                "df_data = df_data.map(_to_number_maybe)", "df_data = df_data.applymap(_to_number_maybe)", "API-DF")
    run_control(ctx, "C16/sheet-32", analyse, p.root, "OpenPinch/utils/export.py", "candidate = cleaned[:31] or", "candidate = cleaned[:32] or", "BOUND-LEN")
    run_control(ctx, "C16/suffix-overflow", analyse, p.root, "OpenPinch/utils/export.py",
                "candidate[: 31 - len(suffix)] if len(candidate) + len(suffix) > 31 else candidate", "candidate[:29] if len(candidate) > 29 else candidate", "BOUND-LEN")
    run_control(ctx, "C16/no-used-add", analyse, p.root, "OpenPinch/utils/export.py",
                "        if alt not in used:\n            used.add(alt)\n            return alt", "        if alt not in used:\n            return alt", "BOUND-UNIQ")
    run_control(ctx, "C16/bracket-not-sanitised", analyse, p.root, "OpenPinch/utils/export.py", 'r"[:/?*\\\\\\[\\]]"', 'r"[:/?*\\\\]"', "BOUND-CHARS")
    run_control(ctx, "C16/column-missing", analyse, p.root, "OpenPinch/utils/wkbook_to_json.py",
                '            "dt_cont",\n            "price",\n', '            "price",\n', "T5")

import atexit
import logging
from collections import defaultdict
from functools import wraps
from time import perf_counter as timer

import OpenPinch.lib.config as config

from ..lib import *

logger = logging.getLogger(__name__)
_LOG_FORMAT = "%(asctime)s - %(levelname)s - %(message)s"


def _ensure_logging_configured():
    """Attach timing handlers lazily so we only emit when requested."""
    for handler in list(logger.handlers):
        stream = getattr(handler, "stream", None)
        if stream is not None and getattr(stream, "closed", False):
            logger.removeHandler(handler)
            handler.close()

    if logger.handlers:
        return

    logger.setLevel(logging.INFO)
    formatter = logging.Formatter(_LOG_FORMAT)

    file_handler = logging.FileHandler("timing.log", delay=True)
    file_handler.setFormatter(formatter)

    stream_handler = logging.StreamHandler()
    stream_handler.setFormatter(formatter)

    logger.addHandler(file_handler)
    logger.addHandler(stream_handler)


_function_stats = defaultdict(lambda: {"count": 0, "total_time": 0.0})


def timing_decorator(func=None, *, activate_overide=False):
    """
    Decorator to measure execution time and track per-function totals.
    Supports both @timing_decorator and @timing_decorator(activate_overide=True)
    """

    def decorator(f):
        @wraps(f)
        def wrapper(*args, **kwargs):
            if not (config.ACTIVATE_TIMING or activate_overide):
                return f(*args, **kwargs)

            start_time = timer()
            result = f(*args, **kwargs)
            end_time = timer()
            exec_time = end_time - start_time

            stats = _function_stats[f.__name__]
            stats["count"] += 1
            stats["total_time"] += exec_time

            if config.LOG_TIMING:
                _ensure_logging_configured()
                logger.info(
                    f"Function '{f.__name__}' executed in {exec_time:.6f} seconds."
                )

            return result

        return wrapper

    # Handle both @timing_decorator and @timing_decorator(activate_overide=True)
    if callable(func):
        return decorator(func)
    return decorator


@atexit.register
def print_summary():
    if not _function_stats:
        return

    _ensure_logging_configured()
    logger.info("==== Execution Time Summary ====")
    for func_name, stats in _function_stats.items():
        avg_time = stats["total_time"] / stats["count"]
        logger.info(
            f"{func_name}: {stats['count']} calls, "
            f"total {stats['total_time']:.6f}s, "
            f"average {avg_time:.6f}s"
        )

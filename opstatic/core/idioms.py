"""Small syntactic normalisations shared by the rules (so that equivalent spellings are treated alike)."""
from __future__ import annotations

import ast
from typing import Optional, Tuple


def aug_add(st: ast.AST) -> Optional[Tuple[ast.AST, ast.AST]]:
    """(target, added value) for `t += v`, `t = t + v`, `t = v + t` (t a Name/Attribute/Subscript)."""
    if isinstance(st, ast.AugAssign) and isinstance(st.op, ast.Add):
        return st.target, st.value
    if isinstance(st, ast.Assign) and len(st.targets) == 1 and isinstance(st.value, ast.BinOp) and isinstance(st.value.op, ast.Add):
        t = st.targets[0]
        tt = ast.dump(_load(t))
        if ast.dump(_load(st.value.left)) == tt:
            return t, st.value.right
        if ast.dump(_load(st.value.right)) == tt:
            return t, st.value.left
    return None


def _load(e: ast.AST) -> ast.AST:
    """copy of e with all contexts set to Load (so that targets and reads compare equal)"""
    import copy
    e2 = copy.deepcopy(e)
    for n in ast.walk(e2):
        if hasattr(n, "ctx"):
            n.ctx = ast.Load()
    return e2


def name_of(e: ast.AST) -> Optional[str]:
    return e.id if isinstance(e, ast.Name) else None

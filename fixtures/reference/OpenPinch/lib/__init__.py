"""Typed configuration primitives and schemas for OpenPinch.

The :mod:`OpenPinch.lib` package exposes enumerations, configuration helpers,
and the Pydantic schema models that define the wire format used by the public
API.  They are re-exported here for consumers that need to construct or inspect
inputs programmatically.
"""

from .config import *
from .enums import *
from .schema import *

"""./check <PROPERTY> [--tier quick|thorough] [--replay FILE]"""
from __future__ import annotations

import argparse
import importlib
import json
import os
import sys
import time
import traceback

from .core.model import AnalysisError
from .core.report import CheckContext, finish


def main(argv=None) -> int:
    ap = argparse.ArgumentParser()
    ap.add_argument("prop")
    ap.add_argument("--tier", default=os.environ.get("VERIF_TIER", "quick"), choices=["quick", "thorough"])
    ap.add_argument("--replay", default=None)
    a = ap.parse_args(argv)
    seed = int(os.environ.get("VERIF_SEED", "0") or 0)
    t0 = time.time()
    ctx = CheckContext(a.prop, a.tier)
    from .core.model import repo_root
    from .core.report import tree_is_reference
    ctx.strict = tree_is_reference(repo_root())
    try:
        mod = importlib.import_module(f"opstatic.checks.{a.prop}")
    except ModuleNotFoundError:
        print(f"ANALYSIS-ERROR: no check registered for {a.prop}")
        return 2
    try:
        mod.run(ctx)
        if a.tier == "thorough" and not a.replay:
            from . import battery
            battery.run_battery(ctx, mod.analyse)
    except AnalysisError as e:
        ctx.error(str(e))
    except Exception:
        traceback.print_exc()
        ctx.error("internal error in analyser (traceback above)")
    if a.replay:
        want = json.load(open(a.replay))
        ctx.obligations = [o for o in ctx.obligations if o.rule == want["rule"] and o.key == want["key"]]
        ctx.floors = {}
        ctx.replay = True
        if not ctx.obligations:
            print(f"replay: instance no longer present: {want['rule']} {want['key']}")
    return finish(ctx, t0, seed)


if __name__ == "__main__":
    sys.exit(main())

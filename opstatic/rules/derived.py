"""DERIVED - derived stream attributes are refreshed by every base-field writer (C19);
direction of shifting (sibling mirror) and hot/cold helper guard agreement."""
from __future__ import annotations

import ast
from typing import Dict, List, Optional, Set, Tuple

from ..core.flow import Flow
from ..core.model import AnalysisError, ClassInfo, FuncInfo
from ..core.report import CheckContext, norm_stmt
from ..core.resolve import Resolver, body_nodes
from .classflow import field_writes_in_stmt, fields_read, self_attr, self_calls_in, self_name, simple_stmt_exprs


def _assigns(f: FuncInfo, me: str) -> List[Tuple[str, ast.AST, ast.stmt]]:
    out = []
    for st in body_nodes(f):
        if isinstance(st, (ast.Assign, ast.AnnAssign)):
            tg = st.targets if isinstance(st, ast.Assign) else [st.target]
            for t in tg:
                a = self_attr(t, me)
                if a is not None and st.value is not None:
                    out.append((a, st.value, st))
    return out


def transitive_self_callees(ci: ClassInfo, f: FuncInfo) -> List[FuncInfo]:
    seen, out, stack = set(), [], [f]
    while stack:
        g = stack.pop()
        if g in seen:
            continue
        seen.add(g)
        out.append(g)
        me = self_name(g)
        if me is None:
            continue
        for (callee, _) in self_calls_in(g.node, me):
            if callee in ci.methods:
                stack.append(ci.methods[callee])
    return out


def find_recompute(ci: ClassInfo) -> FuncInfo:
    """The method __init__ calls last that (transitively) assigns the most fields."""
    init = ci.methods.get("__init__")
    if init is None:
        raise AnalysisError(f"{ci.name}: no __init__")
    me = self_name(init)
    best, bestn = None, 0
    for (callee, _) in self_calls_in(init.node, me):
        if callee in ci.methods:
            n = 0
            for g in transitive_self_callees(ci, ci.methods[callee]):
                n += len({a for a, _, _ in _assigns(g, self_name(g) or "self")})
            if n > bestn:
                best, bestn = ci.methods[callee], n
    if best is None or bestn < 3:
        raise AnalysisError(f"{ci.name}: recompute method not found (anchor vanished)")
    return best


def dependency_table(ci: ClassInfo, recompute: FuncInfo) -> Dict[str, Set[str]]:
    """derived field -> set of fields it is (transitively) computed from, inside the recompute cone."""
    direct: Dict[str, Set[str]] = {}
    for g in transitive_self_callees(ci, recompute):
        me = self_name(g)
        for a, val, st in _assigns(g, me):
            reads = set(fields_read(val, me))
            for (callee, _c) in self_calls_in(val, me):
                if callee in ci.methods:
                    for h in transitive_self_callees(ci, ci.methods[callee]):
                        hm = self_name(h)
                        if hm:
                            reads |= fields_read(h.node, hm)
            direct.setdefault(a, set()).update(reads - {a})
    # transitive closure
    changed = True
    while changed:
        changed = False
        for d, srcs in direct.items():
            for s in list(srcs):
                for s2 in direct.get(s, ()):
                    if s2 not in srcs and s2 != d:
                        srcs.add(s2)
                        changed = True
    return direct


def getter_field(ci: ClassInfo, prop: str) -> Optional[str]:
    f = ci.methods.get(prop)
    if f is None or not f.is_property:
        return None
    me = self_name(f)
    rets = [n for n in body_nodes(f) if isinstance(n, ast.Return)]
    if len(rets) == 1:
        return self_attr(rets[0].value, me)
    return None


class _RefreshFlow(Flow):
    """State: frozenset of (base field written and not yet refreshed) x set of derived fields assigned since."""

    def __init__(self, ci, f, me, recompute, deps, bases, assigns_of):
        self.ci, self.f, self.me, self.recompute, self.deps, self.bases, self.assigns_of = ci, f, me, recompute, deps, bases, assigns_of
        self.exits = []

    def copy(self, s):
        return s

    def join(self, a, b):
        # pending writes: union ; assigned-since: intersection
        return (a[0] | b[0], a[1] & b[1], a[2] and b[2])

    def _apply(self, node, s):
        pending, assigned, refreshed = s
        for (callee, _) in self_calls_in(node, self.me):
            if callee == self.recompute.name:
                pending, assigned, refreshed = frozenset(), frozenset(), True
            elif callee in self.assigns_of:
                assigned = assigned | self.assigns_of[callee]
        if isinstance(node, ast.stmt):
            for (fld, how, n) in field_writes_in_stmt(node, self.me):
                if fld in self.bases and how in ("assign", "augassign"):
                    pending = pending | {fld}
                    refreshed = False
                elif how == "assign":
                    assigned = assigned | {fld}
        return (pending, assigned, refreshed)

    def transfer(self, st, s):
        if isinstance(st, (ast.FunctionDef, ast.AsyncFunctionDef, ast.ClassDef)):
            return s
        return self._apply(st, s)

    def _base_locals(self) -> Set[str]:
        """locals computed only from base fields, parameters, constants and other such locals"""
        if hasattr(self, "_bl"):
            return self._bl
        bl: Set[str] = set()
        params = {a.arg for a in self.f.params}
        for _ in range(3):
            for n in body_nodes(self.f):
                pairs = []
                if isinstance(n, ast.Assign) and len(n.targets) == 1 and isinstance(n.targets[0], ast.Name):
                    pairs = [(n.targets[0].id, n.value)]
                elif isinstance(n, ast.Assign) and len(n.targets) == 1 and isinstance(n.targets[0], (ast.Tuple, ast.List)) \
                        and all(isinstance(e, ast.Name) for e in n.targets[0].elts):
                    # a, b = self._x, self._y   (element-wise when the right-hand side is a display of the same length)
                    if isinstance(n.value, (ast.Tuple, ast.List)) and len(n.value.elts) == len(n.targets[0].elts):
                        pairs = [(t.id, v) for t, v in zip(n.targets[0].elts, n.value.elts)]
                    else:
                        pairs = [(t.id, n.value) for t in n.targets[0].elts]
                for tname, val in pairs:
                    ok = True
                    for x in ast.walk(val):
                        a = self_attr(x, self.me)
                        if a is not None and a not in self.bases:
                            ok = False
                        if isinstance(x, ast.Name) and x.id != self.me and x.id not in params and x.id not in bl and isinstance(x.ctx, ast.Load) \
                                and x.id not in ("abs", "isinstance", "float", "int", "min", "max", "len"):
                            ok = False
                    if ok:
                        bl.add(tname)
        self._bl = bl
        return bl

    def _is_base_guard(self, test: ast.AST) -> bool:
        refs = 0
        bl = self._base_locals()
        for x in ast.walk(test):
            a = self_attr(x, self.me)
            if a is not None:
                if a not in self.bases:
                    return False
                refs += 1
            elif isinstance(x, ast.Name) and isinstance(x.ctx, ast.Load) and x.id != self.me:
                if x.id in bl:
                    refs += 1
        return refs > 0

    def _touches_derived(self, stmts) -> bool:
        for st in stmts:
            for n in ast.walk(st):
                if isinstance(n, ast.Call) and isinstance(n.func, ast.Attribute) and isinstance(n.func.value, ast.Name) and n.func.value.id == self.me:
                    return True
                if isinstance(n, ast.Attribute) and isinstance(n.ctx, ast.Store) and self_attr(n, self.me) is not None and self_attr(n, self.me) not in self.bases:
                    return True
        return False

    def stmt(self, st, s):
        if isinstance(st, ast.If) and self._is_base_guard(st.test):
            # a guard on base values only (definedness / span tests): the edge on which nothing derived is computed is the
            # "base values not usable" edge and carries no obligation
            t = self._apply(st.test, s)
            body_d, else_d = self._touches_derived(st.body), self._touches_derived(st.orelse)
            bails = lambda blk: bool(blk) and isinstance(blk[-1], (ast.Return, ast.Raise)) and not self._touches_derived(blk)
            if bails(st.body):
                return self.block(st.orelse, t) if st.orelse else t          # bail-out exit exempt
            if bails(st.orelse):
                return self.block(st.body, t)
            if body_d and not else_d:
                out = self.block(st.body, t)
                return out
            if else_d and not body_d:
                return self.block(st.orelse, t)
        return super().stmt(st, s)

    def on_exit(self, kind, node, s):
        self.exits.append((kind, node, s))


def check_derived(ctx: CheckContext, r: Resolver, ci: ClassInfo, invariant_props: List[str], base_props: List[str], rule: str = "DERIVED"):
    ctx.rule(rule, "every method that assigns a base field (temperatures, duty, contribution, coefficient) afterwards calls the recompute "
                   "method or assigns every derived field that depends on it, on every path to a normal exit")
    recompute = find_recompute(ci)
    deps = dependency_table(ci, recompute)
    derived_fields = set()
    for pn in invariant_props:
        fld = getter_field(ci, pn)
        if fld is None:
            raise AnalysisError(f"{ci.name}.{pn}: getter field not found")
        derived_fields.add(fld)
    bases = set()
    for pn in base_props:
        fld = getter_field(ci, pn)
        if fld is None:
            raise AnalysisError(f"{ci.name}.{pn}: getter field not found")
        bases.add(fld)
    # which derived fields depend on which base
    need: Dict[str, Set[str]] = {b: {d for d in derived_fields if b in deps.get(d, set())} for b in bases}
    ctx.info["derived_dependency_table"] = {b: sorted(v) for b, v in sorted(need.items())}
    for b, v in need.items():
        if not v:
            ctx.abstain(rule, f"no derived field depends on base field {b} in the recompute cone (table could not be derived)")
    assigns_of = {}
    for nm, f in ci.methods.items():
        me = self_name(f)
        if me:
            assigns_of[nm] = frozenset(a for g in transitive_self_callees(ci, f) for a, _, _ in _assigns(g, self_name(g) or "self"))
    cone = set(transitive_self_callees(ci, recompute))
    writers = 0
    for nm, f in list(ci.methods.items()) + [(k + ".setter", v) for k, v in ci.setters.items()]:
        me = self_name(f)
        if me is None or f in cone or nm == "__init__":
            continue
        writes_base = any(fld in bases and how in ("assign", "augassign") for st in body_nodes(f) if isinstance(st, ast.stmt)
                          for (fld, how, _) in field_writes_in_stmt(st, me))
        if not writes_base:
            continue
        writers += 1
        fl = _RefreshFlow(ci, f, me, recompute, deps, bases, assigns_of)
        fl.run(f.node, (frozenset(), frozenset(), False))
        written_bases = sorted({fld for st in body_nodes(f) if isinstance(st, ast.stmt)
                                for (fld, how, _) in field_writes_in_stmt(st, me) if fld in bases and how in ("assign", "augassign")})
        for b in written_bases:
            missing_all = set()
            for kind, node, (pending, assigned, refreshed) in fl.exits:
                if kind == "raise" or b not in pending:
                    continue
                missing_all |= (need[b] - assigned)
            ok = not missing_all
            ctx.ob(rule, f"{f.qualname}:{b}", f"{f.module.relpath}:{f.node.lineno}", ok,
                   "" if ok else f"{ci.name}.{nm} assigns {b} and can return without recomputing {', '.join(sorted(missing_all))} "
                                 f"(neither {recompute.name}() nor direct assignments)")
    ctx.info["derived_writers"] = writers
    return recompute, deps


# ------------------------------------------------------------------------------ linear forms
def linear_form(e: ast.AST, me: str) -> Optional[Dict[str, float]]:
    if isinstance(e, ast.Constant) and isinstance(e.value, (int, float)):
        return {"1": float(e.value)}
    a = self_attr(e, me)
    if a is not None:
        return {a: 1.0}
    if isinstance(e, ast.UnaryOp) and isinstance(e.op, (ast.USub, ast.UAdd)):
        x = linear_form(e.operand, me)
        if x is None:
            return None
        return {k: (-v if isinstance(e.op, ast.USub) else v) for k, v in x.items()}
    if isinstance(e, ast.BinOp) and isinstance(e.op, (ast.Add, ast.Sub)):
        l, rr = linear_form(e.left, me), linear_form(e.right, me)
        if l is None or rr is None:
            return None
        out = dict(l)
        for k, v in rr.items():
            out[k] = out.get(k, 0.0) + (v if isinstance(e.op, ast.Add) else -v)
        return {k: v for k, v in out.items() if v != 0.0}
    return None


def bound_groups(ci: ClassInfo):
    """Groups of bound assignments: one per helper method, or one per branch when a helper selects the
    direction with `if <param> is/== <constant>: ... else: ...`.
    -> list of dicts {func, selector: None | (param, 'eq'|'ne', const text), asg: {field: expr}}"""
    fmin, fmax = getter_field(ci, "t_min"), getter_field(ci, "t_max")
    out = []
    for nm, f in ci.methods.items():
        me = self_name(f)
        if me is None:
            continue
        all_asg = {a: v for a, v, _ in _assigns(f, me)}
        if not (fmin in all_asg and fmax in all_asg):
            continue
        params = set(f.pos_params[1:]) | set(f.kwonly_params)
        split = None
        for st in f.node.body:
            if isinstance(st, ast.If) and isinstance(st.test, ast.Compare) and len(st.test.ops) == 1 and isinstance(st.test.ops[0], (ast.Is, ast.Eq)) \
                    and isinstance(st.test.left, ast.Name) and st.test.left.id in params and st.orelse:
                def blk_asg(blk):
                    d = {}
                    for s2 in blk:
                        for n in ast.walk(s2):
                            if isinstance(n, ast.Assign):
                                for t in n.targets:
                                    a = self_attr(t, me)
                                    if a is not None:
                                        d[a] = n.value
                    return d
                a1, a2 = blk_asg(st.body), blk_asg(st.orelse)
                if fmin in a1 and fmin in a2:
                    split = (st.test.left.id, ast.unparse(st.test.comparators[0]), a1, a2, st)
        if split is not None:
            pn, const, a1, a2, st = split
            common = {k: v for k, v in all_asg.items() if k not in a1 and k not in a2}
            out.append({"func": f, "selector": (pn, "eq", const), "asg": {**common, **a1}, "line": st.lineno})
            out.append({"func": f, "selector": (pn, "ne", const), "asg": {**common, **a2}, "line": st.orelse[0].lineno})
        else:
            out.append({"func": f, "selector": None, "asg": all_asg, "line": f.node.lineno})
    return out


def check_shift_direction(ctx: CheckContext, r: Resolver, ci: ClassInfo, rule: str = "DERIVED-DIR"):
    """In the code that takes (t_min, t_max) = (target, supply) [hot] the shifted bounds are bound - dt_cont;
    in the code that takes (supply, target) [cold] they are bound + dt_cont; each star bound from its own bound."""
    ctx.rule(rule, "hot bounds: t_min=target, t_max=supply, star = bound - contribution; cold bounds mirrored with +; "
                   "linear forms are compared, not text; one helper per kind or one helper branching on a direction parameter")
    fmin, fmax = getter_field(ci, "t_min"), getter_field(ci, "t_max")
    smin, smax = getter_field(ci, "t_min_star"), getter_field(ci, "t_max_star")
    sup, tar, dtc = getter_field(ci, "t_supply"), getter_field(ci, "t_target"), getter_field(ci, "dt_cont")
    if None in (fmin, fmax, smin, smax, sup, tar, dtc):
        raise AnalysisError(f"{ci.name}: temperature bound properties not found")
    groups = []
    for g in bound_groups(ci):
        f, asg = g["func"], g["asg"]
        me = self_name(f)
        tag = f"{f.qualname}" + (f"[{g['selector'][0]} {g['selector'][1]} {g['selector'][2]}]" if g["selector"] else "")
        if not (smin in asg and smax in asg):
            continue
        lmin, lmax = linear_form(asg[fmin], me), linear_form(asg[fmax], me)
        kind = None
        if lmin == {tar: 1.0} and lmax == {sup: 1.0}:
            kind = "hot"
        elif lmin == {sup: 1.0} and lmax == {tar: 1.0}:
            kind = "cold"
        if kind is None:
            ctx.ob(rule, f"{tag}:bounds", f"{f.module.relpath}:{g['line']}", False,
                   f"{ci.name}.{f.name} sets t_min/t_max from neither (target, supply) nor (supply, target)")
            continue
        g["kind"] = kind
        groups.append(g)
        sign = -1.0 if kind == "hot" else 1.0
        for star, bound in ((smin, fmin), (smax, fmax)):
            lf = linear_form(asg[star], me)
            if lf is None:
                raise AnalysisError(f"{f.loc}: shifted bound is not a linear form: {ast.unparse(asg[star])}")
            src = {fmin: (tar if kind == "hot" else sup), fmax: (sup if kind == "hot" else tar)}[bound]
            ok = lf in ({bound: 1.0, dtc: sign}, {src: 1.0, dtc: sign})
            ctx.ob(rule, f"{tag}:{star}", f"{f.module.relpath}:{g['line']}", ok,
                   "" if ok else f"{kind} stream: {star} = {ast.unparse(asg[star])} is not {bound} {'-' if sign < 0 else '+'} {dtc}")
        # type tag agrees with the kind (a tag derived from the direction parameter is checked at the call sites)
        if "_type" in asg:
            txt = ast.unparse(asg["_type"])
            sel = g["selector"]
            if sel is not None and sel[0] in txt:
                pass
            else:
                ok = ("Hot" in txt) == (kind == "hot") and ("Cold" in txt) == (kind == "cold")
                ctx.ob(rule, f"{tag}:_type", f"{f.module.relpath}:{g['line']}", ok, "" if ok else f"{kind} bounds tag the stream as {txt}")
    kinds = {g["kind"] for g in groups}
    if kinds != {"hot", "cold"}:
        raise AnalysisError(f"{ci.name}: hot/cold bound code not both found (found {sorted(kinds)})")
    return groups


class _OrderFlow(Flow):
    """Tracks the known order between supply and target along paths: '>' (supply>target), '<', '=' or None."""

    def __init__(self, f, me, sup, tar, groups, ctx, rule, ci):
        self.f, self.me, self.sup, self.tar, self.groups, self.ctx, self.rule, self.ci = f, me, sup, tar, groups, ctx, rule, ci
        self.sites = {}

    def _group_for(self, callee: str, call: ast.Call):
        cands = [g for g in self.groups if g["func"].name == callee]
        if not cands:
            return None
        if cands[0]["selector"] is None:
            return cands[0]
        pn, _, const = cands[0]["selector"]
        f = cands[0]["func"]
        pos = f.pos_params[1:]
        arg = None
        if pn in pos and pos.index(pn) < len(call.args):
            arg = call.args[pos.index(pn)]
        for k in call.keywords:
            if k.arg == pn:
                arg = k.value
        if arg is None:
            return "unknown"
        txt = ast.unparse(arg)
        if not isinstance(arg, (ast.Attribute, ast.Constant)):
            return "unknown"
        for g in cands:
            if (g["selector"][1] == "eq") == (txt == const):
                # a tag derived from the direction must name the group's kind
                g = dict(g)
                g["arg_text"] = txt
                return g
        return "unknown"

    # state: (order, bools) - order in {'?','?g','<','>','=','<=','>='}; bools: local name -> frozenset of what its truth implies
    #        ('>' / '<' / '=' : that supply/target order;  'free' : a condition that says nothing about the order and can hold on its own)
    def copy(self, s):
        return s

    def join(self, a, b):
        if a == b:
            return a
        oa, ob = a[0], b[0]
        o = oa if oa == ob else ("?g" if "?g" in (oa, ob) else "?")
        da, db = dict(a[1]), dict(b[1])
        merged = {k: da.get(k, frozenset({"opaque"})) | db.get(k, frozenset({"opaque"})) for k in set(da) | set(db)}
        return (o, frozenset(merged.items()))

    def stmt(self, st, s):
        if isinstance(st, ast.Match) and s[0] == "?":
            # the cases test something this rule does not interpret (an orientation computed by a helper, an enum ...): the order inside is unknown,
            # not "certainly unestablished"
            s = ("?g", s[1])
        return super().stmt(st, s)

    def _implies(self, test, bools) -> frozenset:
        """what the TRUTH of `test` implies: a set over {'>','<','=','free','opaque'} (one element per way the test can be true)"""
        c = self._cmp(test)
        if c is not None:
            return frozenset({c})
        if isinstance(test, ast.Name):
            return bools.get(test.id, frozenset({"opaque"}))
        if isinstance(test, ast.BoolOp) and isinstance(test.op, ast.Or):
            out = frozenset()
            for v in test.values:
                out |= self._implies(v, bools)
            return out
        if isinstance(test, ast.BoolOp) and isinstance(test.op, ast.And):
            parts = [self._implies(v, bools) for v in test.values]
            facts = [p_ for p_ in parts if p_ <= {">", "<", "="} and len(p_) == 1]
            if facts:
                return facts[0]
            if all(p_ == {"free"} for p_ in parts):
                return frozenset({"free"})
            return frozenset({"opaque"}) if any("opaque" in p_ for p_ in parts) else frozenset().union(*parts)
        if isinstance(test, ast.Compare) and len(test.ops) == 1 and isinstance(test.comparators[0], ast.Constant) and test.comparators[0].value is None:
            return frozenset({"free"})            # `x is None` / `x is not None`: says nothing about the supply/target order
        if isinstance(test, ast.UnaryOp) and isinstance(test.op, ast.Not):
            inner = self._implies(test.operand, bools)
            return frozenset({"free"}) if inner == {"free"} else frozenset({"opaque"})
        if isinstance(test, ast.Compare) and len(test.ops) == 1:
            # a comparison that does not involve supply/target at all (stream type, sign of the duty ...): true independently of the order
            names = {self_attr(x, self.me) for x in ast.walk(test) if isinstance(x, ast.Attribute)} - {None}

            def constant_like(e) -> bool:
                """a self attribute, a literal, or a member of a class/enum named by a capitalised identifier - nothing computed, no local variable"""
                if isinstance(e, ast.Constant):
                    return True
                if isinstance(e, ast.UnaryOp):
                    return constant_like(e.operand)
                if isinstance(e, ast.Attribute):
                    root = e
                    while isinstance(root, ast.Attribute):
                        root = root.value
                    return isinstance(root, ast.Name) and (root.id == self.me or root.id.lstrip("_")[:1].isupper())
                return False
            if not ({self.sup, self.tar} & names) and constant_like(test.left) and constant_like(test.comparators[0]):
                return frozenset({"free"})
        return frozenset({"opaque"})

    def _cmp(self, test) -> Optional[str]:
        if isinstance(test, ast.Compare) and len(test.ops) == 1:
            l, rr = self_attr(test.left, self.me), self_attr(test.comparators[0], self.me)
            op = test.ops[0]
            if l == self.sup and rr == self.tar:
                return {ast.Gt: ">", ast.Lt: "<", ast.Eq: "="}.get(type(op))
            if l == self.tar and rr == self.sup:
                return {ast.Gt: "<", ast.Lt: ">", ast.Eq: "="}.get(type(op))
        return None

    @staticmethod
    def _meet(known: str, fact: str) -> str:
        """Combine what is known with a new fact (both in {'?','<','>','=','<=','>='})."""
        if known in ("?", "?g"):
            return fact
        sets = {"<": {"<"}, ">": {">"}, "=": {"="}, "<=": {"<", "="}, ">=": {">", "="}, "?": {"<", ">", "="}}
        r = sets[known] & sets[fact]
        for k, v in sets.items():
            if v == r:
                return k
        return known

    def branch(self, test, s):
        o, bools = s
        c = self._cmp(test)
        if c == ">":
            return (self._meet(o, ">"), bools), (self._meet(o, "<="), bools)
        if c == "<":
            return (self._meet(o, "<"), bools), (self._meet(o, ">="), bools)
        if c == "=":
            return (self._meet(o, "="), bools), s
        imp = self._implies(test, dict(bools))
        if len(imp) == 1 and next(iter(imp)) in (">", "<", "="):
            return (self._meet(o, next(iter(imp))), bools), s
        if "opaque" in imp:
            # an opaque condition (a flag, a helper's verdict) guards what follows: the supply/target order under it is undecided by this rule
            g = ("?g", bools) if o == "?" else s
            return g, g
        # every way the test can be true is known, and they do not agree on one order (e.g. `type == Hot or supply > target`): the order is NOT established
        return s, s

    def transfer(self, st, s):
        if isinstance(st, (ast.FunctionDef, ast.AsyncFunctionDef, ast.ClassDef)):
            return s
        # helper calls: obligation on the current order fact
        for (callee, call) in self_calls_in(st, self.me):
            g = self._group_for(callee, call)
            if g is None:
                continue
            if g == "unknown":
                self.ctx.info.setdefault("derived_order_undecided", []).append(f"{self.f.qualname}: bound direction selected by a non-constant argument")
                continue
            kind = g["kind"]
            need = ">" if kind == "hot" else "<"
            if s[0] == "?g":
                self.ctx.info.setdefault("derived_order_undecided", []).append(f"{self.f.qualname}: {kind} bounds computed under a condition this rule does not interpret")
                continue
            ok = (s[0] == need)
            msg = "" if ok else (f"{self.ci.name}.{self.f.name} computes the {kind} bounds on a path where supply {need} target is not established "
                                 f"(known: supply {s[0]} target)")
            if ok and "arg_text" in g:
                want = "Hot" if kind == "hot" else "Cold"
                other = "Cold" if kind == "hot" else "Hot"
                if other in g["arg_text"] and want not in g["arg_text"]:
                    ok, msg = False, f"{self.ci.name}.{self.f.name} passes {g['arg_text']} where the selected branch computes the {kind} bounds"
            self.ctx.ob(self.rule, f"{self.f.qualname}:{norm_stmt(call)}#{len(self.sites)}", f"{self.f.module.relpath}:{call.lineno}", ok, msg)
            self.sites[id(call)] = ok
        if isinstance(st, ast.Assign) and len(st.targets) == 1:
            a = self_attr(st.targets[0], self.me)
            if a in (self.sup, self.tar):
                other = self.tar if a == self.sup else self.sup
                lf = linear_form(st.value, self.me)
                if lf is not None and set(lf) <= {other, "1"} and lf.get(other) == 1.0 and lf.get("1", 0.0) != 0.0:
                    pos = lf["1"] > 0
                    # a = other + c
                    if a == self.tar:
                        return ("<" if pos else ">", s[1])
                    return (">" if pos else "<", s[1])
                return ("?", s[1])
            if isinstance(st.targets[0], ast.Name):
                # a local boolean that stands for a test:  is_hot = self._t_supply > self._t_target
                bools = dict(s[1])
                bools[st.targets[0].id] = self._implies(st.value, bools)
                return (s[0], frozenset(bools.items()))
        return s


def check_helper_guards(ctx: CheckContext, r: Resolver, ci: ClassInfo, groups, rule: str = "DERIVED-ORDER"):
    ctx.rule(rule, "the hot bounds are only computed where supply > target is established by a dominating test or assignment, "
                   "the cold bounds only where supply < target (so that t_min <= t_max after every recomputation)")
    sup, tar = getter_field(ci, "t_supply"), getter_field(ci, "t_target")
    names = {g["func"].name for g in groups}
    n = 0
    for nm, f in list(ci.methods.items()) + list(ci.setters.items()):
        me = self_name(f)
        if me is None:
            continue
        if not any(callee in names for (callee, _) in self_calls_in(f.node, me)):
            continue
        fl = _OrderFlow(f, me, sup, tar, groups, ctx, rule, ci)
        fl.run(f.node, ('?', frozenset()))
        n += len(fl.sites)
    return n


# =========================================================================================
# DERIVED-SEQ : inside one method, a derived field is not computed BEFORE the field it is derived from is rewritten
# =========================================================================================
def _direct_dependencies(ci: ClassInfo, recompute: FuncInfo) -> Dict[str, Set[str]]:
    """derived field -> fields its defining expression literally reads, inside the recompute cone (no closure)"""
    direct: Dict[str, Set[str]] = {}
    for g in transitive_self_callees(ci, recompute):
        me = self_name(g)
        if me is None:
            continue
        for a, val, st in _assigns(g, me):
            direct.setdefault(a, set()).update(set(fields_read(val, me)) - {a})
    return direct


class _SeqFlow(Flow):
    """state = (fresh, stale): sets of pairs (D, X).  fresh: D was last computed on this path from the CURRENT value of X;
    stale: D was computed from a value of X that has been overwritten since.  Locals are tracked as pseudo-fields '$name'."""

    def __init__(self, ci: ClassInfo, f: FuncInfo, me: str, depth: int = 0):
        self.ci, self.f, self.me, self.depth = ci, f, me, depth
        self.exits: List[tuple] = []
        self.unknown = False

    def copy(self, s):
        return s

    def join(self, a, b):
        # a may-analysis: "on SOME path D was computed from the current X" / "... from an X that was overwritten since"
        return (a[0] | b[0], a[1] | b[1])

    def _srcs(self, e: ast.AST) -> Set[str]:
        out = set(fields_read(e, self.me))
        for n in ast.walk(e):
            if isinstance(n, ast.Name) and isinstance(n.ctx, ast.Load) and n.id != self.me:
                out.add("$" + n.id)
        return out

    def _write(self, s, d: str, reads: Set[str], aug: bool = False):
        fresh, stale = set(s[0]), set(s[1])
        inherited = {(d, x) for (l, x) in stale if l in reads and l.startswith("$")}
        if not aug:
            stale = {(a, x) for (a, x) in stale if a != d}
            fresh = {(a, x) for (a, x) in fresh if a != d}
        fresh |= {(d, x) for x in reads if x != d}
        # everything computed from the old value of d is now out of date
        moved = {(a, x) for (a, x) in fresh if x == d and a != d}
        fresh -= moved
        stale |= moved | inherited
        return (frozenset(fresh), frozenset(stale))

    def _call(self, s, callee: FuncInfo):
        hm = self_name(callee)
        if hm is None:
            return s
        if self.depth >= 5 or callee is self.f:
            self.unknown = True
            return (frozenset(), frozenset())
        sub = _SeqFlow(self.ci, callee, hm, self.depth + 1)
        # the callee's own locals are not ours
        sub.run(callee.node, (frozenset(p_ for p_ in s[0] if not p_[0].startswith("$") and not p_[1].startswith("$")),
                              frozenset(p_ for p_ in s[1] if not p_[0].startswith("$") and not p_[1].startswith("$"))))
        self.unknown = self.unknown or sub.unknown
        outs = [e for k, e in sub.exits if k != "raise"]
        if not outs:
            return None
        res = outs[0]
        for o in outs[1:]:
            res = self.join(res, o)
        keep_f = {p_ for p_ in s[0] if p_[0].startswith("$") and not p_[1].startswith("$")}
        keep_s = {p_ for p_ in s[1] if p_[0].startswith("$")}
        # a local computed from a field the callee rewrote is stale now
        written = {a for g in transitive_self_callees(self.ci, callee) for a, _, _ in _assigns(g, self_name(g) or "self")}
        moved = {p_ for p_ in keep_f if p_[1] in written}
        return (frozenset({p_ for p_ in res[0] if not p_[0].startswith("$") and not p_[1].startswith("$")} | (keep_f - moved)),
                frozenset({p_ for p_ in res[1] if not p_[0].startswith("$") and not p_[1].startswith("$")} | keep_s | moved))

    def _effects(self, node: ast.AST, s):
        for n in ast.walk(node):
            if s is None:
                return None
            if isinstance(n, ast.Call) and isinstance(n.func, ast.Attribute) and isinstance(n.func.value, ast.Name) and n.func.value.id == self.me:
                callee = self.ci.methods.get(n.func.attr)
                if callee is not None and not callee.is_property:
                    s = self._call(s, callee)
            elif isinstance(n, ast.Call) and any(isinstance(a, ast.Name) and a.id == self.me for a in list(n.args) + [k.value for k in n.keywords]):
                self.unknown = True              # self handed to code outside the class
                s = (frozenset(), frozenset())
        return s

    def transfer(self, st, s):
        if isinstance(st, (ast.FunctionDef, ast.AsyncFunctionDef, ast.ClassDef)):
            return s
        val = getattr(st, "value", None)
        s = self._effects(val if isinstance(st, (ast.Assign, ast.AugAssign, ast.AnnAssign)) and val is not None else st, s)
        if s is None:
            return None
        pairs: List[Tuple[ast.AST, ast.AST]] = []
        if isinstance(st, ast.Assign):
            for t in st.targets:
                if isinstance(t, (ast.Tuple, ast.List)) and isinstance(st.value, (ast.Tuple, ast.List)) and len(t.elts) == len(st.value.elts):
                    pairs += list(zip(t.elts, st.value.elts))
                elif isinstance(t, (ast.Tuple, ast.List)):
                    pairs += [(e, st.value) for e in t.elts]
                else:
                    pairs.append((t, st.value))
        elif isinstance(st, ast.AnnAssign) and st.value is not None:
            pairs.append((st.target, st.value))
        elif isinstance(st, ast.AugAssign):
            pairs.append((st.target, st.value))
        # all right-hand sides are evaluated before any target is stored
        reads = [(t, self._srcs(v)) for t, v in pairs]
        for t, rd in reads:
            a = self_attr(t, self.me)
            if a is not None:
                setter = self.ci.setters.get(a)
                if setter is not None:
                    s = self._call(s, setter)
                    if s is None:
                        return None
                else:
                    s = self._write(s, a, rd, aug=isinstance(st, ast.AugAssign))
            elif isinstance(t, ast.Name):
                s = self._write(s, "$" + t.id, rd, aug=isinstance(st, ast.AugAssign))
        return s

    def branch(self, test, s):
        s = self._effects(test, s)
        return s, s

    def bind_loop_target(self, node, s):
        s = self._effects(node.iter, s)
        if s is None:
            return None
        for t in ast.walk(node.target):
            if isinstance(t, ast.Name):
                s = self._write(s, "$" + t.id, self._srcs(node.iter))
        return s

    def on_exit(self, kind, node, s):
        self.exits.append((kind, s))


def check_stale_order(ctx: CheckContext, r: Resolver, ci: ClassInfo, rule: str = "DERIVED-SEQ") -> int:
    ctx.rule(rule, "inside one method, a derived field (one the recompute method computes from field X) is never computed from X and left as it is while X is "
                   "rewritten afterwards: at the method's exit the derived field would describe the OLD value of X (order of updates)")
    recompute = find_recompute(ci)
    direct = _direct_dependencies(ci, recompute)
    n = 0
    for nm, f in list(ci.methods.items()) + [(k + ".setter", v) for k, v in ci.setters.items()]:
        me = self_name(f)
        if me is None or isinstance(f.node, ast.Lambda):
            continue
        # only methods that (transitively) compute some derived field from a field they also (transitively) write
        cone = transitive_self_callees(ci, f)
        writes = {a for g in cone for a, _, _ in _assigns(g, self_name(g) or "self")}
        cands = {(d, x) for d in writes for x in direct.get(d, ()) if x in writes}
        if not cands:
            continue
        fl = _SeqFlow(ci, f, me)
        fl.run(f.node, (frozenset(), frozenset()))
        bad: Set[Tuple[str, str]] = set()
        for kind, s in fl.exits:
            if kind == "raise":
                continue
            bad |= {(d, x) for (d, x) in s[1] if (d, x) in cands}
        for d, x in sorted(cands):
            n += 1
            ok = (d, x) not in bad
            ctx.ob(rule, f"{f.qualname}:{d}<-{x}", f"{f.module.relpath}:{f.node.lineno}", ok,
                   "" if ok else f"{ci.name}.{nm} computes {d} from {x} and rewrites {x} afterwards without computing {d} again on some path: at exit {d} "
                                 f"describes the old {x} (the recompute method {recompute.name} derives {d} from {x})")
    return n


def check_stale_order_all(ctx: CheckContext, p, r: Resolver, rule: str = "DERIVED-SEQ") -> int:
    """DERIVED-SEQ over every class that has a recompute method (a method __init__ calls which assigns several fields)"""
    n = 0
    for m in p.modules.values():
        for ci in m.classes.values():
            try:
                find_recompute(ci)
            except AnalysisError:
                continue
            n += check_stale_order(ctx, r, ci, rule)
    return n


# ------------------------------------------------------------------------------ DERIVED-SIB: sibling agreement of the base-field setters

def _must_call(ci: ClassInfo, f: FuncInfo, target: str, after_line: int = 0, depth: int = 0) -> bool:
    """some statement on the straight-line spine of f (not nested in a branch / loop / try) calls self.<target>() - directly or through a
    helper whose own spine does - after source line `after_line`"""
    me = self_name(f)
    if me is None or depth > 3:
        return False
    for st in f.node.body:
        if isinstance(st, (ast.If, ast.For, ast.While, ast.Try, ast.With, ast.FunctionDef, ast.ClassDef)) or st.lineno <= after_line:
            continue
        for (callee, _c) in self_calls_in(st, me):
            if callee == target:
                return True
            if callee in ci.methods and callee != f.name and _must_call(ci, ci.methods[callee], target, 0, depth + 1):
                return True
    return False


def check_setter_siblings(ctx: CheckContext, r: Resolver, ci: ClassInfo, base_props: List[str], rule: str = "DERIVED-SIB") -> int:
    """Cross-check of siblings: the property setters of the base fields all end in the same full recompute.  A setter that stores the value and
    then takes another route (no call, or a partial helper that skips a case the recompute handles - the isothermal fix-up, the resistance
    product) is the deviant one."""
    ctx.rule(rule, "sibling agreement: every property setter of a base field (temperatures, duty, contribution, film coefficient) calls the class's "
                   "recompute method on its straight-line spine after storing the value, as the majority of these setters do; a partial helper is not the recompute")
    recompute = find_recompute(ci)
    sites = []
    for pn in base_props:
        f = ci.setters.get(pn)
        fld = getter_field(ci, pn)
        if f is None or fld is None:
            continue
        me = self_name(f)
        if me is None:
            continue
        wl = [st.lineno for st in body_nodes(f) if isinstance(st, ast.stmt) for (fl_, how, _n) in field_writes_in_stmt(st, me) if fl_ == fld]
        top = 0
        for st in f.node.body:                      # the spine statement that contains the (last) store
            if wl and st.lineno <= max(wl) <= getattr(st, "end_lineno", st.lineno):
                top = st.lineno - 1 if not isinstance(st, (ast.If, ast.For, ast.While, ast.Try, ast.With)) else getattr(st, "end_lineno", st.lineno)
        delegated = not wl and any(c in ci.methods for (c, _x) in self_calls_in(f.node, me))
        ok = _must_call(ci, f, recompute.name, top if wl else 0)
        sites.append((pn, f, ok, delegated))
    good = [s for s in sites if s[2]]
    if len(sites) < 3 or len(good) * 2 <= len(sites):
        ctx.abstain(rule, f"{len(good)} of {len(sites)} base-field setters call {recompute.name}() on their spine: no majority convention to compare against")
        return 0
    for pn, f, ok, delegated in sites:
        ctx.ob(rule, f"{ci.name}.{pn}.setter", f"{f.module.relpath}:{f.node.lineno}", ok,
               "" if ok else f"{ci.name}.{pn} setter does not end in {recompute.name}() although {len(good)} of its {len(sites)} sibling setters do"
                             + (" (it delegates to a helper that refreshes only part of the derived state)" if delegated or any(True for _ in self_calls_in(f.node, self_name(f))) else "")
                             + ": derived fields the helper does not recompute (isothermal fix-up of the bounds, CP, the resistance x CP product) stay stale")
    return len(sites)

"""LOST-UPDATE - a store never goes into a temporary copy.

``a[[i, j]][k] = v`` (numpy / pandas / ProblemTable list indexing returns a new object), ``x.copy()[k] = v``, ``x.tolist()[k] = v`` and
``x.astype(t)[k] = v`` assign into an object that is dropped at the end of the statement: the update the author had in mind never reaches
the table.  This is what a loop ``for j in rng: tbl.loc[j, c] = 0`` turns into when it is "vectorised" through the wrong accessor.
"""
from __future__ import annotations

import ast
from typing import List

from ..core.model import FuncInfo, Program
from ..core.report import CheckContext, norm_stmt
from ..core.resolve import Resolver, body_nodes

_COPYING = {"copy", "deepcopy", "tolist", "astype", "to_list", "flatten"}


def check_lost_updates(ctx: CheckContext, p: Program, r: Resolver, funcs: List[FuncInfo], rule: str = "LOST-UPDATE") -> int:
    ctx.rule(rule, "no assignment stores through a list-indexed (fancy) subscript or a copying call: such a store modifies a temporary and is lost")
    n = 0
    for f in funcs:
        if isinstance(f.node, ast.Lambda):
            continue
        for st in body_nodes(f):
            if not isinstance(st, (ast.Assign, ast.AugAssign)):
                continue
            tgs = st.targets if isinstance(st, ast.Assign) else [st.target]
            for t in tgs:
                for t1 in (t.elts if isinstance(t, (ast.Tuple, ast.List)) else [t]):
                    if not isinstance(t1, (ast.Subscript, ast.Attribute)):
                        continue
                    inner = t1.value
                    why = None
                    while isinstance(inner, (ast.Subscript, ast.Attribute, ast.Call)):
                        if isinstance(inner, ast.Subscript) and isinstance(inner.slice, ast.List):
                            why = f"`{ast.unparse(inner)}` is list-indexed and yields a new object"
                            break
                        if isinstance(inner, ast.Call):
                            if isinstance(inner.func, ast.Attribute) and inner.func.attr in _COPYING:
                                why = f"`{ast.unparse(inner)[:60]}` returns a copy"
                            break
                        inner = inner.value
                    n += 1
                    ctx.ob(rule, f"{f.qualname}:{norm_stmt(st)[:90]}", f"{f.module.relpath}:{st.lineno}", why is None,
                           "" if why is None else f"the store `{ast.unparse(t1)[:80]} = ...` goes into a temporary: {why}, so the assignment never reaches the "
                                                  f"original table / array")
    return n

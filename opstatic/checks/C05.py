"""C05 - temperature-scale coherence of both problem tables on every pipeline call chain (SCALE)."""
from ..core.model import Program
from ..core.report import CheckContext
from ..core.resolve import Resolver
from ..rules import inval, scale
from ..rules import inval as _inval_rl
from ..rules import tables as _tables_be
from .common import run_control, generic_rules, anchor_funcs


def analyse(ctx: CheckContext, p: Program):
    r = Resolver(p)
    ctx.guard(generic_rules, ctx, p, r, "C05")
    ctx.guard(_tables_be.check_block_ends, ctx, p, r)
    ctx.guard(_inval_rl.check_round_last, ctx, p, r, anchor_funcs(p, "C05"))
    ctx.guard(scale.check_scale, ctx, p, r)
    ctx.guard(scale.check_graph_roles, ctx, p, r)
    # rows inserted later (constant-enthalpy projection, pocket cutting, utility levels) are written through fresh views
    eng = inval.InvalEngine(p, r)
    ctx.guard(inval.check_views, ctx, eng, r.pipeline_cone())


def run(ctx: CheckContext):
    p = Program()
    analyse(ctx, p)
    ctx.floor("SCALE", 4)
    ctx.floor("SCALE-ROLE", 4)
    ctx.floor("INVAL-I1", 4)
    ctx.assumptions += [
        "decides temperature-scale coherence only; per-row integrals, the cold-curve offset and tolerances are numeric and NOT decided",
        "tables are identified by construction (ProblemTable({T: ...}) / create_problem_table_with_t_int); scale flags are plain boolean parameters",
    ]
    pta = "OpenPinch/analysis/problem_table_analysis.py"
    ut = "OpenPinch/analysis/utility_targeting.py"
    ind = "OpenPinch/analysis/indirect_integration_entry.py"
    run_control(ctx, "C05/zero-recovery-skips-shift", analyse, p.root, "OpenPinch/analysis/problem_table_analysis.py",
                "if isinstance(known_heat_recovery, float):", "if known_heat_recovery:", "TRUTHY")
    run_control(ctx, "C05/flag-dropped-in-cascade", analyse, p.root, pta,
                "problem_table_algorithm(pt, hot_streams, cold_streams, is_shifted)", "problem_table_algorithm(pt, hot_streams, cold_streams)", "SCALE")
    run_control(ctx, "C05/real-utility-cascade-shifted", analyse, p.root, ut,
                "                cold_utilities, \n                is_shifted=False,\n", "                cold_utilities, \n                is_shifted=True,\n", "SCALE")
    run_control(ctx, "C05/selector-arm-swapped", analyse, p.root, pta,
                "t_min = np.array([s.t_min_star if use_shifted else s.t_min for s in streams])", "t_min = np.array([s.t_min if use_shifted else s.t_min_star for s in streams])", "SCALE")
    run_control(ctx, "C05/site-cascade-flag-dropped", analyse, p.root, ind,
                "problem_table_algorithm(pt_ut, hot_utilities, cold_utilities, is_shifted=is_shifted)", "problem_table_algorithm(pt_ut, hot_utilities, cold_utilities)", "SCALE")
    run_control(ctx, "C05/real-table-built-shifted", analyse, p.root, "OpenPinch/analysis/direct_integration_entry.py",
                "        is_shifted=False,\n        known_heat_recovery=get_heat_recovery_target_from_pt(pt)", "        is_shifted=True,\n        known_heat_recovery=get_heat_recovery_target_from_pt(pt)", "SCALE-ROLE")
    run_control(ctx, "C05/graph-cc-from-shifted", analyse, p.root, "OpenPinch/analysis/direct_integration_entry.py",
                "GT.CC.value: pt_real[[PT.T.value, PT.H_HOT.value, PT.H_COLD.value]]", "GT.CC.value: pt[[PT.T.value, PT.H_HOT.value, PT.H_COLD.value]]", "SCALE-GRAPH")
    run_control(ctx, "C05/twin-flag-through-keyword", analyse, p.root, pta,
                "problem_table_algorithm(pt, hot_streams, cold_streams, is_shifted)", "problem_table_algorithm(pt=pt, hot_streams=hot_streams, cold_streams=cold_streams, is_shifted=is_shifted)",
                "SCALE", expect_fire=False)

"""OpenPinch public API surface.

The package exposes a small set of high-level helpers for running Pinch Analysis
and working with the structured results.  Detailed configuration and schema
objects are re-exported from :mod:`OpenPinch.lib` for convenience so downstream
code can construct validated inputs.
"""

from .classes import PinchProblem
from .lib import *
from .main import pinch_analysis_service, get_targets, get_visualise, extract_results
from .utils.stream_linearisation import get_piecewise_linearisation_for_streams

__all__ = [
    "PinchProblem",
    "pinch_analysis_service",
    "get_targets",
    "get_visualise",
    "get_piecewise_linearisation_for_streams",
    "extract_results",
]

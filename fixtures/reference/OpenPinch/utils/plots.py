import plotly.graph_objects as go
import numpy as np


def plot_t_h_curve(points, title: str = "Temperature vs. Enthalpy") -> None:
    """
    Plot Temperature vs. Enthalpy.
    :param points: tuple with columns 'Temperature (K)' and 'Enthalpy (kJ/mol)'.
    :param title: Title of the graph.
    :returns: None
    """
    fig = go.Figure()
    fig.add_trace(
        go.Scatter(
            x=points[:, 0],
            y=points[:, 1],
            mode="lines+markers",
            name="T-H Curve",
        )
    )
    fig.update_layout(
        title=title,
        xaxis_title="Heat Flow / kW",
        yaxis_title="Temperature / \N{DEGREE SIGN}C",
        template="plotly_white",
    )
    fig.show()


def plot_t_h_curve_with_piecewise_and_bounds(
    points: np.array,
    piecewise_points: np.array,
    epsilon: float,
    title: str = "Temperature vs. Enthalpy",
) -> None:
    """
    Plot the TH curve, its piecewise linearization, and a shaded region ±epsilon around the TH curve.
    :param points: Original TH curve points.
    :param piecewise_points: Simplified piecewise linear curve points.
    :param epsilon: Epsilon value for shading.
    :param title: Title of the graph.
    """
    enthalpies, temperatures = points[:, 0], points[:, 1]
    upper_bound = [e + epsilon for e in temperatures]
    lower_bound = [e - epsilon for e in temperatures]

    fig = go.Figure()
    fig.add_trace(
        go.Scatter(
            x=enthalpies,
            y=temperatures,
            mode="lines",
            name="TH Curve",
            line={"color": "red", "width": 1.5},
        )
    )
    fig.add_trace(
        go.Scatter(
            x=piecewise_points[:, 0],
            y=piecewise_points[:, 1],
            mode="lines+markers",
            name="Piecewise Curve",
            line={"color": "blue", "width": 2, "dash": "dash"},
        )
    )
    fig.add_trace(
        go.Scatter(
            x=list(enthalpies) + list(reversed(enthalpies)),
            y=upper_bound + list(reversed(lower_bound)),
            fill="toself",
            fillcolor="rgba(135, 206, 250, 0.3)",
            line={"color": "rgba(135, 206, 250, 0.3)"},
            hoverinfo="skip",
            showlegend=True,
            name=f"±{epsilon} Bounds",
        )
    )

    fig.update_layout(
        title=title,
        xaxis_title="Heat Flow / kW",
        yaxis_title="Temperature / \N{DEGREE SIGN}C",
        template="plotly_white",
    )
    fig.show()

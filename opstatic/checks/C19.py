"""C19 - stream / stream-collection consistency: MEMO (sort cache), WHO (member map), DERIVED."""
import ast

from ..core.model import AnalysisError, Program
from ..core.report import CheckContext
from ..core.resolve import Resolver
from ..rules import classflow, derived
from .common import run_control, generic_rules


def analyse(ctx: CheckContext, p: Program):
    r = Resolver(p)
    ctx.guard(generic_rules, ctx, p, r, "C19")
    ctx.guard(_specific, ctx, p, r)
    ctx.guard(_stream_rules, ctx, p, r)


def _specific(ctx: CheckContext, p: Program, r: Resolver):
    sc = p.find_class("StreamCollection")
    st = p.find_class("Stream")
    if sc is None or st is None:
        raise AnalysisError("Stream / StreamCollection class not found")
    pats = classflow.find_dirty_flag_memo(r, sc)
    if len(pats) != 1:
        raise AnalysisError(f"StreamCollection: expected one dirty-flag sort cache, found {len(pats)}")
    pat = pats[0]
    ctx.rule("MEMO", "dirty-flag cache: at every normal exit of a method reachable after a write to a field the cache is computed from, "
                     "the cache is marked invalid (M1); every cache read is dominated by the recompute call with no member write in between (M2)")
    ctx.info["sort_cache"] = {"method": pat.method.qualname, "flag": pat.flag, "caches": pat.caches, "sources": sorted(pat.sources)}
    ctx.guard(classflow.check_memo, ctx, r, pat, "MEMO")
    ctx.rule("MEMO-DEAD", "every private field stored by a public mutator is read somewhere in the class")
    ctx.guard(classflow.check_dead_config_fields, ctx, r, sc, pat, "MEMO-DEAD")
    # the member map is the dict-typed source initialised with {} in __init__
    init = sc.methods["__init__"]
    maps = []
    for n in ast.walk(init.node):
        tgt = n.target if isinstance(n, ast.AnnAssign) else (n.targets[0] if isinstance(n, ast.Assign) else None)
        if tgt is not None and isinstance(getattr(n, "value", None), ast.Dict) and classflow.self_attr(tgt, "self") in pat.sources:
            maps.append(classflow.self_attr(tgt, "self"))
    if len(maps) != 1:
        raise AnalysisError(f"StreamCollection: member map not identified ({maps})")
    ctx.info["member_map"] = maps[0]
    ctx.guard(classflow.check_who_member_map, ctx, r, sc, maps[0])
    # concatenation holds every member of both operands: the result is fed from the member maps of BOTH operands
    addf = sc.methods.get("__add__")
    if addf is None:
        ctx.abstain("WHO-CONCAT", "StreamCollection.__add__ missing")
    else:
        other = addf.pos_params[1] if len(addf.pos_params) > 1 else None
        fed = set()
        for n in ast.walk(addf.node):
            src = None
            if isinstance(n, ast.For):
                src = n.iter
            elif isinstance(n, ast.Call) and isinstance(n.func, ast.Attribute) and n.func.attr in ("add_many", "update", "extend") and n.args:
                src = n.args[0]
            elif isinstance(n, ast.comprehension):
                src = n.iter
            if src is not None:
                for x in ast.walk(src):
                    if isinstance(x, ast.Attribute) and x.attr == maps[0] and isinstance(x.value, ast.Name):
                        fed.add(x.value.id)
                    if isinstance(x, ast.Name) and x.id in (addf.pos_params[0], other) and src is x:
                        fed.add(x.id)       # iterating the collection itself
        ok = {addf.pos_params[0], other} <= fed
        ctx.ob("WHO-CONCAT", f"{addf.qualname}", addf.loc, ok,
               "" if ok else f"concatenation feeds the result from {sorted(fed)} only: members of the other operand are lost")
    # nobody in the package switches overwrite prevention off
    inserter = [f for f in sc.methods.values() if f.name == "add"]
    if inserter:
        ins = inserter[0]
        flag = next((a for a in ins.pos_params + ins.kwonly_params if isinstance(ins.default_of(a), ast.Constant) and ins.default_of(a).value is True), None)
        for f in p.all_funcs:
            if isinstance(f.node, ast.Lambda) or f.cls is sc:
                continue
            for call, tg in r.calls_of(f):
                if ins in tg or (isinstance(call.func, ast.Attribute) and call.func.attr in ("add", "add_many") and any(k.arg == flag for k in call.keywords)):
                    for k in call.keywords:
                        if k.arg == flag and isinstance(k.value, ast.Constant) and not k.value.value:
                            ctx.ob("WHO", f"{f.qualname}:{ast.unparse(call)[:80]}", f"{f.module.relpath}:{call.lineno}", False,
                                   f"{f.name} inserts into a stream collection with overwrite prevention switched off: a member with the same key is silently replaced")
    # len / contains report the member map, not the cache
    for nm in ("__len__", "__contains__"):
        f = sc.methods.get(nm)
        if f is None:
            ctx.abstain("WHO-LEN", f"StreamCollection.{nm} missing")
            continue
        reads = classflow.fields_read(f.node, "self")
        ok = maps[0] in reads and not (set(pat.caches) & reads)
        ctx.ob("WHO-LEN", f"{f.qualname}", f.loc, ok, "" if ok else f"StreamCollection.{nm} does not answer from the member map {maps[0]} (reads {sorted(reads)})")


def _stream_rules(ctx: CheckContext, p: Program, r: Resolver):
    st = p.find_class("Stream")
    if st is None:
        raise AnalysisError("Stream class not found")
    ctx.guard(derived.check_derived, ctx, r, st, invariant_props=["CP", "t_min", "t_max", "t_min_star", "t_max_star", "htr"],
                          base_props=["t_supply", "t_target", "heat_flow", "dt_cont", "htc"])
    ctx.guard(derived.check_stale_order, ctx, r, st)
    ctx.guard(derived.check_setter_siblings, ctx, r, st, ["t_supply", "t_target", "heat_flow", "dt_cont", "htc"])
    groups = ctx.guard(derived.check_shift_direction, ctx, r, st)
    if groups is not None:
        ctx.guard(derived.check_helper_guards, ctx, r, st, groups)


def run(ctx: CheckContext):
    p = Program()
    analyse(ctx, p)
    ctx.floor("MEMO-M1", 4)        # add, replace, remove, set_sort_key
    ctx.floor("MEMO-M2", 3)        # get_index, __iter__, __getitem__, export_to_csv
    ctx.floor("WHO", 3)
    ctx.floor("DERIVED", 6)
    ctx.floor("DERIVED-DIR", 4)
    ctx.floor("DERIVED-ORDER", 4)
    ctx.assumptions += [
        "decides that every mutator refreshes/invalidates what depends on it and that members cannot be overwritten; "
        "the recomputation formulas themselves (CP = Q/dT, htr = 1/htc) are not decided",
        "setter sequences that assign derived attributes directly (CP, t_min ...) are outside the property's quantifier",
    ]
    sc = "OpenPinch/classes/stream_collection.py"
    stp = "OpenPinch/classes/stream.py"
    run_control(ctx, "C19/zero-temperature-skips-refresh", analyse, p.root, "OpenPinch/classes/stream.py",
                "if self._t_supply is None or self._t_target is None or self._htc is None:", "if not all((self._t_supply, self._t_target, self._htc)):", "TRUTHY")
    run_control(ctx, "C19/remove-without-invalidation", analyse, p.root, sc,
                "            del self._streams[stream_name]\n            self._needs_sort = True\n", "            del self._streams[stream_name]\n", "MEMO-M1")
    run_control(ctx, "C19/iter-without-ensure-sorted", analyse, p.root, sc,
                "    def __iter__(self):\n        self._ensure_sorted()\n", "    def __iter__(self):\n", "MEMO-M2")
    run_control(ctx, "C19/replace-direct-store", analyse, p.root, sc,
                "            self.add(stream)\n\n    def remove", "            self._streams[stream.name] = stream\n\n    def remove", "WHO")
    run_control(ctx, "C19/add-skips-a-lookalike-member", analyse, p.root, sc,
                "        # stream.name = key\n", "        if key in self._streams and self._streams[key] == stream:\n            return\n", "WHO-ALWAYS")
    run_control(ctx, "C19/size-heuristic-instead-of-flag", analyse, p.root, sc,
                "        self._streams[key] = stream\n        self._needs_sort = True\n", "        self._streams[key] = stream\n", "MEMO-M1")
    run_control(ctx, "C19/duty-setter-through-partial-helper", analyse, p.root, stp,
                "    def heat_flow(self, value: float):\n        self._heat_flow = value\n        self._update_attributes()\n",
                "    def heat_flow(self, value: float):\n        self.set_heat_flow(value)\n", "DERIVED-SIB")
    run_control(ctx, "C19/concat-drops-other", analyse, p.root, sc,
                "        for stream in other._streams.values():\n            combined.add(stream)\n", "", "WHO-CONCAT")
    run_control(ctx, "C19/overwrite-from-outside", analyse, p.root, "OpenPinch/classes/zone.py",
                "                hs_dst.add(s, key)", "                hs_dst.add(s, key, prevent_overwrite=False)", "WHO")
    run_control(ctx, "C19/dt_cont-setter-no-recompute", analyse, p.root, stp,
                "        self._dt_cont = value\n        self._update_attributes()\n", "        self._dt_cont = value\n", "DERIVED")
    run_control(ctx, "C19/cold-shift-sign", analyse, p.root, stp,
                "        self._t_min_star = self._t_min + self._dt_cont\n", "        self._t_min_star = self._t_min - self._dt_cont\n", "DERIVED-DIR")
    run_control(ctx, "C19/refactor-twin-commuted-sum", analyse, p.root, stp,
                "        self._t_min_star = self._t_min + self._dt_cont\n", "        self._t_min_star = self._dt_cont + self._t_supply\n", "DERIVED", expect_fire=False)

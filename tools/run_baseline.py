#!/venv/bin/python
"""Run the repository's pinned baseline suite (guard OFF) and compare with
/root/.vp/BASELINE.json: every stable_pass test must pass.  Exit 0 iff so."""
import json, os, subprocess, sys, tempfile, xml.etree.ElementTree as ET

def main():
    base = json.load(open("/root/.vp/BASELINE.json"))
    stable = set(base["stable_pass"])
    with tempfile.TemporaryDirectory() as td:
        xml = os.path.join(td, "junit.xml")
        cmd = base["cmd"].replace("<file>", xml)
        env = dict(os.environ)
        env.pop("OPENPINCH_VERIF", None)
        p = subprocess.run(cmd, shell=True, env=env, stdout=subprocess.PIPE, stderr=subprocess.STDOUT, text=True)
        if not os.path.exists(xml):
            print(p.stdout[-3000:])
            print("BASELINE: no junit file produced")
            return 2
        passed = set()
        for tc in ET.parse(xml).getroot().iter("testcase"):
            name = f"{tc.get('classname')}::{tc.get('name')}"
            bad = any(ch.tag in ("failure", "error", "skipped") for ch in tc)
            if not bad:
                passed.add(name)
    missing = sorted(stable - passed)
    print(f"BASELINE: {len(stable & passed)}/{len(stable)} stable tests passed; extra passing {len(passed - stable)}")
    for m in missing[:20]:
        print("  NOT PASSING:", m)
    return 0 if not missing else 1

if __name__ == "__main__":
    sys.exit(main())

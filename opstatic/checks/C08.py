"""C08 - columns written by the pipeline are interpolated on insertion (T1); CP/dH pairing (T2)."""
from ..core.model import Program
from ..core.report import CheckContext
from ..core.resolve import Resolver
from ..rules import tables
from ..rules import tables as _tables_be
from .common import run_control, generic_rules


def analyse(ctx: CheckContext, p: Program):
    r = Resolver(p)
    ctx.guard(generic_rules, ctx, p, r, "C08")
    ctx.guard(_tables_be.check_block_ends, ctx, p, r)
    ctx.guard(tables.check_interpolation_keys, ctx, p, r)
    ctx.guard(tables.check_capacity_pairs, ctx, p, r)
    ctx.guard(tables.check_insert_count, ctx, p, r)


def run(ctx: CheckContext):
    p = Program()
    analyse(ctx, p)
    ctx.floor("T1", 15)
    ctx.floor("T2", 6)
    ctx.floor("COUNT", 3)
    ctx.assumptions += [
        "decides table membership only: interpolation arithmetic, ordering/dedup within tolerance and the interval-width convention of rebuilt rows are NOT decided "
        "(the off-centre interval-width behaviour named in the property has no structural signature and is not detected)",
        "cumulative columns are the ProblemTableLabel members named H_* (the repository's own naming table)",
    ]
    pt = "OpenPinch/classes/problem_table.py"
    run_control(ctx, "C08/neighbours-from-one-end", analyse, p.root, pt,
                "            upper_pos = orig_positions.get(lower_idx - 1)\n            lower_pos = orig_positions.get(lower_idx)", "            upper_pos = positions[0] - 1\n            lower_pos = positions[0] + 1", "BLOCK-ENDS")
    run_control(ctx, "C08/memo-not-dropped-by-writers", analyse, p.root, pt, "    def delete_row(self, index: int):\n",
                "    _col_total = None\n\n    def total(self):\n        if self._col_total is None:\n            self._col_total = self.data.sum(axis=0)\n"
                "        return self._col_total\n\n    def delete_row(self, index: int):\n", "MEMO-COH")
    run_control(ctx, "C08/key-removed", analyse, p.root, pt, "    PT.H_NET_UT.value,\n", "", "T1")
    run_control(ctx, "C08/key-duplicated", analyse, p.root, pt, "    PT.H_HOT_UT.value,\n    PT.H_COLD_UT.value,\n", "    PT.H_HOT_UT.value,\n    PT.H_HOT_UT.value,\n", "T1")
    run_control(ctx, "C08/count-off", analyse, p.root, pt, "        return new_data, inserted_total", "        return new_data, len(interval_map)", "COUNT")
    run_control(ctx, "C08/pair-crossed", analyse, p.root, pt, "(PT.CP_COLD.value, PT.DELTA_H_COLD.value)", "(PT.CP_COLD.value, PT.DELTA_H_HOT.value)", "T2")

"""C17 - the simplifier is total on 2-column curves for the installed numpy (API), end points survive (MASK), orientation flags are threaded (FLAG)."""
from ..core.model import Program
from ..core.report import CheckContext
from ..core.resolve import Resolver
from ..rules import api, simplify
from .common import run_control, generic_rules

MODS = ["OpenPinch.utils.stream_linearisation"]


def analyse(ctx: CheckContext, p: Program):
    r = Resolver(p)
    ctx.guard(generic_rules, ctx, p, r, "C17")
    ctx.guard(simplify.check_cross_contract, ctx, p, r)
    fs = [f for f in p.all_funcs if f.module.name in ("OpenPinch.utils.stream_linearisation",) or
          (f.module.name == "OpenPinch.utils.miscellaneous" and f.name.startswith("clean_composite"))]
    ctx.guard(api.check_module_attrs, ctx, p, r, fs)
    ctx.guard(simplify.check_keep_mask, ctx, p, r)
    ctx.guard(simplify.check_flag_threading, ctx, p, r, MODS)


def run(ctx: CheckContext):
    p = Program()
    analyse(ctx, p)
    ctx.floor("MASK", 5)
    ctx.floor("API-MOD", 8)
    ctx.floor("FLAG", 3)
    ctx.assumptions += [
        "decides totality on 2-column curves under the installed numpy, survival of both end points and original order, and forwarding of the hot/cold flag; "
        "the deviation bounds (1e-6, requested maximum deviation, one-sided tenth) are numeric / optimisation results and NOT decided",
        "installed library inspected: numpy.cross behaviour on 2-vectors, attribute tables of numpy / scipy.optimize",
    ]
    sl = "OpenPinch/utils/stream_linearisation.py"
    run_control(ctx, "C17/np-cross-on-2-vectors", analyse, p.root, sl,
                "            distance = abs(\n                line_vector[0] * point_vector[1] - line_vector[1] * point_vector[0]\n            ) / line_length\n",
                "            distance = abs(np.cross(line_vector, point_vector)) / line_length\n", "API-CROSS")
    run_control(ctx, "C17/mask-drops-start", analyse, p.root, sl, "indices[start + 1 : end] = False", "indices[start : end] = False", "MASK")
    run_control(ctx, "C17/mask-drops-end", analyse, p.root, sl, "indices[start + 1 : end] = False", "indices[start + 1 : end + 1] = False", "MASK")
    run_control(ctx, "C17/flag-not-forwarded", analyse, p.root, sl,
                "                curve, pw_points, epsilon / 10, is_hot_stream\n", "                curve, pw_points, epsilon / 10\n", "FLAG")
    run_control(ctx, "C17/removed-numpy-alias", analyse, p.root, sl, "nlc = NonlinearConstraint(con, -np.inf, eps_lb)", "nlc = NonlinearConstraint(con, -np.Inf, eps_lb)", "API-MOD")

"""BOUND - string-length abstract interpretation (sheet names are <= 31 characters for ALL inputs).

Length of a string value is abstracted by a set of linear upper-bound terms over length symbols
(each symbol carries an integer interval).  The numeric bound is the minimum over the terms of the
term's maximum.  Understands: literals, f-strings / concatenation, constant- and term-bounded slices
(a slice bound is accepted only when it is provably non-negative), `a or "lit"`, conditional
expressions whose test compares a sum of lengths with a constant (the negated test constrains the
else arm), `for i in range(a, b)` (decimal digit count of the counter), str(i)/format of ints.
Anything else in a position that matters raises AnalysisError (never a guess)."""
from __future__ import annotations

import ast
import math
from dataclasses import dataclass
from typing import Dict, List, Optional, Tuple

from ..core.model import AnalysisError

INF = 10**9


class Lin:
    """const + sum coef*symbol"""
    __slots__ = ("c", "t")

    def __init__(self, c=0, t=None):
        self.c = c
        self.t = {k: v for k, v in (t or {}).items() if v != 0}

    def __add__(self, o):
        t = dict(self.t)
        for k, v in o.t.items():
            t[k] = t.get(k, 0) + v
        return Lin(self.c + o.c, t)

    def __neg__(self):
        return Lin(-self.c, {k: -v for k, v in self.t.items()})

    def __sub__(self, o):
        return self + (-o)

    def key(self):
        return (self.c, tuple(sorted(self.t.items())))

    def __eq__(self, o):
        return isinstance(o, Lin) and self.key() == o.key()

    def __hash__(self):
        return hash(self.key())

    def hi(self, iv):
        v = self.c
        for k, a in self.t.items():
            lo, hi = iv[k]
            v += a * (hi if a > 0 else lo)
            if abs(v) >= INF:
                return INF if v > 0 else -INF
        return v

    def lo(self, iv):
        v = self.c
        for k, a in self.t.items():
            lo, hi = iv[k]
            v += a * (lo if a > 0 else hi)
            if abs(v) >= INF:
                return INF if v > 0 else -INF
        return v

    def __repr__(self):
        s = " + ".join([str(self.c)] + [f"{a}*{k}" for k, a in sorted(self.t.items())])
        return s


@dataclass
class SVal:
    """abstract string: exact symbolic length (Lin) if known, plus a set of upper-bound terms"""
    exact: Optional[Lin]
    ubs: List[Lin]


@dataclass
class IVal:
    """abstract integer as linear term (exact) or interval symbol"""
    lin: Lin


class StrLen:
    def __init__(self, fnode: ast.FunctionDef, summaries: Optional[Dict[str, int]] = None, where: str = ""):
        self.fnode = fnode
        self.iv: Dict[str, Tuple[int, int]] = {}
        self.n = 0
        self.summaries = summaries or {}
        self.where = where
        self.returns: List[Tuple[ast.Return, int]] = []

    def fresh(self, lo, hi, tag="v") -> Lin:
        self.n += 1
        k = f"{tag}{self.n}"
        self.iv[k] = (lo, hi)
        return Lin(0, {k: 1})

    def num_ub(self, v: SVal) -> int:
        cands = [t.hi(self.iv) for t in v.ubs]
        if v.exact is not None:
            cands.append(v.exact.hi(self.iv))
        return min(cands) if cands else INF

    # ------------------------------------------------------------ expressions
    def int_expr(self, e: ast.AST, env) -> Lin:
        if isinstance(e, ast.Constant) and isinstance(e.value, int) and not isinstance(e.value, bool):
            return Lin(e.value)
        if isinstance(e, ast.Name) and isinstance(env.get(e.id), IVal):
            return env[e.id].lin
        if isinstance(e, ast.Call) and isinstance(e.func, ast.Name) and e.func.id == "len" and len(e.args) == 1:
            v = self.str_expr(e.args[0], env)
            if v.exact is not None:
                return v.exact
            # unknown exact length: a fresh symbol bounded by the numeric upper bound
            s = self.fresh(0, self.num_ub(v), "len")
            return s
        if isinstance(e, ast.BinOp) and isinstance(e.op, (ast.Add, ast.Sub)):
            l, r = self.int_expr(e.left, env), self.int_expr(e.right, env)
            return l + r if isinstance(e.op, ast.Add) else l - r
        if isinstance(e, ast.UnaryOp) and isinstance(e.op, ast.USub):
            return -self.int_expr(e.operand, env)
        raise AnalysisError(f"{self.where}: integer expression not understood: {ast.unparse(e)}")

    def _digits(self, lin: Lin) -> Tuple[int, int]:
        lo, hi = lin.lo(self.iv), lin.hi(self.iv)
        if lo < 0 or hi >= INF:
            raise AnalysisError(f"{self.where}: integer with unbounded/negative range is formatted into a name")
        d = lambda n: len(str(int(n)))
        return d(lo), d(hi)

    def str_expr(self, e: ast.AST, env) -> SVal:
        if isinstance(e, ast.Constant) and isinstance(e.value, str):
            return SVal(Lin(len(e.value)), [])
        if isinstance(e, ast.Name):
            v = env.get(e.id)
            if isinstance(v, SVal):
                return v
            if isinstance(v, IVal):
                raise AnalysisError(f"{self.where}: integer used as string: {e.id}")
            return SVal(self.fresh(0, INF, e.id + "_"), [])      # parameter / unknown string of any length
        if isinstance(e, ast.JoinedStr):
            total_exact: Optional[Lin] = Lin(0)
            parts: List[SVal] = []
            for p in e.values:
                if isinstance(p, ast.Constant):
                    pv = SVal(Lin(len(p.value)), [])
                elif isinstance(p, ast.FormattedValue):
                    if p.format_spec is not None or p.conversion not in (-1, 115):
                        raise AnalysisError(f"{self.where}: format spec in a sheet-name f-string not understood")
                    inner = p.value
                    if isinstance(inner, ast.Name) and isinstance(env.get(inner.id), IVal):
                        lo, hi = self._digits(env[inner.id].lin)
                        pv = SVal(self.fresh(lo, hi, "dig"), [])
                    else:
                        pv = self.str_expr(inner, env)
                else:
                    raise AnalysisError(f"{self.where}: f-string part not understood")
                parts.append(pv)
            return self._concat(parts)
        if isinstance(e, ast.BinOp) and isinstance(e.op, ast.Add):
            return self._concat([self.str_expr(e.left, env), self.str_expr(e.right, env)])
        if isinstance(e, ast.Subscript) and isinstance(e.slice, ast.Slice):
            base = self.str_expr(e.value, env)
            sl = e.slice
            if sl.step is not None or sl.lower is not None:
                # x[a:] or stepped: only the trivial bound len <= len(x)
                return SVal(None, self._all_ubs(base))
            if sl.upper is None:
                return base
            k = self.int_expr(sl.upper, env)
            if k.lo(self.iv) < 0:
                raise AnalysisError(f"{self.where}: slice bound `{ast.unparse(sl.upper)}` may be negative (would count from the end); "
                                    f"lower bound {k.lo(self.iv)}")
            return SVal(None, self._all_ubs(base) + [k])
        if isinstance(e, ast.BoolOp) and isinstance(e.op, ast.Or):
            vals = [self.str_expr(v, env) for v in e.values]
            return self._join(vals)
        if isinstance(e, ast.IfExp):
            return self._ifexp(e, env)
        if isinstance(e, ast.Call):
            fn = e.func
            if isinstance(fn, ast.Name) and fn.id == "str" and len(e.args) == 1 and isinstance(e.args[0], ast.Name) and isinstance(env.get(e.args[0].id), IVal):
                lo, hi = self._digits(env[e.args[0].id].lin)
                return SVal(self.fresh(lo, hi, "dig"), [])
            if isinstance(fn, ast.Attribute) and fn.attr in ("strip", "rstrip", "lstrip", "lower", "upper", "title") :
                base = self.str_expr(fn.value, env)
                if fn.attr in ("lower", "upper"):
                    return SVal(None, self._all_ubs(base))   # len may change for exotic code points only upward? keep ub unknown-safe
                return SVal(None, self._all_ubs(base))
            if isinstance(fn, ast.Name) and fn.id in self.summaries:
                ub = self.summaries[fn.id]
                return SVal(None, [Lin(ub)] if ub < INF else [])
            if isinstance(fn, ast.Name):
                return SVal(None, [])      # unknown callee: any length
            if isinstance(fn, ast.Attribute):
                return SVal(None, [])
        raise AnalysisError(f"{self.where}: string expression not understood: {ast.unparse(e)}")

    def _all_ubs(self, v: SVal) -> List[Lin]:
        return list(v.ubs) + ([v.exact] if v.exact is not None else [])

    def _concat(self, parts: List[SVal]) -> SVal:
        if all(p.exact is not None for p in parts):
            ex = Lin(0)
            for p in parts:
                ex = ex + p.exact
        else:
            ex = None
        # upper bounds: cartesian sums (small)
        ubs: List[Lin] = [Lin(0)]
        for p in parts:
            alts = self._all_ubs(p)
            if not alts:
                return SVal(ex, [])
            ubs = [a + b for a in ubs for b in alts][:64]
        return SVal(ex, ubs)

    def _join(self, vals: List[SVal]) -> SVal:
        """value may be any of vals: keep terms valid for all; otherwise a constant max"""
        common = None
        for v in vals:
            s = set(self._all_ubs(v))
            common = s if common is None else (common & s)
        out = list(common or [])
        m = max(self.num_ub(v) for v in vals)
        if m < INF:
            out.append(Lin(m))
        ex = vals[0].exact if all(v.exact is not None and v.exact == vals[0].exact for v in vals) else None
        return SVal(ex, out)

    def _ifexp(self, e: ast.IfExp, env) -> SVal:
        t = e.test
        a = self.str_expr(e.body, env)
        b = self.str_expr(e.orelse, env)
        # test of the form  <lin> > K   (or >=):  in the else arm  <lin> <= K  (or < K)
        if isinstance(t, ast.Compare) and len(t.ops) == 1 and isinstance(t.ops[0], (ast.Gt, ast.GtE)):
            lhs = self.int_expr(t.left, env)
            rhs = self.int_expr(t.comparators[0], env)
            slack = 0 if isinstance(t.ops[0], ast.Gt) else 1
            # else arm: lhs <= rhs - slack.  If b has exact length L occurring in lhs with coef 1: L <= rhs - slack - (lhs - L)
            if b.exact is not None:
                rest = lhs - b.exact
                if all(k not in rest.t for k in b.exact.t) or True:
                    b = SVal(b.exact, b.ubs + [rhs - Lin(slack) - rest])
        return self._join([a, b])

    # ------------------------------------------------------------ statements
    def run(self):
        env: Dict[str, object] = {}
        self._block(self.fnode.body, env)
        return self.returns

    def _block(self, stmts, env):
        for st in stmts:
            self._stmt(st, env)

    def _stmt(self, st, env):
        if isinstance(st, ast.Assign) and len(st.targets) == 1 and isinstance(st.targets[0], ast.Name):
            nm = st.targets[0].id
            try:
                v = self.str_expr(st.value, env)
            except AnalysisError as first:
                try:
                    env[nm] = IVal(self.int_expr(st.value, env))
                except AnalysisError:
                    raise first
                return
            if v.exact is None:
                # name the unknown length: one stable symbol per assignment, bounded by what is known
                sym = self.fresh(0, self.num_ub(v), nm + "_")
                v = SVal(sym, list(v.ubs))
            env[nm] = v
            return
        if isinstance(st, ast.Return):
            if st.value is not None:
                v = self.str_expr(st.value, env)
                self.returns.append((st, self.num_ub(v)))
            return
        if isinstance(st, ast.If):
            self._block(st.body, dict(env))
            self._block(st.orelse, dict(env))
            # variables assigned in branches become unknown afterwards (not needed by the repo's shape)
            for n in ast.walk(st):
                if isinstance(n, ast.Name) and isinstance(n.ctx, ast.Store):
                    env.pop(n.id, None)
            return
        if isinstance(st, ast.For):
            it = st.iter
            if isinstance(it, ast.Call) and isinstance(it.func, ast.Name) and it.func.id == "range" and isinstance(st.target, ast.Name) \
                    and all(isinstance(a, ast.Constant) and isinstance(a.value, int) for a in it.args) and 1 <= len(it.args) <= 2:
                lo = it.args[0].value if len(it.args) == 2 else 0
                hi = (it.args[1].value if len(it.args) == 2 else it.args[0].value) - 1
                env2 = dict(env)
                env2[st.target.id] = IVal(self.fresh(lo, hi, st.target.id + "_"))
                self._block(st.body, env2)
                return
            raise AnalysisError(f"{self.where}: loop form not understood: {ast.unparse(st).splitlines()[0]}")
        if isinstance(st, (ast.Expr, ast.Raise, ast.Pass)):
            return
        raise AnalysisError(f"{self.where}: statement not understood: {ast.unparse(st).splitlines()[0]}")

"""ORDER / ATTR / T4 - the service is total on every option path (C14).

ORDER: the per-zone target registry is defined before it is read on every path through the zone-type
handlers, with the option flags and child zone types as free conditions.
ATTR:  every attribute read on a Configuration-typed expression is declared by the class.
T4:    the handler table covers every root zone type preparation can produce, in the label form the lookup uses."""
from __future__ import annotations

import ast
import itertools
from dataclasses import dataclass, field
from typing import Dict, FrozenSet, List, Optional, Set, Tuple

from ..core.model import AnalysisError, ClassInfo, FuncInfo, Program
from ..core.report import CheckContext, norm_stmt
from ..core.resolve import Resolver, body_nodes


# =========================================================================================
# registry summaries of the integration entry functions
# =========================================================================================
@dataclass
class RegSummary:
    requires: List[Tuple[str, str, ast.AST]] = field(default_factory=list)    # (who: self|sub, K, node)
    defines: List[str] = field(default_factory=list)                          # K defined for self on the straight path


def _enum_member(r: Resolver, f: FuncInfo, e: ast.AST, enum: ClassInfo) -> Optional[Tuple[str, str]]:
    """('text'|'member', name) if e denotes Enum.X.value / Enum.X"""
    node, form = e, "member"
    if isinstance(e, ast.Attribute) and e.attr == "value":
        node, form = e.value, "text"
    b = r.resolve_static(f, f.module, node) if isinstance(node, (ast.Name, ast.Attribute)) else None
    if b is not None and b.kind == "classattr" and b.target[0] is enum:
        return (form, b.target[1])
    return None


def _key_target(r: Resolver, f: FuncInfo, key: ast.AST, tt: ClassInfo) -> Optional[Tuple[str, str]]:
    """(zone variable, K) from  f"{X.name}/{TargetType.K.value}"  or  key_name(X.name, TargetType.K.value)"""
    if isinstance(key, ast.JoinedStr):
        zvar = k = None
        for part in key.values:
            if isinstance(part, ast.FormattedValue):
                v = part.value
                if isinstance(v, ast.Attribute) and v.attr == "name" and isinstance(v.value, ast.Name):
                    zvar = v.value.id
                else:
                    m = _enum_member(r, f, v, tt)
                    if m:
                        k = m[1]
        if zvar and k:
            return zvar, k
    if isinstance(key, ast.Call) and len(key.args) >= 1:
        tg = r.resolve_call(f, key)
        if any(isinstance(t, FuncInfo) and t.name == "key_name" for t in tg):
            a0 = key.args[0]
            k = None
            if len(key.args) > 1:
                m = _enum_member(r, f, key.args[1], tt)
                k = m[1] if m else None
            else:
                kn = [t for t in tg if isinstance(t, FuncInfo)][0]
                d = kn.default_of(kn.pos_params[1]) if len(kn.pos_params) > 1 else None
                m = _enum_member(r, kn, d, tt) if d is not None else None
                k = m[1] if m else None
            if isinstance(a0, ast.Attribute) and a0.attr == "name" and isinstance(a0.value, ast.Name) and k:
                return a0.value.id, k
    return None


class Registry:
    def __init__(self, p: Program, r: Resolver):
        self.p, self.r = p, r
        self.tt = p.find_class("TargetType")
        self.zt = p.find_class("ZoneType")
        if self.tt is None or self.zt is None:
            raise AnalysisError("TargetType / ZoneType not found")
        self.summ: Dict[FuncInfo, RegSummary] = {}

    def zone_param(self, f: FuncInfo) -> Optional[str]:
        zone_cls = self.p.find_class("Zone")
        for a in f.params:
            if self.r.class_from_annotation(f.module, a.annotation, f) is zone_cls:
                return a.arg
        return None

    def summary(self, f: FuncInfo, depth=0) -> RegSummary:
        if f in self.summ:
            return self.summ[f]
        sm = RegSummary()
        self.summ[f] = sm
        zp = self.zone_param(f)
        if zp is None:
            return sm
        defined: Set[str] = set()

        def visit(stmts, subvars: Set[str]):
            for st in stmts:
                if isinstance(st, (ast.For,)) and isinstance(st.target, ast.Name) and _is_subzones_iter(st.iter, zp):
                    visit(st.body, subvars | {st.target.id})
                    continue
                if isinstance(st, (ast.If, ast.For, ast.While, ast.With, ast.Try)):
                    # conditional definitions are not relied upon; requirements inside are collected
                    for fld in ("body", "orelse", "finalbody"):
                        sub = getattr(st, fld, None)
                        if isinstance(sub, list):
                            saved = set(defined)
                            visit([x for x in sub if isinstance(x, ast.stmt)], subvars)
                            defined.clear()
                            defined.update(saved)
                    if isinstance(st, ast.If):
                        scan_expr(st.test, subvars)
                    continue
                scan_expr(st, subvars)

        def scan_expr(node, subvars):
            # comprehension generators over the sub-zones bind sub-zone variables too
            subvars = set(subvars)
            for n in ast.walk(node):
                if isinstance(n, ast.comprehension) and isinstance(n.target, ast.Name) and _is_subzones_iter(n.iter, zp):
                    subvars.add(n.target.id)
            # evaluation order within a statement: reads before the (single) define
            for n in ast.walk(node):
                if isinstance(n, ast.Subscript) and isinstance(n.value, ast.Attribute) and n.value.attr == "targets" and isinstance(n.value.value, ast.Name):
                    kt = _key_target(self.r, f, n.slice, self.tt)
                    if kt is None:
                        continue
                    zvar, k = kt
                    if zvar == zp and n.value.value.id == zp:
                        if k not in defined:
                            sm.requires.append(("self", k, n))
                    elif zvar in subvars and n.value.value.id == zvar:
                        sm.requires.append(("sub", k, n))
            for n in ast.walk(node):
                if isinstance(n, ast.Call):
                    if isinstance(n.func, ast.Attribute) and n.func.attr == "add_target_from_results" and isinstance(n.func.value, ast.Name) \
                            and n.func.value.id == zp and n.args:
                        m = _enum_member(self.r, f, n.args[0], self.tt)
                        if m:
                            defined.add(m[1])
                            if m[1] not in sm.defines:
                                sm.defines.append(m[1])
                    else:
                        for t in self.r.resolve_call(f, n):
                            if isinstance(t, FuncInfo) and t is not f and depth < 4:
                                tz = self.zone_param(t)
                                if tz is None:
                                    continue
                                # callee applied to our own zone?
                                arg0 = None
                                pos = t.pos_params
                                for i, a in enumerate(n.args):
                                    if i < len(pos) and pos[i] == tz:
                                        arg0 = a
                                for kw in n.keywords:
                                    if kw.arg == tz:
                                        arg0 = kw.value
                                if isinstance(arg0, ast.Name) and arg0.id == zp:
                                    cs = self.summary(t, depth + 1)
                                    for who, k, nn in cs.requires:
                                        if who == "self" and k in defined:
                                            continue
                                        sm.requires.append((who, k, nn))
                                    for k in cs.defines:
                                        defined.add(k)
                                        if k not in sm.defines:
                                            sm.defines.append(k)
        visit(f.node.body, set())
        return sm


def _is_subzones_iter(e: ast.AST, zp: str) -> bool:
    # zone.subzones.values()
    return isinstance(e, ast.Call) and isinstance(e.func, ast.Attribute) and e.func.attr == "values" and isinstance(e.func.value, ast.Attribute) \
        and e.func.value.attr == "subzones" and isinstance(e.func.value.value, ast.Name) and e.func.value.value.id == zp


# =========================================================================================
# symbolic exploration of the handlers
# =========================================================================================
RAISES = "raises"


class HandlerExplorer:
    """Evaluates a handler-like function (any function of the handlers' module taking a zone) for a zone of a given type under
    a given assignment of the option flags.  Result: the set of registry entries certainly defined for that zone on every
    normal exit (must-information), or RAISES when no path returns.  Child zones are explored per zone type."""

    def __init__(self, p: Program, r: Resolver, reg: Registry, handlers: Dict[str, FuncInfo], ctx: CheckContext, rule: str):
        self.p, self.r, self.reg, self.handlers, self.ctx, self.rule = p, r, reg, handlers, ctx, rule
        self.handler_set = set(handlers.values())
        self.handler_types: Dict[FuncInfo, List[str]] = {}
        self.module = next(iter(self.handler_set)).module
        self.ztypes = [nm for nm in reg.zt.class_attrs if not nm.startswith("_")]
        self.all_k = set(reg.tt.class_attrs)
        self.flags: List[str] = []
        for f in p.all_funcs:
            if f.module is self.module and not isinstance(f.node, ast.Lambda):
                for n in body_nodes(f):
                    if isinstance(n, ast.Attribute) and isinstance(n.value, ast.Attribute) and n.value.attr == "config" and n.attr.isupper():
                        if n.attr not in self.flags:
                            self.flags.append(n.attr)
        self.memo: Dict[tuple, object] = {}
        self.assume: Dict[tuple, object] = {}
        self.findings: Dict[str, dict] = {}
        self.requirement_sites: Dict[str, bool] = {}
        self.paths = 0
        self.record = False
        self.dispatch_sites = {}
        self.assume_env = {}

    # ---------------------------------------------------------------- conditions
    def flag_value(self, test: ast.AST, env) -> Optional[bool]:
        if isinstance(test, ast.Attribute) and isinstance(test.value, ast.Attribute) and test.value.attr == "config":
            return env.get(test.attr)
        if isinstance(test, ast.UnaryOp) and isinstance(test.op, ast.Not):
            v = self.flag_value(test.operand, env)
            return None if v is None else not v
        return None

    def subs_test(self, test: ast.AST, zp: str, st) -> Optional[bool]:
        """polarity of a 'has sub-zones' test: True if the test is true when sub-zones exist, False if true when none exist"""
        if isinstance(test, ast.Name) and test.id in st["bools"]:
            return st["bools"][test.id]
        if isinstance(test, ast.UnaryOp) and isinstance(test.op, ast.Not):
            v = self.subs_test(test.operand, zp, st)
            return None if v is None else not v
        if isinstance(test, ast.Compare) and len(test.ops) == 1 and isinstance(test.left, ast.Call) and isinstance(test.left.func, ast.Name) \
                and test.left.func.id == "len" and test.left.args and isinstance(test.comparators[0], ast.Constant) and test.comparators[0].value == 0:
            a = test.left.args[0]
            if isinstance(a, ast.Attribute) and a.attr == "subzones" and isinstance(a.value, ast.Name) and a.value.id == zp:
                if isinstance(test.ops[0], (ast.Gt, ast.NotEq)):
                    return True
                if isinstance(test.ops[0], (ast.Eq, ast.LtE)):
                    return False
        if isinstance(test, ast.Attribute) and test.attr == "subzones" and isinstance(test.value, ast.Name) and test.value.id == zp:
            return True
        return None

    def registry_test(self, f: FuncInfo, test: ast.AST, st) -> Optional[Tuple[str, str, bool]]:
        """(zone variable, record kind, polarity) for `<key of kind K of zone v> [not] in v.targets`"""
        if isinstance(test, ast.UnaryOp) and isinstance(test.op, ast.Not):
            x = self.registry_test(f, test.operand, st)
            return None if x is None else (x[0], x[1], not x[2])
        if isinstance(test, ast.Compare) and len(test.ops) == 1 and isinstance(test.ops[0], (ast.In, ast.NotIn)):
            c = test.comparators[0]
            if isinstance(c, ast.Attribute) and c.attr == "targets" and isinstance(c.value, ast.Name) and c.value.id in st["defs"]:
                kt = _key_target(self.r, f, test.left, self.reg.tt)
                if kt is not None and kt[0] == c.value.id:
                    return kt[0], kt[1], isinstance(test.ops[0], ast.In)
        return None

    def ident_test(self, f: FuncInfo, test: ast.AST, st) -> Optional[Tuple[str, str]]:
        """(zone variable, zone type member) for `v.identifier == ZoneType.X.value`"""
        if isinstance(test, ast.Compare) and len(test.ops) == 1 and isinstance(test.ops[0], ast.Eq):
            l, rr = test.left, test.comparators[0]
            if isinstance(l, ast.Attribute) and l.attr == "identifier" and isinstance(l.value, ast.Name) and l.value.id in st["types"]:
                m = _enum_member(self.r, f, rr, self.reg.zt)
                if m and m[0] == "text":
                    return l.value.id, m[1]
                if m and m[0] == "member":
                    # a text identifier never equals an enumeration member (reported by T4-FORM): the branch is dead
                    return l.value.id, "<never>"
        return None

    # ---------------------------------------------------------------- evaluation
    def eval_fn(self, g: FuncInfo, env: Dict[str, bool], ztype: Optional[str]):
        key = (g, frozenset(env.items()), ztype)
        if key in self.memo:
            return self.memo[key]
        if key in self._active:
            return self.assume.get(key, set(self.all_k))     # greatest fix-point for recursive handlers
        self._active.add(key)
        zp = self.reg.zone_param(g) or (g.pos_params[0] if g.pos_params else None)
        if zp is None:
            raise AnalysisError(f"{g.loc}: handler-like function without a zone parameter")
        exits: List[set] = []
        st0 = {"defs": {zp: set()}, "types": {zp: ztype}, "sub": None, "has_subs": None, "bools": {}, "tested": set()}
        out = self._exec(g, g.node.body, zp, env, st0, exits)
        if out is not None:
            exits.append(set(out["defs"][zp]))
            self.paths += 1
        self._active.discard(key)
        if not exits:
            res = RAISES
        else:
            res = set(exits[0])
            for e in exits[1:]:
                res &= e
        self.memo[key] = res
        return res

    def _copy(self, st):
        return {"defs": {k: set(v) for k, v in st["defs"].items()}, "types": dict(st["types"]), "sub": st["sub"], "has_subs": st["has_subs"],
                "bools": dict(st["bools"]), "tested": set(st.get("tested", ()))}

    def _join(self, a, b):
        if a is None:
            return b
        if b is None:
            return a
        out = self._copy(a)
        for k in out["defs"]:
            out["defs"][k] = a["defs"].get(k, set()) & b["defs"].get(k, set())
        if a["sub"] is None or b["sub"] is None:
            out["sub"] = a["sub"] if b["has_subs"] is False else (b["sub"] if a["has_subs"] is False else None)
        else:
            out["sub"] = {t: a["sub"].get(t, self.all_k) & b["sub"].get(t, self.all_k) for t in set(a["sub"]) | set(b["sub"])}
        out["has_subs"] = a["has_subs"] if a["has_subs"] == b["has_subs"] else None
        return out

    def _exec(self, g, stmts, zp, env, st, exits):
        for s in stmts:
            if st is None:
                return None
            if isinstance(s, ast.Expr) and isinstance(s.value, ast.Constant):
                continue
            if isinstance(s, ast.AnnAssign) and s.value is None:
                continue
            if isinstance(s, ast.Assign) and len(s.targets) == 1 and isinstance(s.targets[0], ast.Name):
                pol = self.subs_test(s.value, zp, st)
                if pol is not None:
                    st["bools"][s.targets[0].id] = pol
                    continue
            if isinstance(s, ast.Return):
                if isinstance(s.value, ast.Call):
                    st = self._apply_call(g, s.value, zp, env, st)
                    if st is None:
                        return None
                exits.append(set(st["defs"][zp]))
                self.paths += 1
                return None
            if isinstance(s, ast.Raise):
                return None
            if isinstance(s, ast.If):
                fv = self.flag_value(s.test, env)
                if fv is not None:
                    st = self._exec(g, s.body if fv else s.orelse, zp, env, st, exits)
                    continue
                pol = self.subs_test(s.test, zp, st)
                if pol is not None:
                    if st["has_subs"] is not None:
                        truth = (st["has_subs"] == pol)
                        st = self._exec(g, s.body if truth else s.orelse, zp, env, st, exits)
                        continue
                    a0, b0 = self._copy(st), self._copy(st)
                    a0["has_subs"], b0["has_subs"] = pol, (not pol)
                    a = self._exec(g, s.body, zp, env, a0, exits)
                    b = self._exec(g, s.orelse, zp, env, b0, exits)
                    st = self._join(a, b)
                    continue
                it = self.ident_test(g, s.test, st)
                if it is not None:
                    var, member = it
                    ty = st["types"].get(var)
                    if ty is not None:
                        if ty == member:
                            st = self._copy(st)
                            st["tested"].add(var)       # the code itself established the type of this zone
                            st = self._exec(g, s.body, zp, env, st, exits)
                        else:
                            st = self._exec(g, s.orelse, zp, env, st, exits)
                        continue
                    if member == "<never>":
                        st = self._exec(g, s.orelse, zp, env, st, exits)
                        continue
                    a0, b0 = self._copy(st), self._copy(st)
                    a0["types"][var] = member
                    a = self._exec(g, s.body, zp, env, a0, exits)
                    b = self._exec(g, s.orelse, zp, env, b0, exits)
                    st = self._join(a, b)
                    continue
                mt = self.registry_test(g, s.test, st)
                if mt is not None:
                    var, kind, pol = mt
                    # `key in zone.targets`: on the true edge the record certainly exists; both edges are explored
                    a0, b0 = self._copy(st), self._copy(st)
                    (a0 if pol else b0)["defs"].setdefault(var, set()).add(kind)
                    a = self._exec(g, s.body, zp, env, a0, exits)
                    b = self._exec(g, s.orelse, zp, env, b0, exits)
                    st = self._join(a, b)
                    continue
                raise AnalysisError(f"{g.module.relpath}:{s.lineno}: handler branch condition not understood: {ast.unparse(s.test)}")
            if isinstance(s, ast.For) and isinstance(s.target, ast.Name) and _is_subzones_iter(s.iter, zp):
                if st["has_subs"] is False:
                    continue
                per_type: Dict[str, set] = {}
                for T in self.ztypes:
                    cst = self._copy(st)
                    v = s.target.id
                    cst["defs"][v] = set()
                    cst["types"][v] = T
                    cex: List[set] = []
                    out = self._exec_child(g, s.body, zp, v, env, cst)
                    if out is not None:
                        per_type[T] = out
                st["sub"] = per_type
                continue
            call = s.value if isinstance(s, (ast.Expr, ast.Assign)) and isinstance(s.value, ast.Call) else None
            if call is not None:
                st = self._apply_call(g, call, zp, env, st)
                continue
            raise AnalysisError(f"{g.module.relpath}:{s.lineno}: handler statement not understood: {norm_stmt(s)}")
        return st

    def _exec_child(self, g, stmts, zp, v, env, st) -> Optional[set]:
        """body of the loop over the sub-zones for a child of the type recorded in st; returns the registry entries certainly
        defined for the child, or None if this child type makes the body raise"""
        exits: List[set] = []
        out = self._exec(g, stmts, zp, env, st, exits)
        if out is None:
            return None
        return set(out["defs"].get(v, set()))

    def _apply_call(self, g, call: ast.Call, zp, env, st):
        targets = [t for t in self.r.resolve_call(g, call) if isinstance(t, FuncInfo)]
        arg0 = call.args[0] if call.args else None
        var = arg0.id if isinstance(arg0, ast.Name) and arg0.id in st["types"] else None
        if var is None or not targets:
            return st
        for t in targets:
            if t.module is self.module:
                ty = st["types"].get(var)
                if self.record and t in self.handler_set and ty is not None and ty in self.table_types_inv and var in st.get("tested", ()):
                    want = self.table_types_inv[ty]
                    site = f"{self._site_owner(g)}:handler for child type {ty}"
                    ok = want is t
                    prev = self.dispatch_sites.get(site, (True, None))
                    self.dispatch_sites[site] = (prev[0] and ok, (g, call, ty, t, want))
                res = self.eval_fn(t, env, st["types"].get(var))
                if res == RAISES:
                    return None
                st["defs"][var] |= res
                continue
            sm = self.reg.summary(t)
            for who, k, node in sm.requires:
                site = f"{self._site_owner(g)}:{t.name} requires {k}({'zone' if who == 'self' else 'every sub-zone'})"
                if who == "self":
                    ok = k in st["defs"][var]
                    self._req(site, ok, g, call, env, f"{t.name}(zone) reads the zone's own '{self._kval(k)}' record before it is computed")
                elif var == zp:
                    if st["has_subs"] is False:
                        continue
                    per_type = st["sub"]
                    if per_type is None:
                        self._req(site, False, g, call, env, f"{t.name}(zone) reads every sub-zone's '{self._kval(k)}' record but no loop over the sub-zones precedes it")
                        continue
                    for zt, defs in sorted(per_type.items()):
                        self._req(site + f" [child type {zt}]", k in defs, g, call, env,
                                  f"{t.name}(zone) reads the '{self._kval(k)}' record of every sub-zone, but a sub-zone of type {self._zval(zt)} gets none on this path")
            for k in sm.defines:
                st["defs"][var].add(k)
        return st

    def explore_all(self):
        table_types = {}
        main = self.module
        b = main.ns.get("_TARGET_HANDLERS")
        if b is not None and b.kind == "var" and isinstance(b.target[2], ast.Dict):
            for k, v in zip(b.target[2].keys, b.target[2].values):
                node = k.value if isinstance(k, ast.Attribute) and k.attr == "value" else k
                bb = self.p.resolve_attr_chain(main, node)
                vb = self.p.resolve_attr_chain(main, v)
                if bb is not None and bb.kind == "classattr" and vb is not None and vb.kind == "func":
                    table_types[vb.target] = bb.target[1]
                    self.handler_types.setdefault(vb.target, []).append(bb.target[1])
        self.table_types_inv = {ty: h for h, ty in table_types.items()}
        for combo in itertools.product([False, True], repeat=len(self.flags)):
            env = dict(zip(self.flags, combo))
            for rnd in range(4):
                self.memo = {}
                self._active = set()
                self.record = False
                for h in self.handler_set:
                    self.eval_fn(h, env, table_types.get(h))
                new_assume = dict(self.memo)
                if new_assume == self.assume_env.get(frozenset(env.items())):
                    break
                self.assume_env[frozenset(env.items())] = new_assume
                self.assume = new_assume
            # final recording pass with the stable assumptions
            self.memo = {}
            self._active = set()
            self.record = True
            for h in self.handler_set:
                self.eval_fn(h, env, table_types.get(h))

    def _site_owner(self, g: FuncInfo) -> str:
        """findings are keyed by the ROLE of the function (handler registered for zone type X), so that renaming or moving a handler keeps the key"""
        tys = self.handler_types.get(g)
        if tys:
            return f"{g.module.name}:handler[{'/'.join(sorted(tys))}]"
        return g.qualname

    assume_env: Dict[frozenset, dict] = {}
    _active: set = set()
    table_types_inv: Dict[str, FuncInfo] = {}
    dispatch_sites: Dict[str, tuple] = {}

    def _kval(self, k):
        v = self.reg.tt.class_attrs.get(k)
        return v.value if isinstance(v, ast.Constant) else k

    def _zval(self, z):
        v = self.reg.zt.class_attrs.get(z)
        return f"'{v.value}'" if isinstance(v, ast.Constant) else z

    def _req(self, site: str, ok: bool, h: FuncInfo, call: ast.Call, env, msg: str):
        if not self.record:
            return
        prev = self.requirement_sites.get(site, True)
        self.requirement_sites[site] = prev and ok
        if not ok:
            d = self.findings.setdefault(site, {"h": h, "call": call, "msg": msg, "envs": []})
            if dict(env) not in d["envs"]:
                d["envs"].append(dict(env))


def _is_has_subzones(test: ast.AST, zp: str) -> bool:
    return False


def check_order(ctx: CheckContext, p: Program, r: Resolver, rule: str = "ORDER"):
    ctx.rule(rule, "every read of a zone's target registry is preceded by its definition on every path through the zone-type handlers, with option flags "
                   "and child zone types as free conditions (requirements of the integration entry functions derived from their own bodies)")
    main = p.modules["OpenPinch.main"]
    tab = r.dispatch_table(main, "_TARGET_HANDLERS")
    if not tab:
        # locate any module-level dict of functions used by get_targets
        raise AnalysisError("handler table not found in OpenPinch.main (anchor vanished)")
    handlers = {f.name: f for f in tab}
    reg = Registry(p, r)
    ex = HandlerExplorer(p, r, reg, handlers, ctx, rule)
    ex.explore_all()
    ctx.info["handlers"] = sorted(handlers)
    ctx.info["option_flags_explored"] = ex.flags
    ctx.info["flag_assignments"] = 2 ** len(ex.flags)
    ctx.info["handler_paths_explored"] = ex.paths
    ctx.info["registry_summaries"] = {f.qualname.split(":")[1]: {"requires": sorted({f"{w}:{k}" for w, k, _ in sm.requires}), "defines": sm.defines}
                                      for f, sm in reg.summ.items() if sm.requires or sm.defines}
    for site, ok in sorted(ex.requirement_sites.items()):
        if ok:
            ctx.ob(rule, site, site.split(":")[0], True)
    for site, (ok, info) in sorted(ex.dispatch_sites.items()):
        g, call, ty, got, want = info
        ctx.ob(rule + "-DISPATCH", site, f"{g.module.relpath}:{call.lineno}", ok,
               "" if ok else f"a sub-zone of type {ex._zval(ty)} is handed to {got.name}(), but the handler registered for that type is {want.name}(): "
                             f"the analyses that only {want.name}() performs are skipped for it")
    for site, d in sorted(ex.findings.items()):
        envs = d["envs"]
        # minimal description of the flag assignments under which it fails
        always = {k for k in ex.flags if all(e[k] for e in envs)}
        never = {k for k in ex.flags if all(not e[k] for e in envs)}
        cond = ", ".join([f"{k}=True" for k in sorted(always)] + [f"{k}=False" for k in sorted(never)]) or "every option combination"
        ctx.ob(rule, site, f"{d['h'].module.relpath}:{d['call'].lineno}", False, d["msg"] + f"  [path condition: {cond}]",
               failing_flag_assignments=len(envs))
    return ex


# =========================================================================================
def check_config_attrs(ctx: CheckContext, p: Program, r: Resolver, funcs: List[FuncInfo], rule: str = "ATTR"):
    ctx.rule(rule, "every attribute read or written on an expression typed Configuration is declared in the class body or assigned in __init__")
    cfg = p.find_class("Configuration")
    if cfg is None:
        raise AnalysisError("Configuration class not found")
    declared = set(cfg.class_attrs) | set(cfg.methods)
    init = cfg.methods.get("__init__")
    if init is not None:
        for n in body_nodes(init):
            if isinstance(n, ast.Attribute) and isinstance(n.ctx, ast.Store) and isinstance(n.value, ast.Name) and n.value.id == "self":
                declared.add(n.attr)
    ctx.info["configuration_declared_attributes"] = len(declared)
    seen: Dict[Tuple[str, str], Tuple[bool, ast.AST, FuncInfo]] = {}
    module_as_config = []
    for f in funcs:
        if isinstance(f.node, ast.Lambda):
            continue
        for n in body_nodes(f):
            if isinstance(n, ast.Attribute) and not isinstance(n.ctx, ast.Del):
                t = r.type_of(f, n.value)
                if t is cfg:
                    k = (f.qualname, n.attr)
                    ok = n.attr in declared
                    if k not in seen:
                        seen[k] = (ok, n, f)
            if isinstance(n, ast.keyword) and n.arg and "config" in n.arg and isinstance(n.value, ast.Name):
                b = r.lookup(f, f.module, n.value.id)
                if b is not None and b.kind == "module":
                    module_as_config.append(f"{f.module.relpath}:{n.value.lineno} {n.arg}={n.value.id} is the module {b.target}")
    # a declared attribute: one obligation per (function, attribute) use.  An UNDECLARED attribute is one defect of the class, wherever it is read:
    # it is keyed by the attribute (so moving the reading code into a helper does not make it a "new" finding) and lists every site.
    undeclared: Dict[str, List[Tuple[ast.AST, FuncInfo]]] = {}
    for (q, attr), (ok, n, f) in sorted(seen.items()):
        if ok:
            ctx.ob(rule, f"{q}:{attr}", f"{f.module.relpath}:{n.lineno}", True, "")
        else:
            undeclared.setdefault(attr, []).append((n, f))
    for attr, sites in sorted(undeclared.items()):
        n, f = sites[0]
        where = ", ".join(f"{g.name} ({g.module.relpath}:{m.lineno})" for m, g in sites)
        ctx.ob(rule, f"Configuration.{attr}", f"{f.module.relpath}:{n.lineno}", False,
               f"Configuration has no attribute '{attr}' (only a commented-out default exists): AttributeError as soon as one of these paths runs: {where}")
    ctx.info["observation_module_passed_as_configuration"] = module_as_config
    return len(seen)


def check_handler_table(ctx: CheckContext, p: Program, r: Resolver, rule: str = "T4"):
    ctx.rule(rule, "the handler table has an entry, in the label form the lookup uses, for every root zone type preparation can produce; "
                   "comparisons of a zone identifier use the text form of the enumeration")
    main = p.modules["OpenPinch.main"]
    b = main.ns.get("_TARGET_HANDLERS")
    zt = p.find_class("ZoneType")
    if b is None or b.kind != "var" or not isinstance(b.target[2], ast.Dict) or zt is None:
        raise AnalysisError("handler table / ZoneType not found")
    d: ast.Dict = b.target[2]
    keys = {}
    for k in d.keys:
        m = None
        if k is not None:
            # resolve at module level
            node, form = (k.value, "text") if isinstance(k, ast.Attribute) and k.attr == "value" else (k, "member")
            bb = p.resolve_attr_chain(main, node)
            if bb is not None and bb.kind == "classattr" and bb.target[0] is zt:
                m = (form, bb.target[1])
        if m is None:
            raise AnalysisError(f"{main.relpath}:{k.lineno}: handler key not understood: {ast.unparse(k)}")
        keys[m[1]] = (m[0], k)
    # what form does the lookup use?  identifiers are produced by _get_validated_zone_info
    prep = p.modules.get("OpenPinch.analysis.data_preparation")
    info = prep.funcs.get("_get_validated_zone_info") if prep else None
    if info is None:
        raise AnalysisError("_get_validated_zone_info not found")
    produced: Dict[str, Set[str]] = {}
    for n in body_nodes(info):
        vals = []
        if isinstance(n, ast.Assign) and any(isinstance(t, ast.Name) and t.id == "zone_type" for t in n.targets):
            vals = [n.value]
        elif isinstance(n, ast.Dict):
            vals = list(n.values)
        for v in vals:
            m = _enum_member(r, info, v, zt)
            if m:
                produced.setdefault(m[1], set()).add(m[0])
    # types rejected up-front (raise guarded by a comparison with that type)
    rejected = set()
    for f in prep.funcs.values():
        for n in body_nodes(f):
            if isinstance(n, ast.If) and n.body and isinstance(n.body[0], ast.Raise) and isinstance(n.test, ast.Compare) and len(n.test.ops) == 1 \
                    and isinstance(n.test.ops[0], ast.Eq):
                m = _enum_member(r, f, n.test.comparators[0], zt)
                if m:
                    rejected.add(m[1])
    ctx.info["root_zone_types_produced"] = {k: sorted(v) for k, v in sorted(produced.items())}
    ctx.info["root_zone_types_rejected"] = sorted(rejected)
    for member, forms in sorted(produced.items()):
        if member in rejected:
            continue
        for form in sorted(forms):
            have = keys.get(member)
            ok = have is not None and have[0] == form
            ctx.ob(rule, f"handlers:{member}:{form}", f"{main.relpath}:{d.lineno}", ok,
                   "" if ok else (f"no handler for root zone type ZoneType.{member}" if have is None else
                                  f"handler for ZoneType.{member} is keyed by the enumeration {have[0]} but zone identifiers hold the {form}: "
                                  f"a root zone of that type finds no handler"))
    # identifier comparisons anywhere in the cone use the text form
    n_cmp = 0
    for f in p.all_funcs:
        if isinstance(f.node, ast.Lambda):
            continue
        for n in body_nodes(f):
            if isinstance(n, ast.Compare) and len(n.ops) == 1:
                sides = [n.left, n.comparators[0]]
                if any(isinstance(s, ast.Attribute) and s.attr == "identifier" for s in sides):
                    others = [s for s in sides if not (isinstance(s, ast.Attribute) and s.attr == "identifier")]
                    for o in others:
                        elts = o.elts if isinstance(o, (ast.List, ast.Tuple, ast.Set)) else [o]
                        for e in elts:
                            m = _enum_member(r, f, e, zt)
                            if m:
                                n_cmp += 1
                                ok = m[0] == "text"
                                ctx.ob(rule + "-FORM", f"{f.qualname}:{norm_stmt(n)}", f"{f.module.relpath}:{n.lineno}", ok,
                                       "" if ok else f"zone identifier (text) is compared with the enumeration member ZoneType.{m[1]}: never equal")
    return n_cmp


def check_division_guards(ctx: CheckContext, p: Program, r: Resolver, funcs: List[FuncInfo], rule: str = "DIV-GUARD"):
    """`(a / X) if X <cmp> 0 else c`: a guard that is meant to protect a division by X must exclude X == 0."""
    ctx.rule(rule, "a conditional whose guarded arm divides by X and whose test compares X with zero uses a strict comparison (X > 0, X != 0, X < 0): "
                   "a non-strict guard lets 0/0 = NaN into the result record")
    n = 0
    for f in funcs:
        if isinstance(f.node, ast.Lambda):
            continue
        for node in body_nodes(f):
            test = body = None
            if isinstance(node, ast.IfExp):
                test, body = node.test, [node.body]
            elif isinstance(node, ast.If):
                test, body = node.test, node.body
            if test is None or not (isinstance(test, ast.Compare) and len(test.ops) == 1):
                continue
            l, op, rr = test.left, test.ops[0], test.comparators[0]
            zero = lambda e: isinstance(e, ast.Constant) and isinstance(e.value, (int, float)) and not isinstance(e.value, bool) and e.value == 0
            if zero(rr):
                x = l
            elif zero(l):
                x = rr
            else:
                continue
            xt = ast.unparse(x)
            divides = False
            for b in body:
                for d in ast.walk(b):
                    if isinstance(d, ast.BinOp) and isinstance(d.op, (ast.Div, ast.FloorDiv, ast.Mod)) and ast.unparse(d.right).strip("()") == xt.strip("()"):
                        divides = True
            if not divides:
                continue
            n += 1
            ok = isinstance(op, (ast.Gt, ast.Lt, ast.NotEq))
            ctx.ob(rule, f"{f.qualname}:{norm_stmt(test)}", f"{f.module.relpath}:{test.lineno}", ok,
                   "" if ok else f"`{ast.unparse(test)}` guards a division by `{xt}` but admits {xt} == 0: the result is NaN/inf (0/0) instead of the fallback value")
    return n


def check_record_divisions(ctx: CheckContext, p: Program, r: Resolver, funcs: List[FuncInfo], rule: str = "DIV-GUARD"):
    """In a function that builds a target record (a dict literal with three or more *_target keys) every division by a non-constant
    stands in the arm of a conditional that compares that denominator with zero.  A try/except ZeroDivisionError is not such a guard:
    the operands come out of problem tables (numpy scalars), whose division by zero yields inf/nan with a warning, not an exception."""
    n = 0
    for f in funcs:
        if isinstance(f.node, ast.Lambda):
            continue
        nodes = body_nodes(f)
        builds = any(isinstance(x, ast.Dict) and sum(1 for k in x.keys if isinstance(k, ast.Constant) and isinstance(k.value, str) and k.value.endswith("_target")) >= 3
                     for x in nodes)
        if not builds:
            continue
        parent = {}
        for x in ast.walk(f.node):
            for ch in ast.iter_child_nodes(x):
                parent[id(ch)] = x
        for d in nodes:
            if not (isinstance(d, ast.BinOp) and isinstance(d.op, (ast.Div, ast.FloorDiv)) and not isinstance(d.right, ast.Constant)):
                continue
            den = ast.unparse(d.right).strip("()")
            guarded = False
            cur = d
            while id(cur) in parent and not guarded:
                par = parent[id(cur)]
                if isinstance(par, (ast.IfExp, ast.If)) and cur is not par.test:
                    for c in ast.walk(par.test):
                        if isinstance(c, ast.Compare) and len(c.ops) == 1:
                            sides = [ast.unparse(c.left).strip("()"), ast.unparse(c.comparators[0]).strip("()")]
                            if den in sides and any(isinstance(z, ast.Constant) and z.value == 0 for z in (c.left, c.comparators[0])):
                                guarded = True
                cur = par
            n += 1
            in_try = False
            cur = d
            while id(cur) in parent:
                cur = parent[id(cur)]
                if isinstance(cur, ast.Try):
                    in_try = True
            ctx.ob(rule, f"{f.qualname}:record-division:{den[:60]}", f"{f.module.relpath}:{d.lineno}", guarded,
                   "" if guarded else f"{f.name} divides by `{den[:80]}` while building a target record and no conditional compares that denominator with zero"
                                      + (" (the surrounding try/except ZeroDivisionError never fires for numpy scalars: the record gets inf/nan)" if in_try else
                                         ": a zone without recoverable heat puts inf/nan into the record"))
    return n


def check_subzone_loops(ctx: CheckContext, p: Program, r: Resolver, rule: str = "LOOPVAR"):
    """Inside a loop over a zone's sub-zones in the handlers' module, every call that targets a zone (a handler, a helper of the module
    or an integration entry function) is applied to the loop variable, not to the enclosing zone."""
    ctx.rule(rule, "in a loop over zone.subzones.values() every targeting call takes the sub-zone (the loop variable) as its zone argument: "
                   "re-targeting the parent once per child leaves the children without records")
    main = p.modules["OpenPinch.main"]
    reg = Registry(p, r)
    n = 0
    for f in [x for x in p.all_funcs if x.module is main and not isinstance(x.node, ast.Lambda)]:
        zp = reg.zone_param(f)
        if zp is None:
            continue
        for loop in [x for x in body_nodes(f) if isinstance(x, ast.For) and isinstance(x.target, ast.Name) and _is_subzones_iter(x.iter, zp)]:
            v = loop.target.id
            for c in [x for x in ast.walk(loop) if isinstance(x, ast.Call)]:
                tg = [t for t in r.resolve_call(f, c) if isinstance(t, FuncInfo) and reg.zone_param(t) is not None]
                if not tg or not c.args or not isinstance(c.args[0], ast.Name):
                    continue
                n += 1
                ok = c.args[0].id == v
                ctx.ob(rule, f"{f.qualname}:{norm_stmt(c)}", f"{f.module.relpath}:{c.lineno}", ok,
                       "" if ok else f"inside the loop over the sub-zones `{v}`, {tg[0].name}() is applied to '{c.args[0].id}' instead of the sub-zone")
    return n

"""Shared helpers for the per-property drivers."""
from __future__ import annotations

from typing import Callable, Optional

from ..core.model import AnalysisError, Program, mutated_source
import os

from ..core.report import VERIF, CheckContext


def run_control(ctx: CheckContext, name: str, analyse: Callable, root: str, relpath: str, old: str, new: str,
                expect_rule: str, count: int = 1, expect_fire: bool = True):
    """Built-in control: the CURRENT tree with one instance broken in memory (or, for
    expect_fire=False, a behaviour-neutral rewrite).  The rule must (not) report a new violation
    compared with the unmodified tree.  When the anchor text is absent from the current tree the
    control is skipped and recorded as such."""
    ov = mutated_source(root, relpath, old, new, count)
    where = "current tree"
    base_bad = {(o.rule, o.key) for o in ctx.obligations if not o.ok}
    if ov is None:
        # the anchor text has drifted: exercise the rule on the frozen reference tree instead, so the control never vanishes
        ref = os.path.join(VERIF, "fixtures", "reference")
        ov = mutated_source(ref, relpath, old, new, count) if os.path.isdir(ref) else None
        if ov is None:
            ctx.control(name, "fires" if expect_fire else "silent", "skipped", skipped=True, note="anchor text present neither in the current nor in the reference tree")
            return
        root, where = ref, "reference tree (anchor text not present in current tree)"
        base = CheckContext(ctx.prop, ctx.tier)
        try:
            analyse(base, Program(ref))
        except AnalysisError:
            pass
        base_bad = {(o.rule, o.key) for o in base.obligations if not o.ok}
    sub = CheckContext(ctx.prop, ctx.tier)
    try:
        analyse(sub, Program(root, overrides=ov))
        new_bad = [o for o in sub.obligations if not o.ok and (o.rule, o.key) not in base_bad and o.rule.startswith(expect_rule)]
        got = "fires" if new_bad else "silent"
        note = "; ".join(f"{o.rule} {o.key}" for o in new_bad[:3])
    except AnalysisError as e:
        got = "analysis-error"
        note = str(e)
    ctx.control(name, "fires" if expect_fire else "silent", got, note=(note + " | " if note else "") + "on " + where)

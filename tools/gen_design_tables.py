#!/venv/bin/python
"""Regenerate the seeded-change table of DESIGN.md (between the SEEDED-TABLE markers) from seeded/RESULTS.json."""
import json, os, re
V = os.path.dirname(os.path.dirname(os.path.abspath(__file__)))
res = json.load(open(os.path.join(V, "seeded", "RESULTS.json")))
seeds = {k: v for k, v in res.items() if not k.startswith("hist-")}
hist = {k: v for k, v in res.items() if k.startswith("hist-")}
caught = {k: v for k, v in seeds.items() if v["caught_by"]}
missed = sorted(k for k in seeds if k not in caught)
waves = {"1": [], "2 (b)": [], "3 (c)": [], "4 (d)": [], "5 (e)": [], "6 (f)": [], "7 (g)": []}
for k in seeds:
    w = {"b": "2 (b)", "c": "3 (c)", "d": "4 (d)", "e": "5 (e)", "f": "6 (f)", "g": "7 (g)"}.get(k[3:4], "1") if not k[3:4].isdigit() and k[3:4] != "-" else "1"
    waves[w].append(k)
lines = []
lines.append(f"  {len(caught)} of {len(seeds)} seeded changes and {sum(1 for v in hist.values() if v['caught_by'])} of {len(hist)} reversed `fix:` commits are reported "
             f"(exit 1 with a VIOLATION line naming the construct).  Per wave: "
             + "; ".join(f"wave {w}: {sum(1 for k in ks if k in caught)}/{len(ks)}" for w, ks in waves.items() if ks) + ".")
lines.append("")
lines.append("  | change | reported by |")
lines.append("  |---|---|")
for k, v in sorted(caught.items()):
    lines.append(f"  | {k} | {', '.join(v['caught_by'])} |")
lines.append("")
lines.append(f"  Not reported ({len(missed)}): {', '.join(missed)}.  Each is listed with its reason in `seeded/NOT_CAUGHT.json` and `seeded/RESULTS.md`.")
block = "\n".join(lines)
p = os.path.join(V, "DESIGN.md")
s = open(p).read()
s2 = re.sub(r"(<!-- SEEDED-TABLE-BEGIN -->\n).*?(\n?<!-- SEEDED-TABLE-END -->)", lambda m: m.group(1) + block + "\n<!-- SEEDED-TABLE-END -->", s, flags=re.S)
open(p, "w").write(s2)
print(len(caught), len(seeds), len(missed))

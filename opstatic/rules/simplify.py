"""C17 rules: installed-numpy contract for cross products on 2-vectors (API-CROSS), end points survive
simplification (MASK), boolean orientation flags are threaded to the callee that needs them (FLAG)."""
from __future__ import annotations

import ast
import importlib
from typing import Dict, List, Optional, Set, Tuple

from ..core.model import AnalysisError, FuncInfo, Program
from ..core.report import CheckContext, norm_stmt
from ..core.resolve import Resolver, body_nodes


def numpy_cross_rejects_2vectors() -> Tuple[bool, str]:
    """Fact about the INSTALLED numpy (the repository is not involved)."""
    np = importlib.import_module("numpy")
    import warnings
    try:
        with warnings.catch_warnings():
            warnings.simplefilter("error")
            np.cross(np.array([1.0, 0.0]), np.array([0.0, 1.0]))
        return False, np.__version__
    except Exception:
        return True, np.__version__


def _row_width_facts(p: Program, r: Resolver) -> Dict[Tuple[FuncInfo, str], int]:
    """(function, variable) -> number of columns, from sure sources: list.append([a, b]) -> np.array(list); x.reshape(-1, k); np.vstack of such;
    propagated to callee parameters through resolved calls."""
    width: Dict[Tuple[FuncInfo, str], int] = {}
    funcs = [f for f in p.all_funcs if not isinstance(f.node, ast.Lambda)]

    def expr_width(f: FuncInfo, e: ast.AST) -> Optional[int]:
        if isinstance(e, ast.Name):
            return width.get((f, e.id))
        if isinstance(e, ast.Call):
            fn = e.func
            if isinstance(fn, ast.Attribute) and fn.attr == "reshape" and len(e.args) == 2 and isinstance(e.args[1], ast.Constant) and isinstance(e.args[1].value, int):
                return e.args[1].value
            if isinstance(fn, ast.Attribute) and fn.attr in ("array", "asarray", "flipud", "copy", "vstack") and e.args:
                a0 = e.args[0]
                if isinstance(a0, (ast.List, ast.Tuple)) and a0.elts:
                    ws = []
                    for el in a0.elts:
                        if isinstance(el, (ast.List, ast.Tuple)) and not any(isinstance(x, (ast.List, ast.Tuple)) for x in el.elts):
                            ws.append(len(el.elts))
                        elif isinstance(el, ast.IfExp) and isinstance(el.body, (ast.List, ast.Tuple)) and isinstance(el.orelse, (ast.List, ast.Tuple)) \
                                and len(el.body.elts) == len(el.orelse.elts):
                            ws.append(len(el.body.elts))
                        else:
                            w = expr_width(f, el)
                            if w is not None:
                                ws.append(w)
                    if ws and all(w == ws[0] for w in ws):
                        return ws[0]
                return expr_width(f, a0)
            if isinstance(fn, ast.Name) and fn.id in ("list",) and e.args:
                return expr_width(f, e.args[0])
        if isinstance(e, ast.Subscript) and isinstance(e.slice, ast.Name):
            return expr_width(f, e.value)      # boolean-mask / fancy row selection keeps the width
        return None

    for _ in range(6):
        changed = False
        for f in funcs:
            for n in body_nodes(f):
                # L.append([a, b])
                if isinstance(n, ast.Call) and isinstance(n.func, ast.Attribute) and n.func.attr == "append" and isinstance(n.func.value, ast.Name) \
                        and n.args and isinstance(n.args[0], (ast.List, ast.Tuple)):
                    k = (f, n.func.value.id)
                    w = len(n.args[0].elts)
                    if width.get(k) != w:
                        width[k] = w
                        changed = True
                if isinstance(n, ast.Assign) and len(n.targets) == 1 and isinstance(n.targets[0], ast.Name):
                    w = expr_width(f, n.value)
                    if w is not None and width.get((f, n.targets[0].id)) != w:
                        width[(f, n.targets[0].id)] = w
                        changed = True
                if isinstance(n, ast.Call):
                    for t in r.resolve_call(f, n):
                        if isinstance(t, FuncInfo):
                            pos = t.pos_params
                            off = 1 if (isinstance(n.func, ast.Attribute) and t.cls is not None and t.parent is None and not t.is_static) else 0
                            pairs = [(pos[i + off], a) for i, a in enumerate(n.args) if i + off < len(pos)] + [(k.arg, k.value) for k in n.keywords if k.arg]
                            for pn, a in pairs:
                                w = expr_width(f, a)
                                if w is not None and width.get((t, pn)) != w:
                                    width[(t, pn)] = w
                                    changed = True
        if not changed:
            break
    return width


def check_cross_contract(ctx: CheckContext, p: Program, r: Resolver, rule: str = "API-CROSS"):
    rejects, ver = numpy_cross_rejects_2vectors()
    ctx.rule(rule, f"installed numpy {ver} {'rejects' if rejects else 'accepts'} np.cross on 2-vectors; no call passes operands that are provably rows of a 2-column array")
    ctx.info["numpy_version"] = ver
    ctx.info["numpy_cross_rejects_2_vectors"] = rejects
    width = _row_width_facts(p, r)
    n = 0
    for f in p.all_funcs:
        if isinstance(f.node, ast.Lambda):
            continue
        for c in body_nodes(f):
            if isinstance(c, ast.Call) and any(t == "ext:numpy.cross" for t in r.resolve_call(f, c) if isinstance(t, str)):
                n += 1
                ws = []
                for a in c.args[:2]:
                    w = None
                    # operand is (a variable assigned from) X[i] - X[j] / X[i]
                    e = a
                    if isinstance(e, ast.Name):
                        for st in body_nodes(f):
                            if isinstance(st, ast.Assign) and any(isinstance(t, ast.Name) and t.id == e.id for t in st.targets):
                                e = st.value
                                break
                    for sub in ast.walk(e):
                        if isinstance(sub, ast.Subscript) and isinstance(sub.value, ast.Name) and not isinstance(sub.slice, (ast.Slice, ast.Tuple)):
                            w = width.get((f, sub.value.id))
                            if w is not None:
                                break
                    ws.append(w)
                bad = rejects and all(w == 2 for w in ws) and len(ws) == 2
                ctx.ob(rule, f"{f.qualname}:{norm_stmt(c)}", f"{f.module.relpath}:{c.lineno}", not bad,
                       "" if not bad else f"np.cross is applied to rows of a 2-column array (operand widths {ws}); numpy {ver} raises ValueError for every such call")
    ctx.info["np_cross_call_sites"] = n
    return n


def check_keep_mask(ctx: CheckContext, p: Program, r: Resolver, rule: str = "MASK"):
    """In the split-and-keep simplifier: the keep-mask starts all-true; every store into it clears an open interior slice
    [a+1 : b] of a pair (a, b) popped from the work stack; the stack holds [0, n-1] and splits of popped pairs; the result
    is the input indexed by the mask (order preserved)."""
    ctx.rule(rule, "keep-mask starts all-true, is only cleared on the open interior [start+1 : end] of a popped pair, pairs are [0, n-1] or splits "
                   "[start, i], [i, end] with start < i < end, and the result is input[mask]: both end points survive and order is preserved for every input")
    m = p.modules.get("OpenPinch.utils.stream_linearisation")
    if m is None:
        raise AnalysisError("stream_linearisation module not found")
    found = 0
    for f in m.funcs.values():
        mask = None
        for n in body_nodes(f):
            if isinstance(n, ast.Assign) and len(n.targets) == 1 and isinstance(n.targets[0], ast.Name) and isinstance(n.value, ast.Call) \
                    and isinstance(n.value.func, ast.Attribute) and n.value.func.attr in ("ones", "full", "zeros", "ones_like") \
                    and any(k.arg == "dtype" and ast.unparse(k.value) == "bool" for k in n.value.keywords):
                mask = (n.targets[0].id, n)
        if mask is None:
            continue
        mname, minit = mask
        found += 1
        ok_init = minit.value.func.attr in ("ones", "ones_like")
        ctx.ob(rule, f"{f.qualname}:init", f"{m.relpath}:{minit.lineno}", ok_init, "" if ok_init else "keep-mask does not start all-true")
        # the curve parameter and n = len(curve)
        curve = f.pos_params[0]
        nvar = None
        for n in body_nodes(f):
            if isinstance(n, ast.Assign) and isinstance(n.value, ast.Call) and isinstance(n.value.func, ast.Name) and n.value.func.id == "len" \
                    and n.value.args and isinstance(n.value.args[0], ast.Name) and n.value.args[0].id == curve:
                nvar = n.targets[0].id
        # stack and pops
        stackv = None
        for n in body_nodes(f):
            if isinstance(n, ast.Assign) and isinstance(n.value, ast.List) and len(n.value.elts) == 1 and isinstance(n.value.elts[0], (ast.List, ast.Tuple)) \
                    and len(n.value.elts[0].elts) == 2 and isinstance(n.targets[0], ast.Name):
                a, b = n.value.elts[0].elts
                ok0 = isinstance(a, ast.Constant) and a.value == 0 and ast.unparse(b).replace(" ", "") == f"{nvar}-1"
                stackv = n.targets[0].id
                ctx.ob(rule, f"{f.qualname}:seed", f"{m.relpath}:{n.lineno}", ok0, "" if ok0 else f"work stack is not seeded with [0, {nvar} - 1]")
        pair = None
        for n in body_nodes(f):
            if isinstance(n, ast.Assign) and isinstance(n.targets[0], ast.Tuple) and len(n.targets[0].elts) == 2 and isinstance(n.value, ast.Call) \
                    and isinstance(n.value.func, ast.Attribute) and n.value.func.attr == "pop" and isinstance(n.value.func.value, ast.Name) and n.value.func.value.id == stackv:
                pair = tuple(e.id for e in n.targets[0].elts if isinstance(e, ast.Name))
        if stackv is None or pair is None or len(pair) != 2:
            raise AnalysisError(f"{f.loc}: work stack / popped pair not recognised in the simplifier")
        s0, s1 = pair
        # pushes
        for n in body_nodes(f):
            if isinstance(n, ast.Call) and isinstance(n.func, ast.Attribute) and n.func.attr == "append" and isinstance(n.func.value, ast.Name) and n.func.value.id == stackv:
                el = n.args[0]
                okp = isinstance(el, (ast.List, ast.Tuple)) and len(el.elts) == 2 and all(isinstance(x, ast.Name) for x in el.elts) \
                    and (el.elts[0].id == s0 or el.elts[1].id == s1) and {el.elts[0].id, el.elts[1].id} != {s0, s1}
                ctx.ob(rule, f"{f.qualname}:push {norm_stmt(n)}", f"{m.relpath}:{n.lineno}", bool(okp),
                       "" if okp else f"pushed pair {ast.unparse(el)} is not a split [{s0}, i] / [i, {s1}] of the popped pair")
        # the split index comes from range(start + 1, end)
        for n in body_nodes(f):
            if isinstance(n, ast.For) and isinstance(n.iter, ast.Call) and isinstance(n.iter.func, ast.Name) and n.iter.func.id == "range" and len(n.iter.args) == 2:
                a, b = n.iter.args
                okr = ast.unparse(a).replace(" ", "") == f"{s0}+1" and ast.unparse(b).replace(" ", "") == s1
                ctx.ob(rule, f"{f.qualname}:interior-range", f"{m.relpath}:{n.lineno}", okr,
                       "" if okr else f"candidate split points range over {ast.unparse(n.iter)} instead of the open interior ({s0}+1 .. {s1}-1)")
        # stores into the mask
        stores = 0
        for n in body_nodes(f):
            if isinstance(n, (ast.Assign, ast.AugAssign)):
                tgs = n.targets if isinstance(n, ast.Assign) else [n.target]
                for t in tgs:
                    if isinstance(t, ast.Subscript) and isinstance(t.value, ast.Name) and t.value.id == mname:
                        stores += 1
                        sl = t.slice
                        oks = isinstance(sl, ast.Slice) and sl.step is None and sl.lower is not None and sl.upper is not None \
                            and ast.unparse(sl.lower).replace(" ", "") == f"{s0}+1" and ast.unparse(sl.upper).replace(" ", "") == s1
                        ctx.ob(rule, f"{f.qualname}:clear {norm_stmt(n)}", f"{m.relpath}:{n.lineno}", oks,
                               "" if oks else f"the keep-mask is cleared on {ast.unparse(t)}, which is not the open interior [{s0}+1 : {s1}]: an end point of the segment can be dropped")
        # result
        for n in body_nodes(f):
            if isinstance(n, ast.Return) and n.value is not None:
                okr = isinstance(n.value, ast.Subscript) and isinstance(n.value.value, ast.Name) and n.value.value.id == curve \
                    and isinstance(n.value.slice, ast.Name) and n.value.slice.id == mname
                ctx.ob(rule, f"{f.qualname}:result", f"{m.relpath}:{n.lineno}", okr, "" if okr else f"the simplifier does not return {curve}[{mname}] (order / membership of kept points not guaranteed)")
    if not found:
        raise AnalysisError("no boolean keep-mask simplifier found in stream_linearisation (anchor vanished)")
    return found


def check_flag_threading(ctx: CheckContext, p: Program, r: Resolver, modules: List[str], rule: str = "FLAG"):
    """Every boolean parameter of a function in the given modules is used in its body (a flag that stops being
    forwarded makes the callee fall back to its default orientation)."""
    ctx.rule(rule, "every boolean parameter (annotated bool or defaulting to True/False) of the curve-simplification functions is read in the function body: "
                   "an orientation flag that is accepted but not forwarded silently selects the callee's default")
    n = 0
    for mn in modules:
        m = p.modules.get(mn)
        if m is None:
            raise AnalysisError(f"module {mn} not found")
        for f in [x for x in p.all_funcs if x.module is m and not isinstance(x.node, ast.Lambda)]:
            for a in f.params:
                d = f.default_of(a.arg)
                is_bool = (isinstance(a.annotation, ast.Name) and a.annotation.id == "bool") or (isinstance(d, ast.Constant) and isinstance(d.value, bool))
                if not is_bool:
                    continue
                n += 1
                used = any(isinstance(x, ast.Name) and x.id == a.arg and isinstance(x.ctx, ast.Load) for x in ast.walk(f.node))
                ctx.ob(rule, f"{f.qualname}:{a.arg}", f"{m.relpath}:{f.node.lineno}", used,
                       "" if used else f"boolean parameter '{a.arg}' of {f.name} is never read: callers' choice is ignored and the callee's default applies")
    return n

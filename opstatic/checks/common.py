"""Shared helpers for the per-property drivers."""
from __future__ import annotations

from typing import Callable, Optional

from ..core.model import AnalysisError, Program, mutated_source
from ..core.report import CheckContext


def run_control(ctx: CheckContext, name: str, analyse: Callable, root: str, relpath: str, old: str, new: str,
                expect_rule: str, count: int = 1, expect_fire: bool = True):
    """Built-in control: the CURRENT tree with one instance broken in memory (or, for
    expect_fire=False, a behaviour-neutral rewrite).  The rule must (not) report a new violation
    compared with the unmodified tree.  When the anchor text is absent from the current tree the
    control is skipped and recorded as such."""
    ov = mutated_source(root, relpath, old, new, count)
    if ov is None:
        ctx.control(name, "fires" if expect_fire else "silent", "skipped", skipped=True, note="anchor text not present in current tree")
        return
    sub = CheckContext(ctx.prop, ctx.tier)
    try:
        analyse(sub, Program(root, overrides=ov))
        base_bad = {(o.rule, o.key) for o in ctx.obligations if not o.ok}
        new_bad = [o for o in sub.obligations if not o.ok and (o.rule, o.key) not in base_bad and o.rule.startswith(expect_rule)]
        got = "fires" if new_bad else "silent"
        note = "; ".join(f"{o.rule} {o.key}" for o in new_bad[:3])
    except AnalysisError as e:
        got = "analysis-error"
        note = str(e)
    ctx.control(name, "fires" if expect_fire else "silent", got, note=note)

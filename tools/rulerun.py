#!/venv/bin/python
"""Development aid: run ONE rule function over every seeded change and every refactor twin (scratch copies; /repo untouched).

usage: tools/rulerun.py opstatic.rules.siderole:check_side_roles [--all-funcs] [ids...]
The rule is called as rule(ctx, p, r, funcs) when --all-funcs is given, else rule(ctx, p, r)."""
import concurrent.futures as cf, glob, importlib, os, shutil, subprocess, sys, tempfile

VERIF = os.path.dirname(os.path.dirname(os.path.abspath(__file__)))
sys.path.insert(0, VERIF)


def run(args):
    sid, patch, spec, allf = args
    from opstatic.core.model import Program, AnalysisError
    from opstatic.core.resolve import Resolver
    from opstatic.core.report import CheckContext
    root = tempfile.mkdtemp(prefix=f"rulerun_{sid}_", dir="/tmp")
    try:
        shutil.copytree("/repo/OpenPinch", os.path.join(root, "OpenPinch"), ignore=shutil.ignore_patterns("__pycache__"))
        if patch:
            q = subprocess.run(["git", "apply", "--unsafe-paths", f"--directory={root}", patch], cwd=root, capture_output=True, text=True)
            if q.returncode != 0:
                return sid, "patch-failed", []
        mod, fn = spec.split(":")
        rule = getattr(importlib.import_module(mod), fn)
        p = Program(root)
        r = Resolver(p)
        ctx = CheckContext("C00", "quick")
        try:
            rule(ctx, p, r, p.all_funcs) if allf else rule(ctx, p, r)
        except AnalysisError as e:
            return sid, "analysis-error", [str(e)]
        bad = [f"{o.loc} {o.key} :: {o.message[:160]}" for o in ctx.obligations if not o.ok]
        return sid, f"{len(ctx.obligations)} obligations", bad
    finally:
        shutil.rmtree(root, ignore_errors=True)


def main():
    spec = sys.argv[1]
    rest = sys.argv[2:]
    allf = "--all-funcs" in rest
    only = {a for a in rest if not a.startswith("--")}
    jobs = [("clean", None, spec, allf)]
    for d in sorted(glob.glob(os.path.join(VERIF, "seeded", "*", "patch.diff"))) + sorted(glob.glob(os.path.join(VERIF, "seeded", "twins", "*", "patch.diff"))):
        jobs.append((os.path.basename(os.path.dirname(d)), d, spec, allf))
    for d in sorted(glob.glob(os.path.join(VERIF, "seeded", "historical", "*.diff"))):
        jobs.append(("hist-" + os.path.basename(d)[7:-5], d, spec, allf))
    if only:
        jobs = [j for j in jobs if j[0] in only or j[0] == "clean"]
    with cf.ProcessPoolExecutor(max_workers=16) as ex:
        for sid, st, bad in ex.map(run, jobs):
            twin = "t-" in sid or "u-" in sid
            if bad or st in ("analysis-error", "patch-failed") or sid == "clean":
                print(f"{sid:10s} {'TWIN ' if twin else ''}{st} {'FIRES' if bad and st.endswith('obligations') else ''}")
                for b in bad[:4]:
                    print("      ", b)


if __name__ == "__main__":
    main()

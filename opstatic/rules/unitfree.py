"""OFFSET-FREE - the extractor shared by absolute temperatures and temperature DIFFERENCES applies no offset.

Every stream / utility record carries absolute temperatures (t_supply, t_target) and one temperature difference (dt_cont,
the minimum-approach contribution by which the bounds are shifted).  The input layer turns all of them into numbers through
one extractor function.  A unit conversion with an additive offset (K -> degC: minus 273.15, degF -> degC: minus 32) is right
for an absolute temperature and WRONG for a difference: a contribution of "10 K" would become -263.15 and every shifted
temperature, pinch and target moves by hundreds of degrees.  So as long as one function serves both kinds of field with
the same arguments, nothing in its cone (the function, the package helpers it calls, the module-level tables and lambdas
they reference) may add or subtract a non-zero constant to the extracted value.

Decided: the structural condition above.  Not decided: multiplicative conversions, which are right for both kinds.
Undecided (abstains): the difference call sites pass something the absolute call sites do not (a flag that could switch
the offset off), or the extractor cannot be resolved.
"""
from __future__ import annotations

import ast
from typing import Dict, List, Optional, Set, Tuple

from ..core.model import FuncInfo, Program
from ..core.report import CheckContext
from ..core.resolve import Resolver, body_nodes

DIFF_FIELDS = {"dt_cont"}
ABS_FIELDS = {"t_supply", "t_target"}


def _bound_name(parent: ast.AST, call: ast.Call) -> Optional[str]:
    """name of the field / local / keyword the call's value is bound to"""
    if isinstance(parent, ast.keyword) and parent.value is call:
        return parent.arg
    if isinstance(parent, (ast.Assign, ast.AnnAssign)) and parent.value is call:
        tg = parent.targets if isinstance(parent, ast.Assign) else [parent.target]
        for t in tg:
            if isinstance(t, ast.Name):
                return t.id
            if isinstance(t, ast.Attribute):
                return t.attr
    return None


def _arg_field(call: ast.Call) -> Optional[str]:
    if call.args and isinstance(call.args[0], ast.Attribute):
        return call.args[0].attr
    if call.args and isinstance(call.args[0], ast.Subscript) and isinstance(call.args[0].slice, ast.Constant) and isinstance(call.args[0].slice.value, str):
        return call.args[0].slice.value
    return None


def _numeric(r: Resolver, f: Optional[FuncInfo], m, e: ast.AST) -> Optional[float]:
    if isinstance(e, ast.Constant) and isinstance(e.value, (int, float)) and not isinstance(e.value, bool):
        return float(e.value)
    if isinstance(e, ast.UnaryOp) and isinstance(e.op, (ast.USub, ast.UAdd)):
        v = _numeric(r, f, m, e.operand)
        return None if v is None else (-v if isinstance(e.op, ast.USub) else v)
    if isinstance(e, (ast.Name, ast.Attribute)):
        b = r.resolve_static(f, m, e)
        b = r.p.deref_var(b) if b is not None else None
        if b is not None and b.kind == "var" and b.target[2] is not None:
            return _numeric(r, None, r.p.modules.get(b.target[0], m), b.target[2])
    return None


def _cone(r: Resolver, f: FuncInfo) -> List[Tuple[Optional[FuncInfo], object, ast.AST]]:
    """(function or None, module, root node) for f, the package functions it (transitively) calls, and the module-level values they name"""
    out, seen_f, seen_v, stack = [], set(), set(), [f]
    while stack:
        g = stack.pop()
        if g in seen_f or isinstance(g.node, ast.Lambda) and False:
            continue
        seen_f.add(g)
        out.append((g, g.module, g.node))
        for call, tgs in r.calls_of(g):
            for t in tgs:
                if isinstance(t, FuncInfo) and t not in seen_f and len(seen_f) < 40:
                    stack.append(t)
        for n in body_nodes(g):
            if isinstance(n, ast.Name) and isinstance(n.ctx, ast.Load):
                b = r.lookup(g, g.module, n.id)
                b = r.p.deref_var(b) if b is not None else None
                if b is not None and b.kind == "var" and b.target[2] is not None and (b.target[0], b.target[1]) not in seen_v:
                    seen_v.add((b.target[0], b.target[1]))
                    vm = r.p.modules.get(b.target[0], g.module)
                    if isinstance(b.target[2], (ast.Dict, ast.Tuple, ast.List, ast.Lambda, ast.Call)):
                        out.append((None, vm, b.target[2]))
                        for x in ast.walk(b.target[2]):
                            if isinstance(x, (ast.Name, ast.Attribute)):
                                fb = r.resolve_static(None, vm, x)
                                if fb is not None and fb.kind == "func" and fb.target not in seen_f:
                                    stack.append(fb.target)
    return out


def check_offset_free(ctx: CheckContext, p: Program, r: Resolver, rule: str = "OFFSET-FREE") -> int:
    ctx.rule(rule, "the value extractor applied both to absolute temperatures (t_supply, t_target) and to the temperature difference dt_cont adds or subtracts "
                   "no non-zero constant anywhere in its cone: an offset unit conversion would be wrong for the difference")
    diff_sites: Dict[FuncInfo, List[Tuple[FuncInfo, ast.Call]]] = {}
    abs_sites: Dict[FuncInfo, List[Tuple[FuncInfo, ast.Call]]] = {}
    for f in p.all_funcs:
        if isinstance(f.node, ast.Lambda):
            continue
        parent = {}
        for x in ast.walk(f.node):
            for ch in ast.iter_child_nodes(x):
                parent[id(ch)] = x
        for call, tgs in r.calls_of(f):
            fld = _arg_field(call)
            if fld is None or len(call.args) < 1:
                continue
            fs = [t for t in tgs if isinstance(t, FuncInfo) and not isinstance(t.node, ast.Lambda)]
            if len(fs) != 1:
                continue
            bound = _bound_name(parent.get(id(call)), call)
            if fld in DIFF_FIELDS and (bound in DIFF_FIELDS or bound is None):
                diff_sites.setdefault(fs[0], []).append((f, call))
            elif fld in ABS_FIELDS:
                abs_sites.setdefault(fs[0], []).append((f, call))
    shared = [g for g in diff_sites if g in abs_sites]
    if not shared:
        ctx.abstain(rule, "no extractor shared by dt_cont and the absolute temperatures was found")
        return 0
    n = 0
    for g in shared:
        shape = lambda c: (len(c.args), tuple(sorted(k.arg or "**" for k in c.keywords)))
        if {shape(c) for _, c in diff_sites[g]} != {shape(c) for _, c in abs_sites[g]} or any(len(c.args) + len(c.keywords) > 1 for _, c in diff_sites[g]):
            ctx.abstain(rule, f"{g.name}: the dt_cont call sites pass other arguments than the absolute-temperature call sites (a switch for differences?)")
            continue
        hits = []
        for (fn, mod, root) in _cone(r, g):
            for nd in ast.walk(root):
                if isinstance(nd, ast.BinOp) and isinstance(nd.op, (ast.Add, ast.Sub)):
                    for const, other in ((nd.right, nd.left), (nd.left, nd.right)):
                        v = _numeric(r, fn, mod, const)
                        if v is None or abs(v) < 1.0:
                            continue
                        if _numeric(r, fn, mod, other) is not None:
                            continue                     # constant folding, not a conversion of a value
                        if not any(isinstance(x, (ast.Name, ast.Attribute, ast.Subscript)) for x in ast.walk(other)):
                            continue
                        hits.append((fn, mod, nd, v))
                        break
        n += 1
        ok = not hits
        where = f"{g.module.relpath}:{g.node.lineno}"
        msg = ""
        if hits:
            fn, mod, nd, v = hits[0]
            where = f"{mod.relpath}:{nd.lineno}"
            msg = (f"{g.name}() extracts dt_cont (a temperature DIFFERENCE: {len(diff_sites[g])} call sites) and t_supply / t_target (absolute temperatures: "
                   f"{len(abs_sites[g])} call sites) with the same arguments, and its cone computes `{ast.unparse(nd)[:70]}` (offset {v:g}): a contribution "
                   f"labelled with that unit is shifted by the offset, and with it every shifted temperature, pinch and target")
        ctx.ob(rule, f"{g.qualname}:offset-free", where, ok, msg, diff_call_sites=len(diff_sites[g]), abs_call_sites=len(abs_sites[g]))
    return n

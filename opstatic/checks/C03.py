"""C03 - utility allocation bookkeeping: segment selection cannot wrap (WRAP), every assigned duty is booked (PAIR-1),
per-utility zone sums are aligned (ACC)."""
from ..core.model import Program
from ..core.report import CheckContext
from ..core.resolve import Resolver
from ..rules import bookkeeping as bk, inval
from .common import run_control, generic_rules


def _funcs(p, mods):
    return [f for f in p.all_funcs if f.module.name in mods]


def analyse(ctx: CheckContext, p: Program):
    r = Resolver(p)
    ctx.guard(generic_rules, ctx, p, r, "C03")
    ctx.guard(bk.check_wrap, ctx, p, r, _funcs(p, ("OpenPinch.analysis.utility_targeting", "OpenPinch.analysis.gcc_manipulation",
                                        "OpenPinch.analysis.indirect_integration_entry", "OpenPinch.analysis.direct_integration_entry")))
    ctx.guard(bk.check_assignment_booking, ctx, p, r)
    ctx.guard(inval.check_between_pinches, ctx, p, r)
    _eng = inval.InvalEngine(p, r)
    ctx.guard(inval.check_count_guard, ctx, _eng, [f for f in p.all_funcs if f.module.name == "OpenPinch.analysis.gcc_manipulation"])
    ctx.guard(bk.check_zone_sum, ctx, p, r)
    ctx.guard(bk.check_default_filter, ctx, p, r)
    ctx.guard(bk.check_zero_seeded_utilities, ctx, p, r)
    ctx.guard(bk.check_name_match, ctx, p, r, _funcs(p, ("OpenPinch.analysis.utility_targeting", "OpenPinch.analysis.indirect_integration_entry")))


def run(ctx: CheckContext):
    p = Program()
    analyse(ctx, p)
    ctx.floor("WRAP", 4)
    ctx.floor("PAIR-1", 3)
    ctx.floor("ACC", 7)
    ctx.floor("DEFAULT-FILTER", 2)
    ctx.assumptions += [
        "decides index wrap-around of the per-side segment, booking of every assigned duty and alignment of the per-utility zone sums; whether a utility can reach the process "
        "temperatures, default-utility placement and the pocket-free profile's values are numeric and NOT decided",
    ]
    ut = "OpenPinch/analysis/utility_targeting.py"
    ind = "OpenPinch/analysis/indirect_integration_entry.py"
    run_control(ctx, "C03/cold-window-wraps", analyse, p.root, ut, "start_row = max(pinch_row - 1, 0)", "start_row = pinch_row - 1", "WRAP")
    run_control(ctx, "C03/duty-not-booked", analyse, p.root, ut, "            u.set_heat_flow(Q_ut_max)\n            Q_assigned += Q_ut_max\n", "            u.set_heat_flow(Q_ut_max)\n", "PAIR-1")
    run_control(ctx, "C03/per-utility-index", analyse, p.root, ind,
                "cold_utilities[j].heat_flow + t.cold_utilities[j].heat_flow", "cold_utilities[j].heat_flow + t.hot_utilities[j].heat_flow", "ACC")
    run_control(ctx, "C03/inactive-utility-suppresses-default", analyse, p.root, "OpenPinch/analysis/data_preparation.py",
                'utility.type in ["Cold", "Both"]\n            and utility.active\n', 'utility.type in ["Cold", "Both"]\n', "DEFAULT-FILTER")
    run_control(ctx, "C03/utility-duty-preseeded", analyse, p.root, "OpenPinch/analysis/data_preparation.py",
                "                dt_cont=selected.dt_cont,\n                htc=selected.htc,", "                dt_cont=selected.dt_cont,\n                heat_flow=get_value(selected.heat_flow),\n                htc=selected.htc,", "SEED")
    run_control(ctx, "C03/twin-explicit-sum", analyse, p.root, ind, "        cold_utility_target += t.cold_utility_target\n",
                "        cold_utility_target = cold_utility_target + t.cold_utility_target\n", "ACC", expect_fire=False)

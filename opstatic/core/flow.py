"""Structured forward dataflow (abstract interpretation by structural recursion).

Python has no CFG in the standard library; for the structured statement kinds this
repository uses (if/elif/else, for/while with break/continue/else, try/except/finally,
with, match, return, raise) a recursive walk with explicit loop fix-points is equivalent
to a worklist over the CFG and much smaller.  `None` is the unreachable state (bottom)."""
from __future__ import annotations

import ast
from typing import Callable, List, Optional, Tuple


class Flow:
    MAX_LOOP_ITER = 25

    # ---- to be provided by subclasses ---------------------------------------------------
    def copy(self, s):
        raise NotImplementedError

    def join(self, a, b):
        raise NotImplementedError

    def equal(self, a, b) -> bool:
        return a == b

    def transfer(self, stmt: ast.stmt, s):
        """Effect of a simple statement.  Must return the new state (may mutate a copy)."""
        return s

    def branch(self, test: ast.expr, s) -> Tuple[object, object]:
        """States on the true and false edge of `test` (None = infeasible)."""
        return self.copy(s), self.copy(s)

    def bind_loop_target(self, node: ast.For, s):
        return s

    def enter_with(self, item: ast.withitem, s):
        return s

    def bind_except(self, handler: ast.ExceptHandler, s):
        return s

    def on_exit(self, kind: str, node: Optional[ast.AST], s):
        """kind in {'return','raise','fallthrough'}; called once per syntactic exit with the
        state reaching it (never with None)."""

    # ---- driver -------------------------------------------------------------------------
    def run(self, fnode: ast.AST, init):
        self._loops: List[dict] = []
        out = self.block(fnode.body, init)
        if out is not None:
            self.on_exit("fallthrough", None, out)
        return out

    def _j(self, a, b):
        if a is None:
            return b
        if b is None:
            return a
        return self.join(a, b)

    def block(self, stmts: List[ast.stmt], s):
        for st in stmts:
            if s is None:
                return None
            s = self.stmt(st, s)
        return s

    def stmt(self, st: ast.stmt, s):
        if isinstance(st, (ast.FunctionDef, ast.AsyncFunctionDef, ast.ClassDef)):
            return self.transfer(st, s)
        if isinstance(st, ast.If):
            t, f = self.branch(st.test, s)
            a = self.block(st.body, t) if t is not None else None
            b = self.block(st.orelse, f) if f is not None else None
            return self._j(a, b)
        if isinstance(st, (ast.For, ast.AsyncFor)):
            return self._loop(st, s, is_for=True)
        if isinstance(st, ast.While):
            return self._loop(st, s, is_for=False)
        if isinstance(st, ast.Return):
            s = self.transfer(st, s)
            if s is not None:
                self.on_exit("return", st, s)
            return None
        if isinstance(st, ast.Raise):
            s = self.transfer(st, s)
            if self._try_depth and s is not None:
                self._raised = self._j(self._raised, self.copy(s))
            elif s is not None:
                self.on_exit("raise", st, s)
            return None
        if isinstance(st, ast.Break):
            if self._loops:
                self._loops[-1]["break"] = self._j(self._loops[-1]["break"], s)
            return None
        if isinstance(st, ast.Continue):
            if self._loops:
                self._loops[-1]["cont"] = self._j(self._loops[-1]["cont"], s)
            return None
        if isinstance(st, (ast.With, ast.AsyncWith)):
            for it in st.items:
                s = self.enter_with(it, s)
                if s is None:
                    return None
            return self.block(st.body, s)
        if isinstance(st, ast.Try) or st.__class__.__name__ == "TryStar":
            return self._try(st, s)
        if isinstance(st, ast.Match):
            s = self.transfer(ast.Expr(value=st.subject), s)
            out = None
            has_wild = False
            for c in st.cases:
                if isinstance(c.pattern, ast.MatchAs) and c.pattern.pattern is None and c.guard is None:
                    has_wild = True
                out = self._j(out, self.block(c.body, self.copy(s)))
            if not has_wild:
                out = self._j(out, s)
            return out
        return self.transfer(st, s)

    _try_depth = 0
    _raised = None

    def _loop(self, st, s, is_for: bool):
        ctx = {"break": None, "cont": None}
        head = s
        exit_state = None
        for _ in range(self.MAX_LOOP_ITER):
            self._loops.append(ctx)
            ctx["cont"] = None
            if is_for:
                body_in = self.bind_loop_target(st, self.copy(head))
                exit_norm = self.copy(head)          # iterator exhausted
            else:
                body_in, exit_norm = self.branch(st.test, self.copy(head))
            body_out = self.block(st.body, body_in) if body_in is not None else None
            self._loops.pop()
            back = self._j(body_out, ctx["cont"])
            new_head = self._j(self.copy(head), back) if back is not None else head
            exit_state = exit_norm
            if self.equal(new_head, head):
                break
            head = new_head
        else:
            from .model import AnalysisError
            raise AnalysisError("loop fix-point not reached")
        # normal exit (else clause runs only on normal exit)
        if exit_state is not None and st.orelse:
            exit_state = self.block(st.orelse, exit_state)
        return self._j(exit_state, ctx["break"])

    def _try(self, st, s):
        pre = self.copy(s)
        saved_raised = self._raised
        self._raised = None
        self._try_depth += 1
        mid = pre
        cur = s
        for sub in st.body:
            if cur is None:
                break
            cur = self.stmt(sub, cur)
            mid = self._j(mid, self.copy(cur) if cur is not None else None)
        self._try_depth -= 1
        raised = self._j(self._raised, mid)
        self._raised = saved_raised
        out = self.block(st.orelse, cur) if cur is not None else None
        for h in st.handlers:
            hs = self.bind_except(h, self.copy(raised))
            out = self._j(out, self.block(h.body, hs))
        if st.finalbody:
            # the finally block also runs on escaping exceptions; those paths leave the function
            if out is not None:
                out = self.block(st.finalbody, out)
        return out

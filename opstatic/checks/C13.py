"""C13 - graph-type writer/reader tables agree (T3); one graph set per record keyed by its own name (TRAV)."""
from ..core.model import Program
from ..core.report import CheckContext
from ..core.resolve import Resolver
from ..rules import tables
from .common import run_control, generic_rules


def analyse(ctx: CheckContext, p: Program):
    r = Resolver(p)
    ctx.guard(generic_rules, ctx, p, r, "C13", ("OpenPinch/main.py",))
    ctx.guard(tables.check_graph_tables, ctx, p, r)
    ctx.guard(tables.check_traversal, ctx, p, r)


def run(ctx: CheckContext):
    p = Program()
    analyse(ctx, p)
    ctx.floor("T3", 20)
    ctx.floor("TRAV", 4)
    ctx.assumptions += [
        "decides key/column/length agreement between the graph-slice producers and the graph-set builder and traversal parity only; "
        "that emitted points lie on the curves, collinearity pruning and segment sign classification are numeric and NOT decided",
        "record names are distinct within one zone tree (names are built from zone names; equally named zones in different sub-trees are data-dependent)",
    ]
    g = "OpenPinch/analysis/graph_data.py"
    d = "OpenPinch/analysis/direct_integration_entry.py"
    run_control(ctx, "C13/graph-payload-parked-on-the-zone", analyse, p.root, "OpenPinch/main.py",
                '    """Serializes results data into a dictionaty from options."""\n    return {\n',
                '    """Serializes results data into a dictionaty from options."""\n    if not master_zone.graphs:\n        master_zone.graphs = get_output_graph_data(master_zone)\n    return {\n',
                "MEMO-PARAM")
    run_control(ctx, "C13/column-not-sliced", analyse, p.root, d,
                "GT.GCC.value: pt[[PT.T.value, PT.H_NET.value, PT.H_NET_NP.value, PT.H_NET_V.value, PT.H_NET_A.value, PT.H_NET_UT.value]]",
                "GT.GCC.value: pt[[PT.T.value, PT.H_NET.value, PT.H_NET_NP.value, PT.H_NET_A.value, PT.H_NET_UT.value]]", "T3")
    run_control(ctx, "C13/accumulator-defaulted-by-truthiness", analyse, p.root, g,
                "    if graph_sets is None:\n        graph_sets = {}\n    for key, t in zone.targets.items():\n        graph_sets[key] = _create_graph_set(t, key)\n\n"
                "    if len(zone.subzones) > 0:\n        for z in zone.subzones.values():\n            graph_sets = get_output_graph_data(z, graph_sets)\n",
                "    graph_sets = graph_sets or {}\n    for key, t in zone.targets.items():\n        graph_sets[key] = _create_graph_set(t, key)\n\n"
                "    for z in zone.subzones.values():\n        get_output_graph_data(z, graph_sets)\n", "OR-DEFAULT")
    run_control(ctx, "C13/key-mismatch", analyse, p.root, g,
                "                key=GT.SCC.value,\n                data=t.graphs[GT.SCC.value],", "                key=GT.SCC.value,\n                data=t.graphs[GT.CC.value],", "T3")
    run_control(ctx, "C13/short-flag-list", analyse, p.root, g,
                "                value_field=[PT.H_NET_W_AIR.value, PT.H_NET_HP_PRO.value],\n                is_utility_profile=[False, True],",
                "                value_field=[PT.H_NET_W_AIR.value, PT.H_NET_HP_PRO.value],\n                is_utility_profile=[False],", "T3")
    run_control(ctx, "C13/sibling-flags", analyse, p.root, g,
                "                is_utility_profile=[False, False, False, False, True],\n            )\n        )\n\n    if GT.TSP.value in t.graphs:",
                "                is_utility_profile=[False, False, True, False, True],\n            )\n        )\n\n    if GT.TSP.value in t.graphs:", "T3-SIB")
    run_control(ctx, "C13/recursion-guarded-by-targets", analyse, p.root, g,
                "    if len(zone.subzones) > 0:\n        for z in zone.subzones.values():\n            graph_sets = get_output_graph_data(z, graph_sets)",
                "    if len(zone.targets) > 0:\n        for z in zone.subzones.values():\n            graph_sets = get_output_graph_data(z, graph_sets)", "TRAV")
    run_control(ctx, "C13/title-not-key", analyse, p.root, g, "graph_sets[key] = _create_graph_set(t, key)", "graph_sets[key] = _create_graph_set(t, zone.name)", "TRAV")

#!/venv/bin/python
"""Detection power after refactoring: apply a behaviour-preserving twin and then a seeded change on top (when the second
patch still applies with fuzz) and ask the check that catches the seeded change on the plain tree whether it still does."""
import concurrent.futures as cf, glob, json, os, shutil, subprocess, sys, tempfile
VERIF = os.path.dirname(os.path.dirname(os.path.abspath(__file__)))

def files_of(patch):
    return {l[6:].strip() for l in open(patch) if l.startswith("+++ b/")}

def run_one(args):
    tid, tpatch, mid, mpatch, props = args
    root = tempfile.mkdtemp(prefix="compose_", dir="/tmp")
    try:
        shutil.copytree("/repo/OpenPinch", os.path.join(root, "OpenPinch"), ignore=shutil.ignore_patterns("__pycache__"))
        p = subprocess.run(["git", "apply", "--unsafe-paths", f"--directory={root}", tpatch], cwd=root, capture_output=True, text=True)
        if p.returncode != 0:
            return tid, mid, "twin-failed", {}
        p = subprocess.run(["patch", "-p1", "-s", "-F3", "--no-backup-if-mismatch", "-i", mpatch], cwd=root, capture_output=True, text=True)
        if p.returncode != 0:
            return tid, mid, "conflict", {}
        # must still be valid Python
        for f in files_of(mpatch):
            q = subprocess.run(["/venv/bin/python", "-m", "py_compile", os.path.join(root, f)], capture_output=True, text=True)
            if q.returncode != 0:
                return tid, mid, "conflict", {}
        res = {}
        for prop in props:
            env = dict(os.environ, OPSTATIC_REPO=root, OPSTATIC_EVIDENCE_DIR=os.path.join(root, "_ev"))
            q = subprocess.run([os.path.join(VERIF, "check"), prop, "--tier", "quick"], capture_output=True, text=True, env=env, cwd=VERIF)
            res[prop] = q.returncode
        return tid, mid, "ok", res
    finally:
        shutil.rmtree(root, ignore_errors=True)

def main():
    exp = json.load(open(os.path.join(VERIF, "seeded", "EXPECTED.json")))
    jobs = []
    for tp in sorted(glob.glob(os.path.join(VERIF, "seeded", "twins", "*", "patch.diff"))):
        tid = os.path.basename(os.path.dirname(tp))
        tf = files_of(tp)
        for mid, props in sorted(exp["caught_by"].items()):
            mp = os.path.join(VERIF, "seeded", "historical", f"revert_{mid[5:]}.diff") if mid.startswith("hist-") else os.path.join(VERIF, "seeded", mid, "patch.diff")
            if os.path.exists(mp) and (tf & files_of(mp)):
                jobs.append((tid, tp, mid, mp, props))
    stats = {"still_caught": 0, "lost": [], "conflict": 0, "exit2": []}
    with cf.ProcessPoolExecutor(max_workers=16) as ex:
        for tid, mid, status, res in ex.map(run_one, jobs):
            if status != "ok":
                stats["conflict"] += 1
                continue
            if any(rc == 1 for rc in res.values()):
                stats["still_caught"] += 1
            elif any(rc == 2 for rc in res.values()):
                stats["exit2"].append(f"{tid}+{mid}")
            else:
                stats["lost"].append(f"{tid}+{mid}")
    print(json.dumps(stats, indent=1))
    json.dump(stats, open(os.path.join(VERIF, "seeded", "COMPOSED.json"), "w"), indent=1)

if __name__ == "__main__":
    main()

"""C10 - ownership clause: every zone gets its own deep copy of every utility (OWN)."""
from ..core.model import Program
from ..core.report import CheckContext
from ..core.resolve import Resolver
from ..rules import dedup, own
from .common import run_control, generic_rules, anchor_funcs


def analyse(ctx: CheckContext, p: Program):
    r = Resolver(p)
    ctx.guard(generic_rules, ctx, p, r, "C10")
    cone = r.pipeline_cone()
    ctx.guard(own.check_utility_ownership, ctx, p, r, cone)
    ctx.guard(own.check_every_zone_served, ctx, p, r, cone)
    ctx.guard(dedup.check_identity_dedup, ctx, p, r, anchor_funcs(p, "C10"))


def run(ctx: CheckContext):
    p = Program()
    analyse(ctx, p)
    ctx.floor("OWN", 4)
    ctx.assumptions += [
        "decides the ownership sentence of C10 only ('every zone receives its own independent copy of every utility'); conservation of streams over the zone tree "
        "depends on label matching at run time and is NOT decided",
    ]
    d = "OpenPinch/analysis/data_preparation.py"
    run_control(ctx, "C10/combined-collection-memoised", analyse, p.root, "OpenPinch/classes/zone.py",
                "        return self._hot_streams + self._cold_streams", "        if self._ps is None:\n            self._ps = self._hot_streams + self._cold_streams\n        return self._ps", "MEMO-DEP")
    run_control(ctx, "C10/dedup-by-name", analyse, p.root, d, "candidate_id = id(candidate)", "candidate_id = (candidate.zone, candidate.name)", "DEDUP-ID", count=2)
    run_control(ctx, "C10/zero-temperature-dropped", analyse, p.root, d, "if t_target is None or", "if not t_target or", "TRUTHY")
    run_control(ctx, "C10/no-copy", analyse, p.root, d, "zone.hot_utilities.add_many(copy.deepcopy(hot_utilities))", "zone.hot_utilities.add_many(hot_utilities)", "OWN")
    run_control(ctx, "C10/shallow-copy", analyse, p.root, d, "zone.cold_utilities.add_many(copy.deepcopy(cold_utilities))", "zone.cold_utilities.add_many(copy.copy(cold_utilities))", "OWN")
    run_control(ctx, "C10/shared-assignment", analyse, p.root, d,
                "    for subzone in zone.subzones.values():\n        subzone = _set_utilities_for_zone_and_subzones(",
                "    for subzone in zone.subzones.values():\n        subzone.hot_utilities = zone.hot_utilities\n        subzone = _set_utilities_for_zone_and_subzones(", "OWN")
    run_control(ctx, "C10/sum-on-originals", analyse, p.root, "OpenPinch/analysis/indirect_integration_entry.py",
                "    hot_utilities = deepcopy(zone.hot_utilities)\n", "    hot_utilities = zone.hot_utilities\n", "OWN")

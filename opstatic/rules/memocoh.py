"""MEMO-COH - an instance-level memo is invalidated by every public operation that writes what it was computed from.

A class that memoises a derived value on the instance -

    def derived(self, k):
        hit = self._memo.get(k)            # / if self._memo is None: / if k in self._memo:
        if hit is not None:
            return hit
        ... computes from self.data, self.rows ...
        self._memo[k] = value ; return value

- stays correct only if EVERY operation that changes one of the fields the computation reads also drops the memo.  The usual
slip is to add the `drop` call to the obvious writers and to miss one (a bulk insert, a view class writing through
`self.parent.data[...]`): the next query answers from the state before that write.

Finder    a private field M initialised empty in __init__, stored into AND tested AND returned by one method g (the memo
          function).  Sources S = the instance fields g and the class methods it calls read, minus M.
Obligation for every public / dunder method w of the class, and of every *view class* of the same module that is built as
          `View(self)` and keeps the owner in a field (`self.parent`): on every path from a write to a field of S (assignment,
          augmented assignment, element store, in-place mutator, `out=`) to a normal exit, M is invalidated
          (`= None / {} / []`, `.clear()`, `.pop()`, `del`, or a call of a method that does so on all its paths).
          Private helpers are judged through their public callers (method summaries: entry state -> exit states).
Undecided a memo function the finder cannot delimit is not a memo for this rule (MEMO-KEY / MEMO-DEP / the dirty-flag rules look at
          other forms); dirty-flag memos (recompute guarded by a separate flag field) are left to MEMO-M1/M2.
"""
from __future__ import annotations

import ast
from typing import Dict, List, Optional, Set, Tuple

from ..core.flow import Flow
from ..core.model import ClassInfo, FuncInfo, Program
from ..core.report import CheckContext
from ..core.resolve import Resolver, body_nodes
from .classflow import self_name

_MUTATORS = {"append", "extend", "insert", "update", "pop", "clear", "sort", "reverse", "remove", "setdefault", "add", "discard", "popitem",
             "fill", "put", "resize", "itemset", "partition", "setfield", "setflags", "byteswap"}
_EMPTY_CALLS = {"dict", "list", "set", "OrderedDict", "defaultdict"}


def _is_empty(e: ast.AST) -> bool:
    if isinstance(e, ast.Constant) and e.value is None:
        return True
    if isinstance(e, (ast.Dict, ast.List, ast.Set)) and not (getattr(e, "keys", None) or getattr(e, "elts", None)):
        return True
    return isinstance(e, ast.Call) and isinstance(e.func, ast.Name) and e.func.id in _EMPTY_CALLS and not e.args


class _Recv:
    """how the owner object is spelled inside a method: ('self',) or ('self', 'parent')"""

    def __init__(self, chain: Tuple[str, ...]):
        self.chain = chain

    def field(self, e: ast.AST) -> Optional[str]:
        """F if e is <receiver>.F"""
        if not isinstance(e, ast.Attribute):
            return None
        parts, x = [], e.value
        while isinstance(x, ast.Attribute):
            parts.append(x.attr)
            x = x.value
        if not isinstance(x, ast.Name):
            return None
        parts.append(x.id)
        return e.attr if tuple(reversed(parts)) == self.chain else None

    def is_recv(self, e: ast.AST) -> bool:
        parts, x = [], e
        while isinstance(x, ast.Attribute):
            parts.append(x.attr)
            x = x.value
        return isinstance(x, ast.Name) and tuple(reversed(parts + [x.id])) == self.chain


def _fields_read(ci: ClassInfo, f: FuncInfo, seen: Optional[Set[FuncInfo]] = None) -> Set[str]:
    seen = seen if seen is not None else set()
    if f in seen:
        return set()
    seen.add(f)
    me = self_name(f)
    if me is None:
        return set()
    rv = _Recv((me,))
    out: Set[str] = set()
    for d in _views_built_in(ci, f):
        # what the view's accessors read of the owner is read by whoever goes through the view
        a = _owner_field(d)
        for h in d.methods.values():
            hm = self_name(h)
            if hm is None or h.name == "__init__":
                continue
            hrv = _Recv((hm, a))
            out |= {hrv.field(x) for x in body_nodes(h) if isinstance(x, ast.Attribute) and isinstance(x.ctx, ast.Load) and hrv.field(x) is not None}
    for n in body_nodes(f):
        fld = rv.field(n) if isinstance(n, ast.Attribute) and isinstance(n.ctx, ast.Load) else None
        if fld is not None:
            if fld in ci.methods and not ci.methods[fld].is_property:
                out |= _fields_read(ci, ci.methods[fld], seen)
            elif fld in ci.methods:
                out |= _fields_read(ci, ci.methods[fld], seen)
            else:
                out.add(fld)
    return out


def _find_memos(ci: ClassInfo) -> List[Tuple[str, FuncInfo, Set[str]]]:
    init = ci.methods.get("__init__")
    if init is None or self_name(init) is None:
        return []
    irv = _Recv((self_name(init),))
    empties = set()
    for n in body_nodes(init):
        if isinstance(n, (ast.Assign, ast.AnnAssign)) and n.value is not None and _is_empty(n.value):
            for t in (n.targets if isinstance(n, ast.Assign) else [n.target]):
                fld = irv.field(t)
                if fld and fld.startswith("_"):
                    empties.add(fld)
    for nm_, v in ci.class_attrs.items():
        if nm_.startswith("_") and not nm_.startswith("__") and v is not None and _is_empty(v):
            empties.add(nm_)                              # class-level default `_memo = None`
    out = []
    for nm, g in ci.methods.items():
        me = self_name(g)
        if me is None or nm == "__init__" or isinstance(g.node, ast.Lambda):
            continue
        rv = _Recv((me,))
        for M in sorted(empties):
            stores = tests = rets = False
            aliases = set()
            for n in body_nodes(g):
                if isinstance(n, ast.Assign) and len(n.targets) == 1 and isinstance(n.targets[0], ast.Name) \
                        and any(rv.field(x) == M for x in ast.walk(n.value)):
                    aliases.add(n.targets[0].id)
            mentions = lambda e: any(rv.field(x) == M or (isinstance(x, ast.Name) and x.id in aliases) for x in ast.walk(e))
            for n in body_nodes(g):
                if isinstance(n, (ast.Assign, ast.AnnAssign)) and n.value is not None and not _is_empty(n.value):
                    for t in (n.targets if isinstance(n, ast.Assign) else [n.target]):
                        if rv.field(t) == M or (isinstance(t, ast.Subscript) and rv.field(t.value) == M):
                            stores = True
                if isinstance(n, (ast.If, ast.IfExp)) and mentions(n.test):
                    tests = True
                if isinstance(n, ast.Return) and n.value is not None and mentions(n.value):
                    rets = True
            if stores and tests and rets:
                # a separate dirty flag guarding the recomputation is another rule's form
                flagged = any(isinstance(n, ast.If) and not mentions(n.test) and any(
                    isinstance(s2, (ast.Assign, ast.AnnAssign)) and any(rv.field(t) == M for t in (s2.targets if isinstance(s2, ast.Assign) else [s2.target]))
                    for s2 in ast.walk(n)) and any(rv.field(x) is not None for x in ast.walk(n.test)) for n in body_nodes(g))
                if flagged:
                    continue
                srcs = _fields_read(ci, g) - {M}
                srcs = {s for s in srcs if s not in ci.methods and s not in (getattr(ci, "inner", {}) or {})}
                if srcs:
                    out.append((M, g, srcs))
    return out


class _CohFlow(Flow):
    """state (filled, stale), a may-analysis: filled = the memo may hold a value; stale = a source field was written while it may have held one.
    Dropping the memo clears both; a write after the drop (memo empty) is harmless; a call of the memo function fills it again."""

    def __init__(self, eng: "_Engine", f: FuncInfo, rv: _Recv, own: Optional[_Recv]):
        self.eng, self.f, self.rv, self.own = eng, f, rv, own      # own: receiver of the method's OWN class when it is a view class
        self.exits: List[bool] = []
        self.first_write: Optional[ast.AST] = None

    def copy(self, s):
        return s

    def join(self, a, b):
        return (a[0] or b[0], a[1] or b[1])

    def _apply(self, node: ast.AST, s):
        eng = self.eng
        for n in ast.walk(node):
            # calls
            if isinstance(n, ast.Call) and isinstance(n.func, ast.Attribute):
                base = n.func.value
                if self.rv.is_recv(base) and n.func.attr in eng.ci.methods and eng.ci.methods[n.func.attr] is eng.g:
                    s = (True, s[1])
                elif self.rv.is_recv(base) and n.func.attr in eng.ci.methods:
                    s = eng.apply_summary(eng.ci.methods[n.func.attr], s)
                elif self.own is not None and self.own.is_recv(base) and eng.view_cls is not None and n.func.attr in eng.view_cls.methods:
                    s = eng.apply_summary(eng.view_cls.methods[n.func.attr], s, view=True)
                else:
                    fld = self.rv.field(base)
                    if fld == eng.M and n.func.attr in ("clear", "pop", "popitem"):
                        s = (False, False)
                    elif fld in eng.S and n.func.attr in _MUTATORS:
                        s = self._dirty(n, s)
                for k in n.keywords:
                    if k.arg == "out" and any(self.rv.field(x) in eng.S for x in ast.walk(k.value)):
                        s = self._dirty(n, s)
            elif isinstance(n, ast.Call):
                for k in n.keywords:
                    if k.arg == "out" and any(self.rv.field(x) in eng.S for x in ast.walk(k.value)):
                        s = self._dirty(n, s)
        return s

    def _dirty(self, n, s):
        if self.first_write is None:
            self.first_write = n
        return (s[0], s[1] or s[0])

    def transfer(self, st, s):
        if isinstance(st, (ast.FunctionDef, ast.AsyncFunctionDef, ast.ClassDef)):
            return s
        eng = self.eng
        s = self._apply(st, s)
        tgs: List[ast.AST] = []
        if isinstance(st, ast.Assign):
            tgs = list(st.targets)
        elif isinstance(st, (ast.AugAssign, ast.AnnAssign)) and getattr(st, "value", None) is not None:
            tgs = [st.target]
        elif isinstance(st, ast.Delete):
            for t in st.targets:
                if isinstance(t, ast.Subscript) and self.rv.field(t.value) == eng.M:
                    s = (False, False)
                elif isinstance(t, ast.Subscript) and self.rv.field(t.value) in eng.S:
                    s = self._dirty(st, s)
        flat: List[ast.AST] = []
        for t in tgs:
            flat += list(t.elts) if isinstance(t, (ast.Tuple, ast.List)) else [t]
        for t in flat:
            fld = self.rv.field(t)
            if fld == eng.M:
                if isinstance(st, ast.Assign) and _is_empty(st.value):
                    s = (False, False)
                continue
            if fld in eng.S:
                s = self._dirty(st, s)
                continue
            if isinstance(t, ast.Subscript):
                x = t.value
                while isinstance(x, ast.Subscript):
                    x = x.value
                fb = self.rv.field(x)
                if fb in eng.S:
                    s = self._dirty(st, s)
        return s

    def branch(self, test, s):
        s = self._apply(test, s)
        return s, s

    def bind_loop_target(self, node, s):
        return self._apply(node.iter, s)

    def on_exit(self, kind, node, s):
        if kind != "raise":
            self.exits.append(s)


class _Engine:
    def __init__(self, ci: ClassInfo, M: str, S: Set[str], g: FuncInfo):
        self.ci, self.M, self.S, self.g = ci, M, S, g
        self.summ: Dict[tuple, tuple] = {}
        self._active: Set[tuple] = set()
        self.view_cls: Optional[ClassInfo] = None
        self.view_field: Optional[str] = None

    def run(self, f: FuncInfo, entry, view: bool = False):
        me = self_name(f)
        if me is None:
            return entry, None
        if view:
            fl = _CohFlow(self, f, _Recv((me, self.view_field)), _Recv((me,)))
        else:
            fl = _CohFlow(self, f, _Recv((me,)), None)
        fl.run(f.node, entry)
        out = (any(e[0] for e in fl.exits), any(e[1] for e in fl.exits)) if fl.exits else entry
        return out, fl.first_write

    def apply_summary(self, f: FuncInfo, s, view: bool = False):
        if f is self.g:
            return s
        key = (f, s)
        if key in self.summ:
            return self.summ[key]
        if key in self._active or isinstance(f.node, ast.Lambda):
            return s
        self._active.add(key)
        out, _ = self.run(f, s, view)
        self._active.discard(key)
        self.summ[key] = out
        return out


def _owner_field(d: ClassInfo) -> Optional[str]:
    """field in which a view class keeps the owner object handed to its constructor as first argument"""
    init = d.methods.get("__init__")
    if init is None or self_name(init) is None or len(init.pos_params) < 2:
        return None
    owner_param = init.pos_params[1]
    for n in body_nodes(init):
        if isinstance(n, (ast.Assign, ast.AnnAssign)) and isinstance(n.value, ast.Name) and n.value.id == owner_param:
            for tt in (n.targets if isinstance(n, ast.Assign) else [n.target]):
                if isinstance(tt, ast.Attribute) and isinstance(tt.value, ast.Name) and tt.value.id == self_name(init):
                    return tt.attr
    return None


def _views_built_in(ci: ClassInfo, f: FuncInfo) -> List[ClassInfo]:
    """view classes (nested in ci, or module-level classes of ci's module) that f constructs around the owner: D(self) / self.D(self)"""
    me = self_name(f)
    if me is None:
        return []
    cands: Dict[str, ClassInfo] = dict(getattr(ci, "inner", {}) or {})
    for nm, c in ci.module.classes.items():
        if c is not ci:
            cands.setdefault(nm, c)
    out = []
    for n in body_nodes(f):
        if isinstance(n, ast.Call) and n.args and isinstance(n.args[0], ast.Name) and n.args[0].id == me:
            nm = n.func.attr if isinstance(n.func, ast.Attribute) else (n.func.id if isinstance(n.func, ast.Name) else None)
            d = cands.get(nm)
            if d is not None and _owner_field(d) is not None and d not in out:
                out.append(d)
    return out


def _view_classes(r: Resolver, ci: ClassInfo) -> List[Tuple[ClassInfo, str]]:
    out = []
    for f in ci.methods.values():
        for d in _views_built_in(ci, f):
            if all(d is not dd for dd, _ in out):
                out.append((d, _owner_field(d)))
    return out


def check_memo_coherence(ctx: CheckContext, p: Program, r: Resolver, classes: List[ClassInfo], rule: str = "MEMO-COH") -> int:
    ctx.rule(rule, "an instance-level memo (private field filled and returned by one method) is dropped on every path of every public method - of the class or "
                   "of a view class writing through the owner - that writes a field the memo was computed from")
    n = 0
    for ci in classes:
        for M, g, S in _find_memos(ci):
            eng = _Engine(ci, M, S, g)
            entries: List[Tuple[FuncInfo, bool, Optional[ClassInfo]]] = []
            for nm, w in ci.methods.items():
                if w is g or nm == "__init__" or (nm.startswith("_") and not (nm.startswith("__") and nm.endswith("__"))):
                    continue
                entries.append((w, False, None))
            for nm, w in ci.setters.items():
                entries.append((w, False, None))
            views = _view_classes(r, ci)
            for (d, fld) in views:
                for nm, w in d.methods.items():
                    if nm == "__init__" or (nm.startswith("_") and not (nm.startswith("__") and nm.endswith("__"))):
                        continue
                    entries.append((w, True, d))
            for w, is_view, d in entries:
                if is_view:
                    eng.view_cls = d
                    eng.view_field = next(fl_ for (dd, fl_) in views if dd is d)
                    eng.summ = {k: v for k, v in eng.summ.items() if k[0].cls is ci}
                (filled, dirty), where = eng.run(w, (True, False), view=is_view)
                if where is None and not dirty:
                    continue                              # does not write a source field at all
                n += 1
                ctx.ob(rule, f"{w.qualname}:{ci.name}.{M}", f"{w.module.relpath}:{getattr(where, 'lineno', w.node.lineno)}", not dirty,
                       "" if not dirty else
                       f"{w.qualname.split(':')[1]} writes {', '.join(sorted(S))[:80]} of {ci.name} and can return without dropping the memo {M} that "
                       f"{g.name}() fills from it: the next {g.name}() answers from the state before this write")
    return n


def check_memo_coherence_all(ctx: CheckContext, p: Program, r: Resolver, rule: str = "MEMO-COH") -> int:
    return check_memo_coherence(ctx, p, r, list(p.all_classes), rule)

"""Thorough tier: run a property's rules against scratch copies of the package with one seeded change applied
(independently produced mutants, reversed fix commits) or one behaviour-preserving refactoring applied (twins).

Scratch copies live in a temporary directory outside /repo and /verif and are removed immediately."""
from __future__ import annotations

import glob
import hashlib
import json
import os
import shutil
import subprocess
import tempfile
from typing import Callable, Dict, List, Optional, Tuple

from .core.model import AnalysisError, Program, repo_root
from .core.report import VERIF, CheckContext


def package_digest(root: str) -> str:
    h = hashlib.sha256()
    for dp, dn, fn in os.walk(os.path.join(root, "OpenPinch")):
        dn[:] = sorted(d for d in dn if d != "__pycache__")
        for f in sorted(fn):
            if f.endswith(".py"):
                h.update(os.path.relpath(os.path.join(dp, f), root).encode())
                h.update(open(os.path.join(dp, f), "rb").read())
    return h.hexdigest()[:16]


def scratch_with_patch(root: str, patch: str) -> Optional[str]:
    tmp = tempfile.mkdtemp(prefix="opstatic_battery_", dir=tempfile.gettempdir())
    shutil.copytree(os.path.join(root, "OpenPinch"), os.path.join(tmp, "OpenPinch"), ignore=shutil.ignore_patterns("__pycache__"))
    p = subprocess.run(["git", "apply", "--unsafe-paths", f"--directory={tmp}", patch], cwd=tmp, capture_output=True, text=True)
    if p.returncode != 0:
        shutil.rmtree(tmp, ignore_errors=True)
        return None
    return tmp


def expected() -> dict:
    p = os.path.join(VERIF, "seeded", "EXPECTED.json")
    return json.load(open(p)) if os.path.exists(p) else {"digest": None, "caught_by": {}, "twins_silent": []}


_REF_BAD = {}


def _battery_job(args):
    """one seeded change / refactor twin in a scratch copy (worker process)"""
    import importlib
    prop, sid, patch, must_fire, root, base_bad = args
    analyse = importlib.import_module(f"opstatic.checks.{prop}").analyse
    if not os.path.exists(patch):
        return {"id": sid, "result": "patch file missing"}, None
    tmp = scratch_with_patch(root, patch)
    on = "current tree"
    bb = set(map(tuple, base_bad))
    if tmp is None:
        # the current tree has drifted from the one the change was written for: use the frozen reference tree
        ref = os.path.join(VERIF, "fixtures", "reference")
        tmp = scratch_with_patch(ref, patch) if os.path.isdir(ref) else None
        if tmp is None:
            return {"id": sid, "result": "skipped: patch applies neither to the current nor to the reference tree"}, None
        on = "reference tree"
        if prop not in _REF_BAD:
            b0 = CheckContext(prop, "quick")
            try:
                analyse(b0, Program(ref))
            except AnalysisError:
                pass
            _REF_BAD[prop] = {(o.rule, o.key) for o in b0.obligations if not o.ok}
        bb = _REF_BAD[prop]
    try:
        sub = CheckContext(prop, "quick")
        err = None
        try:
            analyse(sub, Program(tmp))
        except AnalysisError as e:
            err = str(e)
        new_bad = [o for o in sub.obligations if not o.ok and (o.rule, o.key) not in bb]
        if must_fire:
            ok = bool(new_bad)
            row = {"id": sid, "kind": "mutant", "result": "reported" if ok else ("analysis-error: " + err if err else "MISSED"),
                   "by": sorted({o.rule for o in new_bad})[:4], "on": on}
            return row, (None if ok else f"battery: seeded change {sid} is no longer reported by {prop} on the {on}")
        ok = not new_bad and err is None
        row = {"id": sid, "kind": "twin", "on": on, "result": "silent" if ok else ("FALSE ALARM: " + (err or "; ".join(f"{o.rule} {o.key}" for o in new_bad[:2])))}
        return row, (None if ok else f"battery: behaviour-preserving refactoring {sid} raises an alarm in {prop}: "
                     + (err or "; ".join(f"{o.rule} {o.key}" for o in new_bad[:2])))
    finally:
        shutil.rmtree(tmp, ignore_errors=True)


def run_battery(ctx: CheckContext, analyse: Callable, root: Optional[str] = None):
    """thorough tier: every seeded change this check is expected to report and every refactor twin, each in its own scratch copy (16 workers)"""
    import concurrent.futures as cf
    root = root or repo_root()
    exp = expected()
    same_tree = exp.get("digest") == package_digest(root)
    base_bad = sorted({(o.rule, o.key) for o in ctx.obligations if not o.ok})
    jobs = []
    for sid, props in sorted(exp.get("caught_by", {}).items()):
        if ctx.prop in props:
            patch = os.path.join(VERIF, "seeded", "historical", f"revert_{sid[5:]}.diff") if sid.startswith("hist-") else os.path.join(VERIF, "seeded", sid, "patch.diff")
            jobs.append((ctx.prop, sid, patch, True, root, base_bad))
    for sid in exp.get("twins_silent", []):
        jobs.append((ctx.prop, sid, os.path.join(VERIF, "seeded", "twins", sid, "patch.diff"), False, root, base_bad))
    rows = []
    with cf.ProcessPoolExecutor(max_workers=min(16, os.cpu_count() or 4)) as ex:
        for row, problem in ex.map(_battery_job, jobs, chunksize=4):
            rows.append(row)
            if problem and (row.get("kind") == "twin" or same_tree or row.get("on") == "reference tree"):
                ctx.error(problem)
    ctx.info["battery"] = {"reference_tree": same_tree, "mutants_reported": sum(1 for r in rows if r.get("result") == "reported"),
                           "twins_silent": sum(1 for r in rows if r.get("result") == "silent"), "rows": rows}

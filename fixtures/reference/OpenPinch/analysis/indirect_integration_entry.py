from copy import deepcopy
from typing import Tuple

from ..classes import *
from ..lib import *
from ..utils import *
from . import (
    get_process_heat_cascade,
    problem_table_algorithm,
    get_heat_pump_targets,
    calc_heat_pump_cascade,
    plot_multi_hp_profiles_from_results,
    get_heat_recovery_target_from_pt,
    set_zonal_targets,
)

__all__ = ["compute_indirect_integration_targets"]


#######################################################################################################
# Public API
#######################################################################################################


def compute_indirect_integration_targets(zone: Zone) -> Zone:
    """Targets indirect heat integration, such as for Total Site, 
    after computing direct heat integration in subzones.
    """
    zone_config: Configuration = zone.config
    res: dict = {}

    # Sum targets from subzones 
    _sum_subzone_targets(zone)

    # Total site profiles - process side
    zone.import_hot_and_cold_streams_from_sub_zones(
        get_net_streams=True,
        is_n_zone_depth=False,
        is_new_stream_collection=True,
    )
    
    pt = get_process_heat_cascade(
        hot_streams=zone.net_hot_streams, 
        cold_streams=zone.net_cold_streams, 
        all_streams=zone.all_net_streams, 
        zone_config=zone.config,
        is_shifted=True,
    )
    pt_real = get_process_heat_cascade(
        hot_streams=zone.net_hot_streams, 
        cold_streams=zone.net_cold_streams, 
        all_streams=zone.all_net_streams, 
        zone_config=zone.config,
        is_shifted=False,
        known_heat_recovery=get_heat_recovery_target_from_pt(pt)
    )
    target_values = set_zonal_targets(
        pt=pt,
        pt_real=pt_real,
    )
    
    pt.update(
        _get_site_process_heat_load_profiles(pt.col[PT.H_HOT.value], pt.col[PT.H_COLD.value])
    )
    pt_real.update(
        _get_site_process_heat_load_profiles(pt_real.col[PT.H_HOT.value], pt_real.col[PT.H_COLD.value])
    )

    # Get utility duties based on the summation of subzones
    s_tzt: EnergyTarget = zone.targets[key_name(zone.name, TargetType.TZ.value)]
    hot_utilities = deepcopy(s_tzt.hot_utilities)
    cold_utilities = deepcopy(s_tzt.cold_utilities)
    
    # Apply the problem table algorithm to the simple sum of subzone utility use 
    pt.update(
        _get_site_utility_heat_cascade(
            pt.col[PT.T.value], 
            hot_utilities, 
            cold_utilities, 
            is_shifted=True,
        )
    )
    pt_real.update(
        _get_site_utility_heat_cascade(
            pt_real.col[PT.T.value], 
            hot_utilities, 
            cold_utilities, 
            is_shifted=False,
        )
    )

    # Apply the utility targeting method to determine the net utility use and generation 
    _match_utility_gen_and_use_at_same_level(
        hot_utilities, cold_utilities
    )

    # Extract overall heat integration targets
    hot_utility_target = pt.loc[0, PT.H_NET_UT.value]
    cold_utility_target = pt.loc[-1, PT.H_NET_UT.value]
    heat_recovery_target = s_tzt.heat_recovery_target + (
        s_tzt.hot_utility_target - hot_utility_target
    )
    hot_pinch, cold_pinch = pt.pinch_temperatures(col_H=PT.H_NET_UT.value)

    if zone.identifier in [Z.S.value]:
        if _validate_heat_pump_targeting_required(pt, True, zone_config):
            hp_res = get_heat_pump_targets(
                T_vals=pt.col[PT.T.value],
                H_hot=pt.col[PT.H_COLD_UT.value],
                H_cold=pt.col[PT.H_HOT_UT.value],
                zone_config=zone_config, 
                is_direct_integration=False,
                is_heat_pumping=True,
            )
            res.update(
                hp_res
            )
            calc_heat_pump_cascade(
                pt=pt,
                res=hp_res,
                is_T_vals_shifted=True,
                is_direct_integration=False,
            )
            if 0:
                plot_multi_hp_profiles_from_results(
                    T_hot=pt.col[PT.T.value],
                    H_hot=pt.col[PT.H_COLD_UT.value],
                    T_cold=pt.col[PT.T.value],                    
                    H_cold=pt.col[PT.H_HOT_UT.value],
                    hp_hot_streams=hp_res.hp_hot_streams,
                    hp_cold_streams=hp_res.hp_cold_streams,
                )
                pt.export(
                    filename=("PT--" + zone_config.TOP_ZONE_NAME.split('.')[0] + "-" + zone.name + "--" + "-".join([r.strip().upper() for r in zone_config.REFRIGERANTS]))
                )

    # if zone_config.DO_TURBINE_WORK:
    #     work_target = 0.0
    #     if zone_config.ABOVE_PINCH_CHECKBOX:
    #         pass
    #         # s_tsi = get_power_cogeneration_above_pinch(s_tsi)
    #     utility_cost = utility_cost - work_target / 1000 * zone_config.ELECTRICITY_PRICE * zone_config.ANNUAL_OP_TIME

    graphs = _save_graph_data(pt, pt_real)

    target_values = _set_sites_targets(
        hot_utility_target,
        cold_utility_target,
        heat_recovery_target,
        s_tzt.heat_recovery_limit,
    )
    res.update(
        {
            "pt": pt,
            "pt_real": pt_real,
            "target_values": target_values,
            "graphs": graphs,
            "hot_utilities": hot_utilities,
            "cold_utilities": cold_utilities,
            "hot_pinch": hot_pinch,
            "cold_pinch": cold_pinch,
            "utility_cost": _compute_utility_cost(hot_utilities, cold_utilities),
        }            
    )
    zone.add_target_from_results(TargetType.TS.value, res)
    return zone


#######################################################################################################
# Helper Functions
#######################################################################################################


def _sum_subzone_targets(zone: Zone) -> Zone:
    """Sums and records zonal targets."""
    hot_utility_target = cold_utility_target = heat_recovery_target = 0.0
    utility_cost = num_units = area = capital_cost = total_cost = 0.0

    hot_utilities = deepcopy(zone.hot_utilities)
    cold_utilities = deepcopy(zone.cold_utilities)
    hot_utilities, cold_utilities = _reset_utility_heat_flows(
        hot_utilities, cold_utilities
    )

    for z in zone.subzones.values():
        z: Zone
        t: EnergyTarget
        t = z.targets[f"{z.name}/{TargetType.DI.value}"]
        hot_utility_target += t.hot_utility_target
        cold_utility_target += t.cold_utility_target
        heat_recovery_target += t.heat_recovery_target
        utility_cost += t.utility_cost

        for j in range(len(hot_utilities)):
            hot_utilities[j].set_heat_flow(
                hot_utilities[j].heat_flow + t.hot_utilities[j].heat_flow
            )

        for j in range(len(cold_utilities)):
            cold_utilities[j].set_heat_flow(
                cold_utilities[j].heat_flow + t.cold_utilities[j].heat_flow
            )

        if area > tol:
            num_units += t.num_units
            area += t.area
            # capital_cost = t.capital_cost

    heat_recovery_limit = zone.targets[
        f"{zone.name}/{TargetType.DI.value}"
    ].heat_recovery_limit

    # Target co-generation of heat and power
    # if zone_config.DO_TURBINE_WORK:
    #     st = get_power_cogeneration_above_pinch(st)
    #     utility_cost = utility_cost - work_target / 1000 * zone_config.ELECTRICITY_PRICE * zone_config.ANNUAL_OP_TIME

    target_values = _set_sites_targets(
        hot_utility_target,
        cold_utility_target,
        heat_recovery_target,
        heat_recovery_limit,
    )
    zone.add_target_from_results(
        TargetType.TZ.value,
        {
            "target_values": target_values,
            "hot_utilities": hot_utilities,
            "cold_utilities": cold_utilities,
        },
    )
    return zone


def _reset_utility_heat_flows(
    hot_utilities: StreamCollection, 
    cold_utilities: StreamCollection
) -> Tuple[StreamCollection, StreamCollection]:
    """Zero out utility heat flows prior to accumulating site-level demands."""
    hu: Stream
    for hu in hot_utilities:
        hu.heat_flow = 0.0
    cu: Stream
    for cu in cold_utilities:
        cu.heat_flow = 0.0
    return hot_utilities, cold_utilities


def _set_sites_targets(
    hot_utility_target, cold_utility_target, heat_recovery_target, heat_recovery_limit
) -> dict:
    """Assign thermal targets and integration degree to the zone based on site analysis methods."""
    return {
        "hot_utility_target": hot_utility_target,
        "cold_utility_target": cold_utility_target,
        "heat_recovery_target": heat_recovery_target,
        "heat_recovery_limit": heat_recovery_limit,
        "degree_of_int": (
            (heat_recovery_target / heat_recovery_limit)
            if heat_recovery_limit > 0
            else 1.0
        ),
    }


def _match_utility_gen_and_use_at_same_level(
    hot_utilities: StreamCollection, 
    cold_utilities: StreamCollection
) -> Tuple[StreamCollection, StreamCollection]:
    for u_h in hot_utilities:
        for u_c in cold_utilities:
            if (
                abs(u_h.t_supply - u_c.t_target) < 1
                and abs(u_h.t_target - u_c.t_supply) < 1
            ):
                Q = min(u_h.heat_flow, u_c.heat_flow)
                u_h.set_heat_flow(u_h.heat_flow - Q)
                u_c.set_heat_flow(u_c.heat_flow - Q)
    return hot_utilities, cold_utilities


def _compute_utility_cost(hot_utilities: StreamCollection, cold_utilities: StreamCollection) -> float:
    utility_cost = 0.0
    for u in hot_utilities + cold_utilities:
        utility_cost += u.ut_cost
    return utility_cost


def _get_site_process_heat_load_profiles(
    H_hot: np.ndarray, 
    H_cold: np.ndarray,
) -> dict:
    return {
        PT.H_NET_HOT.value: H_hot - H_hot[0],
        PT.H_NET_COLD.value: H_cold - H_cold[-1],
    }


def _get_site_utility_heat_cascade(
    T_int_vals: np.ndarray,
    hot_utilities: List[Stream] = None,
    cold_utilities: List[Stream] = None,
    is_shifted: bool = True,
) -> Dict[str, np.ndarray]:
    """Prepare and calculate the utility heat cascade a given set of hot and cold utilities."""
    pt_ut_hot = ProblemTable({PT.T.value: T_int_vals})
    problem_table_algorithm(pt_ut_hot, hot_streams=hot_utilities, is_shifted=is_shifted)

    pt_ut_cld = ProblemTable({PT.T.value: T_int_vals})
    problem_table_algorithm(pt_ut_cld, cold_streams=cold_utilities, is_shifted=is_shifted)

    pt_ut = ProblemTable({PT.T.value: T_int_vals})
    problem_table_algorithm(pt_ut, hot_utilities, cold_utilities, is_shifted=is_shifted)    


    h_net_values = pt_ut.col[PT.H_NET.value]
    H_NET_UT = h_net_values.max() - h_net_values
    
    h_ut_cc =  pt_ut_hot.col[PT.H_HOT.value]
    c_ut_cc =  pt_ut_cld.col[PT.H_COLD.value] - pt_ut_cld.col[PT.H_COLD.value].max()

    return {
        PT.H_NET_UT.value: H_NET_UT,
        PT.H_HOT_UT.value: h_ut_cc,
        PT.H_COLD_UT.value: c_ut_cc,
    }


def _save_graph_data(
    pt: ProblemTable, 
    pt_real: ProblemTable,
) -> Zone:
    """Prepare graph-ready tables capturing site-level utility composite curves."""
    pt.round(decimals=4)
    pt_real.round(decimals=4)
    return {
        GT.TSP.value: pt[
            [
                PT.T.value,
                PT.H_NET_HOT.value,
                PT.H_NET_COLD.value,
                PT.H_HOT_UT.value,
                PT.H_COLD_UT.value,
            ]
        ],
        GT.SUGCC.value: pt_real[[PT.T.value, PT.H_NET_UT.value]],
    }


def _validate_heat_pump_targeting_required(
    pt: ProblemTable,
    is_heat_pumping: bool,
    zone_config: Configuration,
) -> bool:
    return False if (
        (zone_config.DO_UTILITY_HP_TARGETING == False)
        or 
        (pt.col[PT.H_NET_UT.value][0] < tol and is_heat_pumping == True)
        or
        (pt.col[PT.H_NET_UT.value][-1] < tol and is_heat_pumping == False)
        or 
        (zone_config.HP_LOAD_FRACTION < tol)
    ) else True

"""INVAL - row-insert invalidation typestate for problem tables (C07, C05 'rows inserted later').

A buffer-replacing method of the table class (assigns `self.data = ...`) makes every column view fetched
earlier stale; a row-count-changing one also invalidates every row index computed earlier.
 I1  no use of a view variable on a path after an event on its table without re-fetching
 I2  index variables handed to a callee that may insert must be re-bound from the callee's result
 I3  copy coherence: when an index is rebased after an event (`b += n`), every live plain copy `a = b`
     taken under a compatible guard must be rebased in the same block"""
from __future__ import annotations

import ast
from typing import Dict, List, Optional, Set, Tuple

from ..core.flow import Flow
from ..core.model import AnalysisError, ClassInfo, FuncInfo, Program
from ..core.report import CheckContext, norm_stmt
from ..core.resolve import Resolver, body_nodes
from ..core.idioms import aug_add


def buffer_replacing_methods(pt: ClassInfo) -> Dict[str, bool]:
    """method name -> changes row count/order?  (derived from the class: `self.data = ...` outside __init__)"""
    out = {}
    for nm, f in pt.methods.items():
        if nm == "__init__":
            continue
        for n in body_nodes(f):
            if isinstance(n, ast.Assign) and any(isinstance(t1, ast.Attribute) and t1.attr == "data" and isinstance(t1.value, ast.Name) and t1.value.id == "self"
                                                 for t in n.targets for t1 in (t.elts if isinstance(t, (ast.Tuple, ast.List)) else [t])):
                txt = ast.unparse(n.value)
                same_rows = txt.startswith("np.round(") or txt.startswith("numpy.round(")
                out[nm] = not same_rows
    return out


class InvalEngine:
    def __init__(self, p: Program, r: Resolver):
        self.p, self.r = p, r
        pt = p.find_class("ProblemTable")
        if pt is None:
            raise AnalysisError("ProblemTable not found")
        self.pt = pt
        self.events = buffer_replacing_methods(pt)
        if "insert_temperature_interval" not in self.events:
            raise AnalysisError("ProblemTable.insert_temperature_interval no longer replaces the buffer (anchor vanished)")
        # summaries: function -> {param name: 'rows' | 'buffer'}  (may insert rows into / replace buffer of that parameter)
        self.summary: Dict[FuncInfo, Dict[str, str]] = {}
        self._summaries()

    def table_params(self, f: FuncInfo) -> Set[str]:
        out = set()
        for a in f.params:
            t = self.r.class_from_annotation(f.module, a.annotation, f)
            if t is self.pt:
                out.add(a.arg)
        return out

    def _event_of_call(self, f: FuncInfo, c: ast.Call) -> List[Tuple[str, str]]:
        """[(table variable name, 'rows'|'buffer')] for a call node inside f"""
        out = []
        if isinstance(c.func, ast.Attribute) and isinstance(c.func.value, ast.Name) and c.func.attr in self.events:
            t = self.r.type_of(f, c.func.value)
            if t is self.pt or (t is None and c.func.attr == "insert_temperature_interval"):
                out.append((c.func.value.id, "rows" if self.events[c.func.attr] else "buffer"))
        for t in self.r.resolve_call(f, c):
            if isinstance(t, FuncInfo) and t in self.summary:
                sm = self.summary[t]
                pos = t.pos_params
                off = 1 if (isinstance(c.func, ast.Attribute) and t.cls is not None and t.parent is None and not t.is_static) else 0
                for i, a in enumerate(c.args):
                    if isinstance(a, ast.Name) and i + off < len(pos) and pos[i + off] in sm:
                        out.append((a.id, sm[pos[i + off]]))
                for k in c.keywords:
                    if isinstance(k.value, ast.Name) and k.arg in sm:
                        out.append((k.value.id, sm[k.arg]))
        return out

    def _summaries(self):
        for _ in range(8):
            changed = False
            for f in self.p.all_funcs:
                if f.cls is self.pt:
                    continue
                tps = self.table_params(f)
                if not tps:
                    continue
                cur = dict(self.summary.get(f, {}))
                for n in body_nodes(f):
                    if isinstance(n, ast.Call):
                        for var, k in self._event_of_call(f, n):
                            if var in tps:
                                if cur.get(var) != "rows":
                                    if cur.get(var) != k:
                                        cur[var] = k if k == "rows" or var not in cur else cur[var]
                if cur != self.summary.get(f, {}):
                    self.summary[f] = cur
                    changed = True
            if not changed:
                break


def _names_load(node: ast.AST) -> Set[str]:
    return {n.id for n in ast.walk(node) if isinstance(n, ast.Name) and isinstance(n.ctx, ast.Load)}


class _ViewFlow(Flow):
    """State: {view var: (table, status)} with status in valid | stale | cond:<n> ; {n var: table} for event results."""

    def __init__(self, eng: InvalEngine, f: FuncInfo, ctx: CheckContext, rule: str):
        self.eng, self.f, self.ctx, self.rule = eng, f, ctx, rule
        self.view_sites = 0
        self.reported = set()
        self.uses_checked = 0

    def copy(self, s):
        return {k: dict(v) if isinstance(v, dict) else v for k, v in s.items()}

    def join(self, a, b):
        out = {"views": {}, "nvars": dict(a["nvars"])}
        out["nvars"].update(b["nvars"])
        for k in set(a["views"]) | set(b["views"]):
            va, vb = a["views"].get(k), b["views"].get(k)
            if va is None or vb is None:
                out["views"][k] = va or vb
            elif va == vb:
                out["views"][k] = va
            else:
                rank = lambda x: 0 if x[1] == "valid" else (1 if x[1].startswith("cond:") else 2)
                out["views"][k] = max(va, vb, key=rank)
        return out

    def _view_expr_table(self, e: ast.AST) -> Optional[str]:
        # X.col[...] / X.icol[...] / X.cols[...]
        if isinstance(e, ast.Subscript) and isinstance(e.value, ast.Attribute) and e.value.attr in ("col", "icol", "cols") and isinstance(e.value.value, ast.Name):
            t = self.eng.r.type_of(self.f, e.value.value)
            if t is self.eng.pt or t is None:
                return e.value.value.id
        return None

    def _check_uses(self, node: ast.AST, s, skip_targets: Set[str] = frozenset()):
        for n in ast.walk(node):
            if isinstance(n, ast.Name) and isinstance(n.ctx, ast.Load) and n.id in s["views"]:
                tab, status = s["views"][n.id]
                self.uses_checked += 1
                if status != "valid":
                    key = (n.id, n.lineno)
                    if key not in self.reported:
                        self.reported.add(key)
                        self.ctx.ob(self.rule + "-I1", f"{self.f.qualname}:{n.id}@{norm_stmt(self._stmt_of(n))}", f"{self.f.module.relpath}:{n.lineno}", False,
                                    f"'{n.id}' is a column view of table '{tab}' fetched before a row insertion / buffer replacement and is used "
                                    f"afterwards without being re-fetched ({'possibly ' if status.startswith('cond') else ''}stale)")

    def _stmt_of(self, n):
        return self._cur_stmt if self._cur_stmt is not None else n

    _cur_stmt = None

    def _events(self, node: ast.AST, s, result_var: Optional[str] = None):
        for c in ast.walk(node):
            if isinstance(c, ast.Call):
                for tab, k in self.eng._event_of_call(self.f, c):
                    for v, (t, st) in list(s["views"].items()):
                        if t == tab:
                            s["views"][v] = (t, f"cond:{result_var}" if (result_var and k == "rows" and isinstance(c.func, ast.Attribute)
                                                                         and c.func.attr == "insert_temperature_interval") else "stale")
                    if result_var:
                        s["nvars"][result_var] = tab

    def transfer(self, st, s):
        if isinstance(st, (ast.FunctionDef, ast.AsyncFunctionDef, ast.ClassDef)):
            return s
        s = self.copy(s)
        self._cur_stmt = st
        if isinstance(st, ast.Assign):
            self._check_uses(st.value, s)
            # stores THROUGH a stale view are uses too:  V[j] = ...
            for t in st.targets:
                if isinstance(t, ast.Subscript):
                    self._check_uses(t.value, s)
                    self._check_uses(t.slice, s)
            rv = st.targets[0].id if len(st.targets) == 1 and isinstance(st.targets[0], ast.Name) else None
            self._events(st.value, s, rv)
            # (re)fetch of views
            tg = st.targets[0] if len(st.targets) == 1 else None
            pairs = []
            if isinstance(tg, ast.Name):
                pairs = [(tg, st.value)]
            elif isinstance(tg, (ast.Tuple, ast.List)) and isinstance(st.value, (ast.Tuple, ast.List)) and len(tg.elts) == len(st.value.elts):
                pairs = list(zip(tg.elts, st.value.elts))
            elif isinstance(tg, (ast.Tuple, ast.List)):
                for e in tg.elts:
                    if isinstance(e, ast.Name):
                        s["views"].pop(e.id, None)
            for t, v in pairs:
                if isinstance(t, ast.Name):
                    tab = self._view_expr_table(v)
                    if tab is not None:
                        s["views"][t.id] = (tab, "valid")
                        self.view_sites += 1
                    else:
                        s["views"].pop(t.id, None)
        elif isinstance(st, ast.AugAssign):
            self._check_uses(st.value, s)
            self._check_uses(st.target, s) if isinstance(st.target, ast.Subscript) else None
            self._events(st.value, s)
        elif isinstance(st, (ast.Expr, ast.Return, ast.Assert, ast.Raise, ast.Delete)):
            for c in ast.iter_child_nodes(st):
                if isinstance(c, ast.expr):
                    self._check_uses(c, s)
                    self._events(c, s)
        elif isinstance(st, ast.AnnAssign) and st.value is not None:
            self._check_uses(st.value, s)
            self._events(st.value, s)
        return s

    def branch(self, test, s):
        self._cur_stmt = test
        self._check_uses_except_nvars(test, s)
        t, f_ = self.copy(s), self.copy(s)
        # `n > 0` / `n != 0` / `n` : rows were inserted on the true edge only
        nv = None
        pol = None
        if isinstance(test, ast.Compare) and len(test.ops) == 1 and isinstance(test.left, ast.Name) and test.left.id in s["nvars"] \
                and isinstance(test.comparators[0], ast.Constant) and test.comparators[0].value == 0:
            nv = test.left.id
            pol = isinstance(test.ops[0], (ast.Gt, ast.NotEq))
            if isinstance(test.ops[0], (ast.Eq, ast.LtE)):
                pol = False
        elif isinstance(test, ast.Name) and test.id in s["nvars"]:
            nv, pol = test.id, True
        if nv is not None and pol is not None:
            ins, noins = (t, f_) if pol else (f_, t)
            for v, (tab, stt) in list(ins["views"].items()):
                if stt == f"cond:{nv}":
                    ins["views"][v] = (tab, "stale")
            for v, (tab, stt) in list(noins["views"].items()):
                if stt == f"cond:{nv}":
                    noins["views"][v] = (tab, "valid")
        self._events(test, t)
        return t, f_

    def _check_uses_except_nvars(self, test, s):
        self._check_uses(test, s)

    def bind_loop_target(self, node, s):
        self._cur_stmt = node.iter
        self._check_uses(node.iter, s)
        return s


def check_views(ctx: CheckContext, eng: InvalEngine, funcs: List[FuncInfo], rule: str = "INVAL"):
    ctx.rule(rule + "-I1", "no read or write through a column view of a table on any path after a row insertion / buffer replacement of that table without re-fetching "
                           "(the insertion count n == 0 edge keeps views valid)")
    total_views = 0
    for f in funcs:
        if isinstance(f.node, ast.Lambda) or f.cls is eng.pt:
            continue
        has_event = any(isinstance(n, ast.Call) and eng._event_of_call(f, n) for n in body_nodes(f))
        if not has_event:
            continue
        fl = _ViewFlow(eng, f, ctx, rule)
        fl.run(f.node, {"views": {}, "nvars": {}})
        total_views += fl.view_sites
        bad = [o for o in ctx.obligations if o.rule == rule + "-I1" and not o.ok and o.key.startswith(f.qualname + ":")]
        ctx.ob(rule + "-I1", f"{f.qualname}:views", f.loc, True,
               f"{fl.view_sites} view fetch(es), {fl.uses_checked} view use(s) checked, {len(bad)} stale")
    return total_views


# ---------------------------------------------------------------------------------------- indices
def _guards_of(f: FuncInfo) -> Dict[int, frozenset]:
    """id(stmt) -> set of (flag name, polarity) literals from enclosing `if <name>` / `if not <name>` tests."""
    out: Dict[int, frozenset] = {}

    def walk(stmts, g):
        for st in stmts:
            out[id(st)] = g
            if isinstance(st, ast.If):
                lit = None
                if isinstance(st.test, ast.Name):
                    lit = (st.test.id, True)
                elif isinstance(st.test, ast.UnaryOp) and isinstance(st.test.op, ast.Not) and isinstance(st.test.operand, ast.Name):
                    lit = (st.test.operand.id, False)
                walk(st.body, g | {lit} if lit else g)
                walk(st.orelse, g | {(lit[0], not lit[1])} if lit else g)
            else:
                for fld in ("body", "orelse", "finalbody"):
                    sub = getattr(st, fld, None)
                    if isinstance(sub, list) and sub and isinstance(sub[0], ast.stmt):
                        walk(sub, g)
                for h in getattr(st, "handlers", []):
                    walk(h.body, g)
    walk(f.node.body, frozenset())
    return out


def _compatible(g1: frozenset, g2: frozenset) -> bool:
    return not any((n, not p) in g2 for (n, p) in g1)


def _block_of(f: FuncInfo, stmt: ast.stmt) -> List[ast.stmt]:
    found = None

    def walk(stmts):
        nonlocal found
        if any(s is stmt for s in stmts):
            found = stmts
            return
        for st in stmts:
            for fld in ("body", "orelse", "finalbody"):
                sub = getattr(st, fld, None)
                if isinstance(sub, list) and sub and isinstance(sub[0], ast.stmt):
                    walk(sub)
            for h in getattr(st, "handlers", []):
                walk(h.body)
    walk(f.node.body)
    return found or []


def _enclosing_loops(f: FuncInfo, stmt: ast.stmt) -> List[ast.stmt]:
    path: List[ast.stmt] = []

    def walk(stmts, loops):
        for st in stmts:
            if st is stmt:
                path.extend(loops)
                return True
            nl = loops + [st] if isinstance(st, (ast.For, ast.While)) else loops
            for fld in ("body", "orelse", "finalbody"):
                sub = getattr(st, fld, None)
                if isinstance(sub, list) and sub and isinstance(sub[0], ast.stmt):
                    if walk(sub, nl):
                        return True
        return False
    walk(f.node.body, [])
    return path


def check_indices(ctx: CheckContext, eng: InvalEngine, funcs: List[FuncInfo], rule: str = "INVAL"):
    ctx.rule(rule + "-I2", "row-index variables passed to a callee that may insert rows into the same table are re-bound from the callee's result before their next use")
    ctx.rule(rule + "-I3", "copy coherence: when a row index is rebased after an insertion (`b += n`), every live plain copy `a = b` taken under a compatible guard is rebased "
                           "in the same block (the code's own belief that the row moved is applied to all aliases of that row)")
    r = eng.r
    n_i2 = n_i3 = 0
    for f in funcs:
        if isinstance(f.node, ast.Lambda) or f.cls is eng.pt:
            continue
        nodes = body_nodes(f)
        # ---- event result variables (n = X.insert_temperature_interval(...))
        nvars: Set[str] = set()
        for n in nodes:
            if isinstance(n, ast.Assign) and len(n.targets) == 1 and isinstance(n.targets[0], ast.Name) and isinstance(n.value, ast.Call):
                if any(k == "rows" for _, k in eng._event_of_call(f, n.value)) and isinstance(n.value.func, ast.Attribute) \
                        and n.value.func.attr == "insert_temperature_interval":
                    nvars.add(n.targets[0].id)
        # ---- I2: calls to summarised callees with int-like variables next to the table
        for n in nodes:
            if not isinstance(n, (ast.Assign, ast.Expr)):
                continue
            call = n.value if isinstance(n.value, ast.Call) else None
            if call is None:
                continue
            for t in r.resolve_call(f, call):
                if not (isinstance(t, FuncInfo) and t in eng.summary and "rows" in eng.summary[t].values()):
                    continue
                # which params of the callee are row indices? -> those it returns alongside the table
                rets = [x for x in body_nodes(t) if isinstance(x, ast.Return) and isinstance(x.value, ast.Tuple)]
                idx_params = set()
                for rt in rets:
                    for e in rt.value.elts:
                        if isinstance(e, ast.Name) and e.id in t.pos_params and e.id not in eng.summary[t]:
                            idx_params.add(e.id)
                if not idx_params:
                    continue
                passed: Dict[str, str] = {}
                pos = t.pos_params
                for i, a in enumerate(call.args):
                    if i < len(pos) and pos[i] in idx_params and isinstance(a, ast.Name):
                        passed[pos[i]] = a.id
                for k in call.keywords:
                    if k.arg in idx_params and isinstance(k.value, ast.Name):
                        passed[k.arg] = k.value.id
                if not passed:
                    continue
                rebound: Set[str] = set()
                if isinstance(n, ast.Assign):
                    for tg in n.targets:
                        for e in (tg.elts if isinstance(tg, (ast.Tuple, ast.List)) else [tg]):
                            if isinstance(e, ast.Name):
                                rebound.add(e.id)
                for pn, var in sorted(passed.items()):
                    # is var read after this statement?
                    later = any(isinstance(x, ast.Name) and x.id == var and isinstance(x.ctx, ast.Load) and x.lineno > n.end_lineno for x in nodes) \
                        or bool(_enclosing_loops(f, n))
                    ok = var in rebound or not later
                    n_i2 += 1
                    ctx.ob(rule + "-I2", f"{f.qualname}:{var}@{norm_stmt(call)[:80]}", f"{f.module.relpath}:{n.lineno}", ok,
                           "" if ok else f"row index '{var}' is passed to {t.name}, which may insert rows, and is used afterwards without being re-bound from its result")
        # ---- I3
        if not nvars:
            continue
        guards = _guards_of(f)
        stmts = [n for n in nodes if isinstance(n, ast.stmt)]
        copies: List[Tuple[str, str, ast.stmt, frozenset]] = []     # (a, b, stmt, extra guard)  a = b
        for st in stmts:
            if isinstance(st, ast.Assign) and len(st.targets) == 1 and isinstance(st.targets[0], ast.Name):
                v = st.value
                if isinstance(v, ast.Name):
                    copies.append((st.targets[0].id, v.id, st, frozenset()))
                elif isinstance(v, ast.IfExp) and isinstance(v.body, ast.Name) and isinstance(v.orelse, ast.Name):
                    # a = b if flag else c  : two guarded copies
                    lit = None
                    if isinstance(v.test, ast.Name):
                        lit = (v.test.id, True)
                    elif isinstance(v.test, ast.UnaryOp) and isinstance(v.test.op, ast.Not) and isinstance(v.test.operand, ast.Name):
                        lit = (v.test.operand.id, False)
                    if lit is not None:
                        copies.append((st.targets[0].id, v.body.id, st, frozenset([lit])))
                        copies.append((st.targets[0].id, v.orelse.id, st, frozenset([(lit[0], not lit[1])])))

        def rebase_of(s2):
            aa = aug_add(s2)
            if aa is not None and isinstance(aa[0], ast.Name) and isinstance(aa[1], ast.Name) and aa[1].id in nvars:
                return aa[0].id, aa[1].id
            return None
        rebases = [st for st in stmts if rebase_of(st) is not None]
        for rb in rebases:
            b, nv = rebase_of(rb)
            blk = _block_of(f, rb)
            rebased_here = {rebase_of(s2)[0] for s2 in blk if rebase_of(s2) is not None and rebase_of(s2)[1] == nv}
            for (a, src, cst, extra) in copies:
                other = a if src == b else (src if a == b else None)
                if other is None or other == b:
                    continue
                if not _compatible(guards.get(id(cst), frozenset()) | extra, guards.get(id(rb), frozenset())):
                    continue
                # the copy relation must still hold at the rebase: neither side plainly re-assigned in between (textually, same loop nest)
                broken = False
                for st in stmts:
                    if isinstance(st, ast.Assign) and cst.lineno < st.lineno < rb.lineno and rebase_of(st) is None \
                            and _compatible(guards.get(id(st), frozenset()), guards.get(id(cst), frozenset()) | extra):
                        for tg in st.targets:
                            for e in (tg.elts if isinstance(tg, (ast.Tuple, ast.List)) else [tg]):
                                if isinstance(e, ast.Name) and e.id in (a, src) and st is not cst:
                                    broken = True
                # a copy taken INSIDE the same loop iteration before an intervening reassignment is not an alias any more
                if broken:
                    continue
                live = any(isinstance(x, ast.Name) and x.id == other and isinstance(x.ctx, ast.Load) and x.lineno > rb.lineno for x in nodes)
                for lp in _enclosing_loops(f, rb):
                    if any(isinstance(x, ast.Name) and x.id == other and isinstance(x.ctx, ast.Load) for x in ast.walk(lp)):
                        live = True
                if not live:
                    continue
                n_i3 += 1
                ok = other in rebased_here
                ctx.ob(rule + "-I3", f"{f.qualname}:{other}~{b}@{norm_stmt(rb)}", f"{f.module.relpath}:{rb.lineno}", ok,
                       "" if ok else f"'{b}' is rebased by the number of inserted rows but its live copy '{other}' (taken at line {cst.lineno}: {norm_stmt(cst)}) "
                                     f"is not, and is read afterwards: the two now name different rows")
    return n_i2, n_i3


# ---------------------------------------------------------------------------------------- derived values, source columns, mirrored branches
def check_stale_derived(ctx: CheckContext, eng: InvalEngine, funcs: List[FuncInfo], rule: str = "INVAL"):
    """I4: a value computed from row indices (e.g. a range object, an offset) before a call that may insert rows - whose result
    re-binds those indices - is stale afterwards; using it addresses the wrong rows."""
    ctx.rule(rule + "-I4", "a variable computed from row indices before a row-inserting call that re-binds those indices is not used after that call "
                           "without being recomputed")
    r = eng.r
    n = 0
    for f in funcs:
        if isinstance(f.node, ast.Lambda) or f.cls is eng.pt:
            continue
        nodes = body_nodes(f)
        stmts = [x for x in nodes if isinstance(x, ast.stmt)]
        for st in stmts:
            if not (isinstance(st, ast.Assign) and isinstance(st.value, ast.Call)):
                continue
            if not any(isinstance(t, FuncInfo) and t in eng.summary and "rows" in eng.summary[t].values() for t in r.resolve_call(f, st.value)):
                continue
            rebound = set()
            for tg in st.targets:
                for e in (tg.elts if isinstance(tg, (ast.Tuple, ast.List)) else [tg]):
                    if isinstance(e, ast.Name):
                        rebound.add(e.id)
            passed = {a.id for a in st.value.args if isinstance(a, ast.Name)} | {k.value.id for k in st.value.keywords if isinstance(k.value, ast.Name)}
            idx_vars = {v for v in rebound & passed if eng.r.type_of(f, ast.Name(id=v, ctx=ast.Load())) is not eng.pt}
            if not idx_vars:
                continue
            # derived values assigned before the call from those indices
            for d in stmts:
                if d.lineno >= st.lineno or not isinstance(d, ast.Assign) or len(d.targets) != 1 or not isinstance(d.targets[0], ast.Name):
                    continue
                dv = d.targets[0].id
                if dv in idx_vars or dv in rebound:
                    continue
                srcs = {x.id for x in ast.walk(d.value) if isinstance(x, ast.Name)} & idx_vars
                if not srcs:
                    continue
                # pure copies are handled by I3; here: ranges / arithmetic
                if isinstance(d.value, ast.Name):
                    continue
                reassigned_after = any(isinstance(x, ast.Assign) and any(isinstance(t, ast.Name) and t.id == dv for t in x.targets) and x.lineno > st.lineno for x in stmts)
                used_after = [x for x in nodes if isinstance(x, ast.Name) and x.id == dv and isinstance(x.ctx, ast.Load) and x.lineno > st.end_lineno]
                if not used_after:
                    continue
                n += 1
                first_use = min(u.lineno for u in used_after)
                ok = reassigned_after and all(any(isinstance(x, ast.Assign) and any(isinstance(t, ast.Name) and t.id == dv for t in x.targets)
                                                  and st.lineno < x.lineno <= first_use for x in stmts) for _ in [0])
                ctx.ob(rule + "-I4", f"{f.qualname}:{dv}@{norm_stmt(d)}", f"{f.module.relpath}:{first_use}", ok,
                       "" if ok else f"'{dv}' is computed from {sorted(srcs)} (line {d.lineno}) before `{norm_stmt(st)[:70]}` may insert rows and re-binds them; "
                                     f"its use at line {first_use} addresses the rows as they were numbered before the insertion")
    return n


def check_source_column_readonly(ctx: CheckContext, eng: InvalEngine, rule: str = "SRC-RO"):
    """Functions that derive column <dst> from column <src> (both given as parameters) never store into <src>."""
    ctx.rule(rule, "the pocket-removal functions take a source column and a destination column: every store goes to the destination "
                   "(or the destination is initialised from the source); the source curve itself is never modified")
    m = eng.p.modules.get("OpenPinch.analysis.gcc_manipulation")
    if m is None:
        raise AnalysisError("gcc_manipulation module not found")
    n = 0
    for f in [x for x in eng.p.all_funcs if x.module is m and not isinstance(x.node, ast.Lambda)]:
        params = [a for a in f.pos_params if a.startswith("col_")]
        if len(params) < 2:
            continue
        # destination = the column parameter that is assigned as a whole from the other (pt.col[dst] = pt.col[src]) or, failing that, the one with more stores
        stores: Dict[str, List[ast.AST]] = {a: [] for a in params}
        views: Dict[str, str] = {}
        for x in body_nodes(f):
            if isinstance(x, ast.Assign):
                tg = x.targets[0]
                pairs = list(zip(tg.elts, x.value.elts)) if isinstance(tg, (ast.Tuple, ast.List)) and isinstance(x.value, (ast.Tuple, ast.List)) and len(tg.elts) == len(x.value.elts) else [(tg, x.value)]
                for t1, v1 in pairs:
                    if isinstance(t1, ast.Name) and isinstance(v1, ast.Subscript) and isinstance(v1.slice, ast.Name) and v1.slice.id in params:
                        views[t1.id] = v1.slice.id
        for x in body_nodes(f):
            tgs = []
            if isinstance(x, ast.Assign):
                tgs = x.targets
            elif isinstance(x, ast.AugAssign):
                tgs = [x.target]
            for t in tgs:
                for sub in ast.walk(t):
                    if isinstance(sub, ast.Subscript) and isinstance(sub.ctx, ast.Store):
                        names = {y.id for y in ast.walk(sub) if isinstance(y, ast.Name)}
                        for a in params:
                            if a in names or any(views.get(nm) == a for nm in names):
                                stores[a].append(x)
        dst = None
        for x in body_nodes(f):
            if isinstance(x, ast.Assign) and isinstance(x.targets[0], ast.Subscript) and isinstance(x.targets[0].slice, ast.Name) and x.targets[0].slice.id in params \
                    and isinstance(x.value, ast.Subscript) and isinstance(x.value.slice, ast.Name) and x.value.slice.id in params and x.value.slice.id != x.targets[0].slice.id:
                dst = x.targets[0].slice.id
        if dst is None:
            np_like = [a for a in params if a.upper().endswith("_NP") or "NP" in a.upper()]
            dst = np_like[0] if np_like else max(params, key=lambda a: len(stores[a]))
        for a in params:
            if a == dst:
                continue
            for st in stores[a]:
                n += 1
                ctx.ob(rule, f"{f.qualname}:{norm_stmt(st)}", f"{f.module.relpath}:{st.lineno}", False,
                       f"{f.name} writes into the source column '{a}' (destination is '{dst}'): the grand composite curve itself is modified")
        n += 1
        if not any(stores[a] for a in params if a != dst):
            ctx.ob(rule, f"{f.qualname}:source-untouched", f.loc, True, f"destination '{dst}', {len(stores[dst])} store(s); source columns read-only")
    return n


def _negate_offsets(node: ast.AST) -> ast.AST:
    """mirror image of an index expression tree: x + c <-> x - c for integer constants, range(a, b, -1) <-> range(a, b)"""
    import copy

    class T(ast.NodeTransformer):
        def visit_BinOp(self, n):
            self.generic_visit(n)
            if isinstance(n.right, ast.Constant) and isinstance(n.right.value, int) and isinstance(n.op, (ast.Add, ast.Sub)):
                n.op = ast.Sub() if isinstance(n.op, ast.Add) else ast.Add()
            return n

        def visit_Call(self, n):
            self.generic_visit(n)
            if isinstance(n.func, ast.Name) and n.func.id == "range":
                if len(n.args) == 3 and isinstance(n.args[2], ast.UnaryOp) and isinstance(n.args[2].op, ast.USub):
                    n.args = n.args[:2]
                elif len(n.args) == 2:
                    n.args = n.args + [ast.UnaryOp(op=ast.USub(), operand=ast.Constant(value=1))]
            return n
    return T().visit(copy.deepcopy(node))


def check_mirrored_branches(ctx: CheckContext, eng: InvalEngine, rule: str = "MIRROR"):
    """`if sgn > 0: A else: B` where both branches scan rows in opposite directions: B must be the mirror image of A
    (every +c offset becomes -c, the range runs backwards) - sibling implementations of one search must agree."""
    ctx.rule(rule, "the upward and the downward branch of a direction-dependent row scan are mirror images of each other (offsets negated, range reversed)")
    m = eng.p.modules.get("OpenPinch.analysis.gcc_manipulation")
    n = 0
    for f in [x for x in eng.p.all_funcs if x.module is m and not isinstance(x.node, ast.Lambda)]:
        for st in f.node.body:
            if isinstance(st, ast.If) and isinstance(st.test, ast.Compare) and len(st.test.ops) == 1 and isinstance(st.test.left, ast.Name) \
                    and st.test.left.id in f.pos_params and isinstance(st.test.comparators[0], ast.Constant) and st.test.comparators[0].value == 0 \
                    and st.body and st.orelse and any(isinstance(x, ast.For) for x in st.body) and any(isinstance(x, ast.For) for x in st.orelse):
                n += 1
                a = ast.dump(ast.Module(body=st.body, type_ignores=[]))
                b = ast.dump(_negate_offsets(ast.Module(body=st.orelse, type_ignores=[])))
                ok = a == b
                ctx.ob(rule, f"{f.qualname}:{norm_stmt(st.test)}", f"{f.module.relpath}:{st.lineno}", ok,
                       "" if ok else f"the two direction branches of {f.name} are not mirror images: "
                                     f"`{ast.unparse(st.body[0]).splitlines()[0]}` vs `{ast.unparse(st.orelse[0]).splitlines()[0]}` (one side scans a different row range)")
    return n

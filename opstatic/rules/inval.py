"""INVAL - row-insert invalidation typestate for problem tables (C07, C05 'rows inserted later').

A buffer-replacing method of the table class (assigns `self.data = ...`) makes every column view fetched
earlier stale; a row-count-changing one also invalidates every row index computed earlier.
 I1  no use of a view variable on a path after an event on its table without re-fetching
 I2  index variables handed to a callee that may insert must be re-bound from the callee's result
 I3  copy coherence: when an index is rebased after an event (`b += n`), every live plain copy `a = b`
     taken under a compatible guard must be rebased in the same block"""
from __future__ import annotations

import ast
from typing import Dict, List, Optional, Set, Tuple

from ..core.flow import Flow
from ..core.model import AnalysisError, ClassInfo, FuncInfo, Program
from ..core.report import CheckContext, norm_stmt
from ..core.resolve import Resolver, body_nodes
from ..core.idioms import aug_add


def buffer_replacing_methods(pt: ClassInfo) -> Dict[str, bool]:
    """method name -> changes row count/order?  (derived from the class: `self.data = ...` outside __init__)"""
    out = {}
    for nm, f in pt.methods.items():
        if nm == "__init__":
            continue
        for n in body_nodes(f):
            if isinstance(n, ast.Assign) and any(isinstance(t1, ast.Attribute) and t1.attr == "data" and isinstance(t1.value, ast.Name) and t1.value.id == "self"
                                                 for t in n.targets for t1 in (t.elts if isinstance(t, (ast.Tuple, ast.List)) else [t])):
                txt = ast.unparse(n.value)
                same_rows = txt.startswith("np.round(") or txt.startswith("numpy.round(")
                out[nm] = not same_rows
    return out


class InvalEngine:
    def __init__(self, p: Program, r: Resolver):
        self.p, self.r = p, r
        pt = p.find_class("ProblemTable")
        if pt is None:
            raise AnalysisError("ProblemTable not found")
        self.pt = pt
        self.events = buffer_replacing_methods(pt)
        if "insert_temperature_interval" not in self.events:
            raise AnalysisError("ProblemTable.insert_temperature_interval no longer replaces the buffer (anchor vanished)")
        # summaries: function -> {param name: 'rows' | 'buffer'}  (may insert rows into / replace buffer of that parameter)
        self.summary: Dict[FuncInfo, Dict[str, str]] = {}
        self._summaries()

    def table_params(self, f: FuncInfo) -> Set[str]:
        out = set()
        for a in f.params:
            t = self.r.class_from_annotation(f.module, a.annotation, f)
            if t is self.pt:
                out.add(a.arg)
        return out

    def _event_of_call(self, f: FuncInfo, c: ast.Call) -> List[Tuple[str, str]]:
        """[(table variable name, 'rows'|'buffer')] for a call node inside f"""
        out = []
        if isinstance(c.func, ast.Attribute) and isinstance(c.func.value, ast.Name) and c.func.attr in self.events:
            t = self.r.type_of(f, c.func.value)
            if t is self.pt or (t is None and c.func.attr == "insert_temperature_interval"):
                out.append((c.func.value.id, "rows" if self.events[c.func.attr] else "buffer"))
        for t in self.r.resolve_call(f, c):
            if isinstance(t, FuncInfo) and t in self.summary:
                sm = self.summary[t]
                pos = t.pos_params
                off = 1 if (isinstance(c.func, ast.Attribute) and t.cls is not None and t.parent is None and not t.is_static) else 0
                for i, a in enumerate(c.args):
                    if isinstance(a, ast.Name) and i + off < len(pos) and pos[i + off] in sm:
                        out.append((a.id, sm[pos[i + off]]))
                for k in c.keywords:
                    if isinstance(k.value, ast.Name) and k.arg in sm:
                        out.append((k.value.id, sm[k.arg]))
        return out

    def _summaries(self):
        for _ in range(8):
            changed = False
            for f in self.p.all_funcs:
                if f.cls is self.pt:
                    continue
                tps = self.table_params(f)
                if not tps:
                    continue
                cur = dict(self.summary.get(f, {}))
                for n in body_nodes(f):
                    if isinstance(n, ast.Call):
                        for var, k in self._event_of_call(f, n):
                            if var in tps:
                                if cur.get(var) != "rows":
                                    if cur.get(var) != k:
                                        cur[var] = k if k == "rows" or var not in cur else cur[var]
                if cur != self.summary.get(f, {}):
                    self.summary[f] = cur
                    changed = True
            if not changed:
                break


def _names_load(node: ast.AST) -> Set[str]:
    return {n.id for n in ast.walk(node) if isinstance(n, ast.Name) and isinstance(n.ctx, ast.Load)}


class _ViewFlow(Flow):
    """State: {view var: (table, status)} with status in valid | stale | cond:<n> ; {n var: table} for event results."""

    def __init__(self, eng: InvalEngine, f: FuncInfo, ctx: CheckContext, rule: str):
        self.eng, self.f, self.ctx, self.rule = eng, f, ctx, rule
        self.view_sites = 0
        self.reported = set()
        self.uses_checked = 0

    def copy(self, s):
        return {k: dict(v) if isinstance(v, dict) else v for k, v in s.items()}

    def join(self, a, b):
        out = {"views": {}, "nvars": dict(a["nvars"])}
        out["nvars"].update(b["nvars"])
        for k in set(a["views"]) | set(b["views"]):
            va, vb = a["views"].get(k), b["views"].get(k)
            if va is None or vb is None:
                out["views"][k] = va or vb
            elif va == vb:
                out["views"][k] = va
            else:
                rank = lambda x: 0 if x[1] == "valid" else (1 if x[1].startswith("cond:") else 2)
                out["views"][k] = max(va, vb, key=rank)
        return out

    def _view_expr_table(self, e: ast.AST) -> Optional[str]:
        # X.col[...] / X.icol[...] / X.cols[...]
        if isinstance(e, ast.Subscript) and isinstance(e.value, ast.Attribute) and e.value.attr in ("col", "icol", "cols") and isinstance(e.value.value, ast.Name):
            t = self.eng.r.type_of(self.f, e.value.value)
            if t is self.eng.pt or t is None:
                return e.value.value.id
        return None

    def _check_uses(self, node: ast.AST, s, skip_targets: Set[str] = frozenset()):
        for n in ast.walk(node):
            if isinstance(n, ast.Name) and isinstance(n.ctx, ast.Load) and n.id in s["views"]:
                tab, status = s["views"][n.id]
                self.uses_checked += 1
                if status != "valid":
                    key = (n.id, n.lineno)
                    if key not in self.reported:
                        self.reported.add(key)
                        self.ctx.ob(self.rule + "-I1", f"{self.f.qualname}:{n.id}@{norm_stmt(self._stmt_of(n))}", f"{self.f.module.relpath}:{n.lineno}", False,
                                    f"'{n.id}' is a column view of table '{tab}' fetched before a row insertion / buffer replacement and is used "
                                    f"afterwards without being re-fetched ({'possibly ' if status.startswith('cond') else ''}stale)")

    def _stmt_of(self, n):
        return self._cur_stmt if self._cur_stmt is not None else n

    _cur_stmt = None

    def _events(self, node: ast.AST, s, result_var: Optional[str] = None):
        for c in ast.walk(node):
            if isinstance(c, ast.Call):
                for tab, k in self.eng._event_of_call(self.f, c):
                    for v, (t, st) in list(s["views"].items()):
                        if t == tab:
                            s["views"][v] = (t, f"cond:{result_var}" if (result_var and k == "rows" and isinstance(c.func, ast.Attribute)
                                                                         and c.func.attr == "insert_temperature_interval") else "stale")
                    if result_var:
                        s["nvars"][result_var] = tab

    def transfer(self, st, s):
        if isinstance(st, (ast.FunctionDef, ast.AsyncFunctionDef, ast.ClassDef)):
            return s
        s = self.copy(s)
        self._cur_stmt = st
        if isinstance(st, ast.Assign):
            self._check_uses(st.value, s)
            # stores THROUGH a stale view are uses too:  V[j] = ...
            for t in st.targets:
                if isinstance(t, ast.Subscript):
                    self._check_uses(t.value, s)
                    self._check_uses(t.slice, s)
            rv = st.targets[0].id if len(st.targets) == 1 and isinstance(st.targets[0], ast.Name) else None
            self._events(st.value, s, rv)
            # (re)fetch of views
            tg = st.targets[0] if len(st.targets) == 1 else None
            pairs = []
            if isinstance(tg, ast.Name):
                pairs = [(tg, st.value)]
            elif isinstance(tg, (ast.Tuple, ast.List)) and isinstance(st.value, (ast.Tuple, ast.List)) and len(tg.elts) == len(st.value.elts):
                pairs = list(zip(tg.elts, st.value.elts))
            elif isinstance(tg, (ast.Tuple, ast.List)):
                for e in tg.elts:
                    if isinstance(e, ast.Name):
                        s["views"].pop(e.id, None)
            for t, v in pairs:
                if isinstance(t, ast.Name):
                    tab = self._view_expr_table(v)
                    if tab is not None:
                        s["views"][t.id] = (tab, "valid")
                        self.view_sites += 1
                    else:
                        s["views"].pop(t.id, None)
        elif isinstance(st, ast.AugAssign):
            self._check_uses(st.value, s)
            self._check_uses(st.target, s) if isinstance(st.target, ast.Subscript) else None
            self._events(st.value, s)
        elif isinstance(st, (ast.Expr, ast.Return, ast.Assert, ast.Raise, ast.Delete)):
            for c in ast.iter_child_nodes(st):
                if isinstance(c, ast.expr):
                    self._check_uses(c, s)
                    self._events(c, s)
        elif isinstance(st, ast.AnnAssign) and st.value is not None:
            self._check_uses(st.value, s)
            self._events(st.value, s)
        return s

    def branch(self, test, s):
        self._cur_stmt = test
        self._check_uses_except_nvars(test, s)
        t, f_ = self.copy(s), self.copy(s)
        # `n > 0` / `n != 0` / `n` : rows were inserted on the true edge only
        nv = None
        pol = None
        if isinstance(test, ast.Compare) and len(test.ops) == 1 and isinstance(test.left, ast.Name) and test.left.id in s["nvars"] \
                and isinstance(test.comparators[0], ast.Constant) and test.comparators[0].value == 0:
            nv = test.left.id
            pol = isinstance(test.ops[0], (ast.Gt, ast.NotEq))
            if isinstance(test.ops[0], (ast.Eq, ast.LtE)):
                pol = False
        elif isinstance(test, ast.Name) and test.id in s["nvars"]:
            nv, pol = test.id, True
        if nv is not None and pol is not None:
            ins, noins = (t, f_) if pol else (f_, t)
            for v, (tab, stt) in list(ins["views"].items()):
                if stt == f"cond:{nv}":
                    ins["views"][v] = (tab, "stale")
            for v, (tab, stt) in list(noins["views"].items()):
                if stt == f"cond:{nv}":
                    noins["views"][v] = (tab, "valid")
        self._events(test, t)
        return t, f_

    def _check_uses_except_nvars(self, test, s):
        self._check_uses(test, s)

    def bind_loop_target(self, node, s):
        self._cur_stmt = node.iter
        self._check_uses(node.iter, s)
        return s


def check_views(ctx: CheckContext, eng: InvalEngine, funcs: List[FuncInfo], rule: str = "INVAL"):
    ctx.rule(rule + "-I1", "no read or write through a column view of a table on any path after a row insertion / buffer replacement of that table without re-fetching "
                           "(the insertion count n == 0 edge keeps views valid)")
    total_views = 0
    for f in funcs:
        if isinstance(f.node, ast.Lambda) or f.cls is eng.pt:
            continue
        has_event = any(isinstance(n, ast.Call) and eng._event_of_call(f, n) for n in body_nodes(f))
        if not has_event:
            continue
        fl = _ViewFlow(eng, f, ctx, rule)
        fl.run(f.node, {"views": {}, "nvars": {}})
        total_views += fl.view_sites
        bad = [o for o in ctx.obligations if o.rule == rule + "-I1" and not o.ok and o.key.startswith(f.qualname + ":")]
        ctx.ob(rule + "-I1", f"{f.qualname}:views", f.loc, True,
               f"{fl.view_sites} view fetch(es), {fl.uses_checked} view use(s) checked, {len(bad)} stale")
    return total_views


# ---------------------------------------------------------------------------------------- indices
def _guards_of(f: FuncInfo) -> Dict[int, frozenset]:
    """id(stmt) -> set of (flag name, polarity) literals from enclosing `if <name>` / `if not <name>` tests."""
    out: Dict[int, frozenset] = {}

    def walk(stmts, g):
        for st in stmts:
            out[id(st)] = g
            if isinstance(st, ast.If):
                lit = None
                if isinstance(st.test, ast.Name):
                    lit = (st.test.id, True)
                elif isinstance(st.test, ast.UnaryOp) and isinstance(st.test.op, ast.Not) and isinstance(st.test.operand, ast.Name):
                    lit = (st.test.operand.id, False)
                walk(st.body, g | {lit} if lit else g)
                walk(st.orelse, g | {(lit[0], not lit[1])} if lit else g)
            else:
                for fld in ("body", "orelse", "finalbody"):
                    sub = getattr(st, fld, None)
                    if isinstance(sub, list) and sub and isinstance(sub[0], ast.stmt):
                        walk(sub, g)
                for h in getattr(st, "handlers", []):
                    walk(h.body, g)
    walk(f.node.body, frozenset())
    return out


def _compatible(g1: frozenset, g2: frozenset) -> bool:
    return not any((n, not p) in g2 for (n, p) in g1)


def _block_of(f: FuncInfo, stmt: ast.stmt) -> List[ast.stmt]:
    found = None

    def walk(stmts):
        nonlocal found
        if any(s is stmt for s in stmts):
            found = stmts
            return
        for st in stmts:
            for fld in ("body", "orelse", "finalbody"):
                sub = getattr(st, fld, None)
                if isinstance(sub, list) and sub and isinstance(sub[0], ast.stmt):
                    walk(sub)
            for h in getattr(st, "handlers", []):
                walk(h.body)
    walk(f.node.body)
    return found or []


def _enclosing_loops(f: FuncInfo, stmt: ast.stmt) -> List[ast.stmt]:
    path: List[ast.stmt] = []

    def walk(stmts, loops):
        for st in stmts:
            if st is stmt:
                path.extend(loops)
                return True
            nl = loops + [st] if isinstance(st, (ast.For, ast.While)) else loops
            for fld in ("body", "orelse", "finalbody"):
                sub = getattr(st, fld, None)
                if isinstance(sub, list) and sub and isinstance(sub[0], ast.stmt):
                    if walk(sub, nl):
                        return True
        return False
    walk(f.node.body, [])
    return path


def check_indices(ctx: CheckContext, eng: InvalEngine, funcs: List[FuncInfo], rule: str = "INVAL"):
    ctx.rule(rule + "-I2", "row-index variables passed to a callee that may insert rows into the same table are re-bound from the callee's result before their next use")
    ctx.rule(rule + "-I3", "copy coherence: when a row index is rebased after an insertion (`b += n`), every live plain copy `a = b` taken under a compatible guard is rebased "
                           "in the same block (the code's own belief that the row moved is applied to all aliases of that row)")
    r = eng.r
    n_i2 = n_i3 = 0
    for f in funcs:
        if isinstance(f.node, ast.Lambda) or f.cls is eng.pt:
            continue
        nodes = body_nodes(f)
        # ---- event result variables (n = X.insert_temperature_interval(...))
        nvars: Set[str] = set()
        for n in nodes:
            if isinstance(n, ast.Assign) and len(n.targets) == 1 and isinstance(n.targets[0], ast.Name) and isinstance(n.value, ast.Call):
                if any(k == "rows" for _, k in eng._event_of_call(f, n.value)) and isinstance(n.value.func, ast.Attribute) \
                        and n.value.func.attr == "insert_temperature_interval":
                    nvars.add(n.targets[0].id)
        # ---- I2: calls to summarised callees with int-like variables next to the table
        for n in nodes:
            if not isinstance(n, (ast.Assign, ast.Expr)):
                continue
            call = n.value if isinstance(n.value, ast.Call) else None
            if call is None:
                continue
            for t in r.resolve_call(f, call):
                if not (isinstance(t, FuncInfo) and t in eng.summary and "rows" in eng.summary[t].values()):
                    continue
                # which params of the callee are row indices? -> those it returns alongside the table
                rets = [x for x in body_nodes(t) if isinstance(x, ast.Return) and isinstance(x.value, ast.Tuple)]
                idx_params = set()
                for rt in rets:
                    for e in rt.value.elts:
                        if isinstance(e, ast.Name) and e.id in t.pos_params and e.id not in eng.summary[t]:
                            idx_params.add(e.id)
                if not idx_params:
                    continue
                passed: Dict[str, str] = {}
                pos = t.pos_params
                for i, a in enumerate(call.args):
                    if i < len(pos) and pos[i] in idx_params and isinstance(a, ast.Name):
                        passed[pos[i]] = a.id
                for k in call.keywords:
                    if k.arg in idx_params and isinstance(k.value, ast.Name):
                        passed[k.arg] = k.value.id
                if not passed:
                    continue
                rebound: Set[str] = set()
                if isinstance(n, ast.Assign):
                    for tg in n.targets:
                        for e in (tg.elts if isinstance(tg, (ast.Tuple, ast.List)) else [tg]):
                            if isinstance(e, ast.Name):
                                rebound.add(e.id)
                for pn, var in sorted(passed.items()):
                    # is var read after this statement?
                    later = any(isinstance(x, ast.Name) and x.id == var and isinstance(x.ctx, ast.Load) and x.lineno > n.end_lineno for x in nodes) \
                        or bool(_enclosing_loops(f, n))
                    ok = var in rebound or not later
                    n_i2 += 1
                    ctx.ob(rule + "-I2", f"{f.qualname}:{var}@{norm_stmt(call)[:80]}", f"{f.module.relpath}:{n.lineno}", ok,
                           "" if ok else f"row index '{var}' is passed to {t.name}, which may insert rows, and is used afterwards without being re-bound from its result")
        # ---- I3
        if not nvars:
            continue
        guards = _guards_of(f)
        stmts = [n for n in nodes if isinstance(n, ast.stmt)]
        copies: List[Tuple[str, str, ast.stmt, frozenset]] = []     # (a, b, stmt, extra guard)  a = b
        for st in stmts:
            if isinstance(st, ast.Assign) and len(st.targets) == 1 and isinstance(st.targets[0], ast.Name):
                v = st.value
                if isinstance(v, ast.Name):
                    copies.append((st.targets[0].id, v.id, st, frozenset()))
                elif isinstance(v, ast.IfExp) and isinstance(v.body, ast.Name) and isinstance(v.orelse, ast.Name):
                    # a = b if flag else c  : two guarded copies
                    lit = None
                    if isinstance(v.test, ast.Name):
                        lit = (v.test.id, True)
                    elif isinstance(v.test, ast.UnaryOp) and isinstance(v.test.op, ast.Not) and isinstance(v.test.operand, ast.Name):
                        lit = (v.test.operand.id, False)
                    if lit is not None:
                        copies.append((st.targets[0].id, v.body.id, st, frozenset([lit])))
                        copies.append((st.targets[0].id, v.orelse.id, st, frozenset([(lit[0], not lit[1])])))

        def rebase_of(s2):
            aa = aug_add(s2)
            if aa is not None and isinstance(aa[0], ast.Name) and isinstance(aa[1], ast.Name) and aa[1].id in nvars:
                return aa[0].id, aa[1].id
            return None
        rebases = [st for st in stmts if rebase_of(st) is not None]
        for rb in rebases:
            b, nv = rebase_of(rb)
            blk = _block_of(f, rb)
            rebased_here = {rebase_of(s2)[0] for s2 in blk if rebase_of(s2) is not None and rebase_of(s2)[1] == nv}
            for (a, src, cst, extra) in copies:
                other = a if src == b else (src if a == b else None)
                if other is None or other == b:
                    continue
                if not _compatible(guards.get(id(cst), frozenset()) | extra, guards.get(id(rb), frozenset())):
                    continue
                # the copy relation must still hold at the rebase: neither side plainly re-assigned in between (textually, same loop nest)
                broken = False
                for st in stmts:
                    if isinstance(st, ast.Assign) and cst.lineno < st.lineno < rb.lineno and rebase_of(st) is None \
                            and _compatible(guards.get(id(st), frozenset()), guards.get(id(cst), frozenset()) | extra):
                        for tg in st.targets:
                            for e in (tg.elts if isinstance(tg, (ast.Tuple, ast.List)) else [tg]):
                                if isinstance(e, ast.Name) and e.id in (a, src) and st is not cst:
                                    broken = True
                # a copy taken INSIDE the same loop iteration before an intervening reassignment is not an alias any more
                if broken:
                    continue
                live = any(isinstance(x, ast.Name) and x.id == other and isinstance(x.ctx, ast.Load) and x.lineno > rb.lineno for x in nodes)
                for lp in _enclosing_loops(f, rb):
                    if any(isinstance(x, ast.Name) and x.id == other and isinstance(x.ctx, ast.Load) for x in ast.walk(lp)):
                        live = True
                if not live:
                    continue
                n_i3 += 1
                ok = other in rebased_here
                ctx.ob(rule + "-I3", f"{f.qualname}:{other}~{b}@{norm_stmt(rb)}", f"{f.module.relpath}:{rb.lineno}", ok,
                       "" if ok else f"'{b}' is rebased by the number of inserted rows but its live copy '{other}' (taken at line {cst.lineno}: {norm_stmt(cst)}) "
                                     f"is not, and is read afterwards: the two now name different rows")
    return n_i2, n_i3


# ---------------------------------------------------------------------------------------- derived values, source columns, mirrored branches
def check_stale_derived(ctx: CheckContext, eng: InvalEngine, funcs: List[FuncInfo], rule: str = "INVAL"):
    """I4: a value computed from row indices (e.g. a range object, an offset) before a call that may insert rows - whose result
    re-binds those indices - is stale afterwards; using it addresses the wrong rows."""
    ctx.rule(rule + "-I4", "a variable computed from row indices before a row-inserting call that re-binds those indices is not used after that call "
                           "without being recomputed")
    r = eng.r
    n = 0
    for f in funcs:
        if isinstance(f.node, ast.Lambda) or f.cls is eng.pt:
            continue
        nodes = body_nodes(f)
        stmts = [x for x in nodes if isinstance(x, ast.stmt)]
        for st in stmts:
            if not (isinstance(st, ast.Assign) and isinstance(st.value, ast.Call)):
                continue
            if not any(isinstance(t, FuncInfo) and t in eng.summary and "rows" in eng.summary[t].values() for t in r.resolve_call(f, st.value)):
                continue
            rebound = set()
            for tg in st.targets:
                for e in (tg.elts if isinstance(tg, (ast.Tuple, ast.List)) else [tg]):
                    if isinstance(e, ast.Name):
                        rebound.add(e.id)
            passed = {a.id for a in st.value.args if isinstance(a, ast.Name)} | {k.value.id for k in st.value.keywords if isinstance(k.value, ast.Name)}
            idx_vars = {v for v in rebound & passed if eng.r.type_of(f, ast.Name(id=v, ctx=ast.Load())) is not eng.pt}
            if not idx_vars:
                continue
            # derived values assigned before the call from those indices
            for d in stmts:
                if d.lineno >= st.lineno or not isinstance(d, ast.Assign) or len(d.targets) != 1 or not isinstance(d.targets[0], ast.Name):
                    continue
                dv = d.targets[0].id
                if dv in idx_vars or dv in rebound:
                    continue
                srcs = {x.id for x in ast.walk(d.value) if isinstance(x, ast.Name)} & idx_vars
                if not srcs:
                    continue
                # pure copies are handled by I3; here: ranges / arithmetic
                if isinstance(d.value, ast.Name):
                    continue
                reassigned_after = any(isinstance(x, ast.Assign) and any(isinstance(t, ast.Name) and t.id == dv for t in x.targets) and x.lineno > st.lineno for x in stmts)
                used_after = [x for x in nodes if isinstance(x, ast.Name) and x.id == dv and isinstance(x.ctx, ast.Load) and x.lineno > st.end_lineno]
                if not used_after:
                    continue
                n += 1
                first_use = min(u.lineno for u in used_after)
                ok = reassigned_after and all(any(isinstance(x, ast.Assign) and any(isinstance(t, ast.Name) and t.id == dv for t in x.targets)
                                                  and st.lineno < x.lineno <= first_use for x in stmts) for _ in [0])
                ctx.ob(rule + "-I4", f"{f.qualname}:{dv}@{norm_stmt(d)}", f"{f.module.relpath}:{first_use}", ok,
                       "" if ok else f"'{dv}' is computed from {sorted(srcs)} (line {d.lineno}) before `{norm_stmt(st)[:70]}` may insert rows and re-binds them; "
                                     f"its use at line {first_use} addresses the rows as they were numbered before the insertion")
    return n


def check_source_column_readonly(ctx: CheckContext, eng: InvalEngine, rule: str = "SRC-RO"):
    """Functions that derive column <dst> from column <src> (both given as parameters) never store into <src>."""
    ctx.rule(rule, "the pocket-removal functions take a source column and a destination column: every store goes to the destination "
                   "(or the destination is initialised from the source); the source curve itself is never modified")
    m = eng.p.modules.get("OpenPinch.analysis.gcc_manipulation")
    if m is None:
        raise AnalysisError("gcc_manipulation module not found")
    n = 0
    for f in [x for x in eng.p.all_funcs if x.module is m and not isinstance(x.node, ast.Lambda)]:
        params = [a for a in f.pos_params if a.startswith("col_")]
        if len(params) < 2:
            continue
        # destination = the column parameter that is assigned as a whole from the other (pt.col[dst] = pt.col[src]) or, failing that, the one with more stores
        stores: Dict[str, List[ast.AST]] = {a: [] for a in params}
        views: Dict[str, str] = {}
        for x in body_nodes(f):
            if isinstance(x, ast.Assign):
                tg = x.targets[0]
                pairs = list(zip(tg.elts, x.value.elts)) if isinstance(tg, (ast.Tuple, ast.List)) and isinstance(x.value, (ast.Tuple, ast.List)) and len(tg.elts) == len(x.value.elts) else [(tg, x.value)]
                for t1, v1 in pairs:
                    if isinstance(t1, ast.Name) and isinstance(v1, ast.Subscript) and isinstance(v1.slice, ast.Name) and v1.slice.id in params:
                        views[t1.id] = v1.slice.id
        for x in body_nodes(f):
            tgs = []
            if isinstance(x, ast.Assign):
                tgs = x.targets
            elif isinstance(x, ast.AugAssign):
                tgs = [x.target]
            for t in tgs:
                for sub in ast.walk(t):
                    if isinstance(sub, ast.Subscript) and isinstance(sub.ctx, ast.Store):
                        names = {y.id for y in ast.walk(sub) if isinstance(y, ast.Name)}
                        for a in params:
                            if a in names or any(views.get(nm) == a for nm in names):
                                stores[a].append(x)
        dst = None
        for x in body_nodes(f):
            if isinstance(x, ast.Assign) and isinstance(x.targets[0], ast.Subscript) and isinstance(x.targets[0].slice, ast.Name) and x.targets[0].slice.id in params \
                    and isinstance(x.value, ast.Subscript) and isinstance(x.value.slice, ast.Name) and x.value.slice.id in params and x.value.slice.id != x.targets[0].slice.id:
                dst = x.targets[0].slice.id
        if dst is None:
            np_like = [a for a in params if a.upper().endswith("_NP") or "NP" in a.upper()]
            dst = np_like[0] if np_like else max(params, key=lambda a: len(stores[a]))
        for a in params:
            if a == dst:
                continue
            for st in stores[a]:
                n += 1
                ctx.ob(rule, f"{f.qualname}:{norm_stmt(st)}", f"{f.module.relpath}:{st.lineno}", False,
                       f"{f.name} writes into the source column '{a}' (destination is '{dst}'): the grand composite curve itself is modified")
        n += 1
        if not any(stores[a] for a in params if a != dst):
            ctx.ob(rule, f"{f.qualname}:source-untouched", f.loc, True, f"destination '{dst}', {len(stores[dst])} store(s); source columns read-only")
    return n


def _negate_offsets(node: ast.AST) -> ast.AST:
    """mirror image of an index expression tree: x + c <-> x - c for integer constants, range(a, b, -1) <-> range(a, b)"""
    import copy

    class T(ast.NodeTransformer):
        def visit_BinOp(self, n):
            self.generic_visit(n)
            if isinstance(n.right, ast.Constant) and isinstance(n.right.value, int) and isinstance(n.op, (ast.Add, ast.Sub)):
                n.op = ast.Sub() if isinstance(n.op, ast.Add) else ast.Add()
            return n

        def visit_Call(self, n):
            self.generic_visit(n)
            if isinstance(n.func, ast.Name) and n.func.id == "range":
                if len(n.args) == 3 and isinstance(n.args[2], ast.UnaryOp) and isinstance(n.args[2].op, ast.USub):
                    n.args = n.args[:2]
                elif len(n.args) == 2:
                    n.args = n.args + [ast.UnaryOp(op=ast.USub(), operand=ast.Constant(value=1))]
            return n
    return T().visit(copy.deepcopy(node))


def check_mirrored_branches(ctx: CheckContext, eng: InvalEngine, rule: str = "MIRROR"):
    """`if sgn > 0: A else: B` where both branches scan rows in opposite directions: B must be the mirror image of A
    (every +c offset becomes -c, the range runs backwards) - sibling implementations of one search must agree."""
    ctx.rule(rule, "the upward and the downward branch of a direction-dependent row scan are mirror images of each other (offsets negated, range reversed)")
    m = eng.p.modules.get("OpenPinch.analysis.gcc_manipulation")
    n = 0
    for f in [x for x in eng.p.all_funcs if x.module is m and not isinstance(x.node, ast.Lambda)]:
        for st in f.node.body:
            if isinstance(st, ast.If) and isinstance(st.test, ast.Compare) and len(st.test.ops) == 1 and isinstance(st.test.left, ast.Name) \
                    and st.test.left.id in f.pos_params and isinstance(st.test.comparators[0], ast.Constant) and st.test.comparators[0].value == 0 \
                    and st.body and st.orelse and any(isinstance(x, ast.For) for x in st.body) and any(isinstance(x, ast.For) for x in st.orelse):
                n += 1
                a = ast.dump(ast.Module(body=st.body, type_ignores=[]))
                b = ast.dump(_negate_offsets(ast.Module(body=st.orelse, type_ignores=[])))
                ok = a == b
                ctx.ob(rule, f"{f.qualname}:{norm_stmt(st.test)}", f"{f.module.relpath}:{st.lineno}", ok,
                       "" if ok else f"the two direction branches of {f.name} are not mirror images: "
                                     f"`{ast.unparse(st.body[0]).splitlines()[0]}` vs `{ast.unparse(st.orelse[0]).splitlines()[0]}` (one side scans a different row range)")
    return n


# =========================================================================================
# BETWEEN - the rows strictly between the hot and the cold pinch are flattened, all of them, on every path
# =========================================================================================
def _norm_plus(e: ast.AST):
    """(name, offset) for  name | name + k | k + name | name - k ; None otherwise"""
    if isinstance(e, ast.Name):
        return e.id, 0
    if isinstance(e, ast.BinOp) and isinstance(e.op, (ast.Add, ast.Sub)):
        l, rr = e.left, e.right
        if isinstance(l, ast.Name) and isinstance(rr, ast.Constant) and isinstance(rr.value, int):
            return l.id, rr.value if isinstance(e.op, ast.Add) else -rr.value
        if isinstance(e.op, ast.Add) and isinstance(rr, ast.Name) and isinstance(l, ast.Constant) and isinstance(l.value, int):
            return rr.id, l.value
    return None


def check_between_pinches(ctx: CheckContext, p: Program, r: Resolver, rule: str = "BETWEEN"):
    """In the function that looks the pinch rows up (`hot, cold, valid = table.pinch_idx(...)`) and starts the pocket sweeps, the pocket-free column is
    set to 0 on rows hot+1 .. cold-1: the bounds are exactly range(hot + 1, cold) / [hot + 1 : cold], the store goes through a table accessor, and no
    return other than the `not valid` exit stands between the lookup and the store."""
    ctx.rule(rule, "the pocket-free curve is zero strictly between the two pinches: a store of 0 over range(hot+1, cold) (loop or slice, in the function or a "
                   "helper given both rows) exists, has exactly these bounds, and is not by-passed by an early return")
    n = 0
    for f in p.all_funcs:
        if isinstance(f.node, ast.Lambda) or "gcc" not in f.module.name.rsplit(".", 1)[-1].lower():
            continue
        look = None
        for st in f.node.body:
            if isinstance(st, ast.Assign) and isinstance(st.targets[0], ast.Tuple) and len(st.targets[0].elts) == 3 and isinstance(st.value, ast.Call) \
                    and isinstance(st.value.func, ast.Attribute) and st.value.func.attr == "pinch_idx" and all(isinstance(e, ast.Name) for e in st.targets[0].elts):
                look = st
        if look is None:
            continue
        H, C, V = [e.id for e in look.targets[0].elts]
        if "hot" not in H.lower() or "cold" not in C.lower():
            continue
        # does the function hand both rows on to a sweep?  (otherwise it is not the flattening entry)
        sweeps = [c for c in body_nodes(f) if isinstance(c, ast.Call) and {H, C} <= {a.id for a in c.args if isinstance(a, ast.Name)} | {k.value.id for k in c.keywords if isinstance(k.value, ast.Name)}]
        if not sweeps:
            continue

        def zero_sites(g: FuncInfo, hn: str, cn: str):
            """(node, lo, hi, kind) of stores of 0 whose row range is written in terms of hn / cn"""
            out = []
            for nd in body_nodes(g):
                if isinstance(nd, ast.For) and isinstance(nd.iter, ast.Call) and isinstance(nd.iter.func, ast.Name) and nd.iter.func.id == "range" and len(nd.iter.args) == 2 \
                        and isinstance(nd.target, ast.Name):
                    names = {x.id for a in nd.iter.args for x in ast.walk(a) if isinstance(x, ast.Name)}
                    if hn in names or cn in names:
                        for s2 in nd.body:
                            if isinstance(s2, ast.Assign) and isinstance(s2.value, ast.Constant) and s2.value.value == 0 and isinstance(s2.targets[0], ast.Subscript) \
                                    and nd.target.id in {x.id for x in ast.walk(s2.targets[0].slice) if isinstance(x, ast.Name)}:
                                out.append((nd, nd.iter.args[0], nd.iter.args[1], "loop", s2.targets[0]))
                if isinstance(nd, ast.Assign) and isinstance(nd.value, ast.Constant) and nd.value.value == 0 and isinstance(nd.targets[0], ast.Subscript):
                    sl = nd.targets[0].slice
                    parts = sl.elts if isinstance(sl, ast.Tuple) else [sl]
                    for part in parts:
                        if isinstance(part, ast.Slice) and part.lower is not None and part.upper is not None:
                            names = {x.id for x in ast.walk(part) if isinstance(x, ast.Name)}
                            if hn in names or cn in names:
                                out.append((nd, part.lower, part.upper, "slice", nd.targets[0]))
            return out

        sites = [(f, s_) for s_ in zero_sites(f, H, C)]
        for call in [c for c in body_nodes(f) if isinstance(c, ast.Call)]:
            for t in r.resolve_call(f, call):
                if isinstance(t, FuncInfo) and not isinstance(t.node, ast.Lambda) and t is not f:
                    off = 0
                    amap = {}
                    for i, a in enumerate(call.args):
                        if isinstance(a, ast.Name) and i < len(t.pos_params):
                            amap[a.id] = t.pos_params[i]
                    for k in call.keywords:
                        if k.arg and isinstance(k.value, ast.Name):
                            amap[k.value.id] = k.arg
                    if H in amap and C in amap:
                        sites += [(t, s_) for s_ in zero_sites(t, amap[H], amap[C]) if True]
                        sites = [(g, s_) if g is not t else (g, s_ + (amap[H], amap[C])) for g, s_ in sites]
        if not sites:
            mentions = [nd for nd in body_nodes(f) if isinstance(nd, (ast.Slice, ast.Call)) and {H, C} <= {x.id for x in ast.walk(nd) if isinstance(x, ast.Name)}
                        and not (isinstance(nd, ast.Call) and nd in sweeps)]
            if mentions:
                ctx.info.setdefault("between_undecided", []).append(f"{f.qualname}: rows between the pinches are handled in a form not interpreted")
                continue
            n += 1
            ctx.ob(rule, f"{f.qualname}:exists", f.loc, False,
                   f"{f.name} looks up the hot and cold pinch rows and sweeps both sides, but no statement sets the pocket-free column to 0 on the rows between "
                   f"the two pinches: a pocket enclosed by two pinches survives in the pocket-free curve")
            continue
        for g, site in sites:
            nd, lo, hi, kind, tgt = site[:5]
            hn, cn = (site[5], site[6]) if len(site) > 5 else (H, C)
            nlo, nhi = _norm_plus(lo), _norm_plus(hi)
            n += 1
            ok = nlo == (hn, 1) and nhi == (cn, 0)
            ctx.ob(rule, f"{g.qualname}:bounds", f"{g.module.relpath}:{nd.lineno}", ok,
                   "" if ok else f"the rows between the pinches are flattened over {'range(' if kind == 'loop' else '['}{ast.unparse(lo)}{', ' if kind == 'loop' else ' : '}{ast.unparse(hi)}"
                                 f"{')' if kind == 'loop' else ']'} instead of {hn} + 1 .. {cn} (exclusive): "
                                 + ("the last row before the cold pinch keeps its pocket value" if nhi == (cn, -1) else "a row that must be flattened is left out or a pinch row is overwritten"))
        # no early return between the lookup and the first store (other than `if not valid: return`)
        body = f.node.body
        i0 = body.index(look)
        first = None
        for j in range(i0 + 1, len(body)):
            if any(any(x is s_[0] for x in ast.walk(body[j])) for g, s_ in sites if g is f) or \
                    any(isinstance(c, ast.Call) and any(t is g for g, _ in sites if g is not f for t in r.resolve_call(f, c)) for c in ast.walk(body[j])):
                first = j
                break
        if first is not None:
            for st in body[i0 + 1:first]:
                for x in ast.walk(st):
                    if isinstance(x, ast.Return):
                        owner = st
                        only_valid = isinstance(owner, ast.If) and {y.id for y in ast.walk(owner.test) if isinstance(y, ast.Name)} <= {V}
                        n += 1
                        ctx.ob(rule, f"{f.qualname}:early-return:{norm_stmt(owner.test) if isinstance(owner, ast.If) else 'return'}"[:120], f"{f.module.relpath}:{x.lineno}", only_valid,
                               "" if only_valid else f"{f.name} can return before the rows between the two pinches are flattened "
                                                     f"(`{ast.unparse(owner.test)[:80] if isinstance(owner, ast.If) else 'return'}`): on that path a pocket between the pinches survives")
    return n


# =========================================================================================
# ROUND-LAST - nothing is computed from a table after it has been rounded in place for export
# =========================================================================================
def check_round_last(ctx: CheckContext, p: Program, r: Resolver, funcs: List[FuncInfo], rule: str = "ROUND-LAST"):
    """ProblemTable.round() overwrites the buffer with values rounded to a few decimals (it is done once, to keep the graph payload small).  Every result -
    targets, pinch temperatures, utility duties - must have been read from the table before that: a value read afterwards carries the rounding error
    (5e-5 absolute, far above the 1e-6 the targets are specified to) and a residual below it becomes an exact zero, i.e. a spurious pinch."""
    ctx.rule(rule, "after a table has been rounded in place (X.round(...) as a statement, or a call of a function that does that to its parameter) the function does "
                   "not read the table's contents again (no X.col / X.loc / X.pinch_* / hand-over to another analysis function)")
    # functions that round a parameter in place
    rounds: Dict[FuncInfo, Set[str]] = {}
    for f in p.all_funcs:
        if isinstance(f.node, ast.Lambda):
            continue
        ps = set(f.pos_params)
        for st in body_nodes(f):
            if isinstance(st, ast.Expr) and isinstance(st.value, ast.Call) and isinstance(st.value.func, ast.Attribute) and st.value.func.attr == "round" \
                    and isinstance(st.value.func.value, ast.Name) and st.value.func.value.id in ps:
                rounds.setdefault(f, set()).add(st.value.func.value.id)
    n = 0
    for f in funcs:
        if isinstance(f.node, ast.Lambda) or f in rounds:
            continue
        # position (statement index in the flattened top-level body, and order inside the statement) of the first rounding per variable
        first: Dict[str, Tuple[int, int]] = {}
        body = f.node.body
        for i, st in enumerate(body):
            for c in ast.walk(st):
                if not isinstance(c, ast.Call):
                    continue
                if isinstance(c.func, ast.Attribute) and c.func.attr == "round" and isinstance(c.func.value, ast.Name) and isinstance(st, ast.Expr) and st.value is c:
                    first.setdefault(c.func.value.id, (i, c.col_offset + 10000 * c.lineno))
                for t in r.resolve_call(f, c):
                    if isinstance(t, FuncInfo) and t in rounds:
                        for k, a in enumerate(c.args):
                            if isinstance(a, ast.Name) and k < len(t.pos_params) and t.pos_params[k] in rounds[t]:
                                first.setdefault(a.id, (i, c.col_offset + 10000 * c.lineno))
                        for kw in c.keywords:
                            if kw.arg in rounds[t] and isinstance(kw.value, ast.Name):
                                first.setdefault(kw.value.id, (i, c.col_offset + 10000 * c.lineno))
        for tv, (i0, pos0) in first.items():
            n += 1
            bad = None
            for i, st in enumerate(body[i0:], start=i0):
                for x in ast.walk(st):
                    pos = getattr(x, "col_offset", 0) + 10000 * getattr(x, "lineno", 0)
                    if pos <= pos0:
                        continue
                    reads = False
                    if isinstance(x, ast.Attribute) and isinstance(x.value, ast.Name) and x.value.id == tv and isinstance(x.ctx, ast.Load) \
                            and (x.attr in ("col", "loc", "iloc", "icol", "data", "to_list") or x.attr.startswith("pinch")):
                        reads = True
                    if isinstance(x, ast.Call) and any(isinstance(a, ast.Name) and a.id == tv for a in list(x.args) + [k.value for k in x.keywords]):
                        tg = [t for t in r.resolve_call(f, x) if isinstance(t, FuncInfo)]
                        if tg and not any(t in rounds for t in tg) and not any(t.name.startswith("add_target") or t.cls is not None and t.name == "__init__" for t in tg):
                            reads = True
                    if reads and bad is None:
                        bad = x
            ctx.ob(rule, f"{f.qualname}:{tv}", f"{f.module.relpath}:{body[i0].lineno}", bad is None,
                   "" if bad is None else f"`{ast.unparse(bad)[:70]}` (line {bad.lineno}) reads table '{tv}' after it was rounded in place at line {body[i0].lineno}: "
                                          f"the value carries the export rounding (4 decimals) instead of the computed one")
    return n


# ------------------------------------------------------------------------------ COUNT-GUARD: data written to the table does not depend on the insertion count

def check_count_guard(ctx: CheckContext, eng: InvalEngine, funcs: List[FuncInfo], rule: str = "COUNT-GUARD") -> int:
    """In a function that inserts rows into a table and keeps the count (`n = X.insert_temperature_interval(T)`), the branch `if n > 0`
    exists to re-fetch views and re-base indices.  Whether a breakpoint had to be inserted says nothing about whether the curve has to be
    flattened / filled: a pocket that closes exactly on an existing row inserts nothing and still has to be flattened.  So no store into the
    table's contents (through a column view, a slice of it, or X.col[...] / X.loc[...]) may be control-dependent on the count."""
    ctx.rule(rule, "no store into a table's contents (through a column view or accessor) is control-dependent on the number of rows an insertion added: "
                   "under `if n_added > 0` only views are re-fetched and indices re-based; one obligation per count-guarded branch")
    n_ob = 0
    for f in funcs:
        if isinstance(f.node, ast.Lambda):
            continue
        counts: Dict[str, str] = {}
        for x in body_nodes(f):
            if isinstance(x, ast.Assign) and len(x.targets) == 1 and isinstance(x.targets[0], ast.Name) and isinstance(x.value, ast.Call):
                evs = eng._event_of_call(f, x.value)
                if any(k == "rows" for _v, k in evs) and isinstance(x.value.func, ast.Attribute) and x.value.func.attr in eng.events:
                    counts[x.targets[0].id] = evs[0][0]
        if not counts:
            continue
        tables = set(counts.values())
        views: Set[str] = set()
        for x in body_nodes(f):
            if isinstance(x, ast.Assign):
                tg = x.targets[0]
                pairs = list(zip(tg.elts, x.value.elts)) if isinstance(tg, (ast.Tuple, ast.List)) and isinstance(x.value, (ast.Tuple, ast.List)) \
                    and len(tg.elts) == len(x.value.elts) else [(tg, x.value)]
                for t1, v1 in pairs:
                    if isinstance(t1, ast.Name) and isinstance(v1, ast.Subscript) and any(isinstance(y, ast.Name) and y.id in tables for y in ast.walk(v1.value)):
                        views.add(t1.id)
        for x in body_nodes(f):
            if not isinstance(x, ast.If):
                continue
            used = [c for c in counts if any(isinstance(y, ast.Name) and y.id == c for y in ast.walk(x.test))]
            if not used:
                continue
            bad = []
            for st in x.body:                                  # the branch taken when rows were added (orelse: nothing added - same argument)
                for sub in ast.walk(st):
                    tgs = sub.targets if isinstance(sub, ast.Assign) else [sub.target] if isinstance(sub, ast.AugAssign) else []
                    for t in tgs:
                        for s2 in ast.walk(t):
                            if isinstance(s2, ast.Subscript) and isinstance(s2.ctx, ast.Store):
                                names = {y.id for y in ast.walk(s2.value) if isinstance(y, ast.Name)}
                                if names & views or names & tables:
                                    bad.append(sub)
            n_ob += 1
            key = f"{f.qualname}:count-guard:{ast.unparse(x.test)[:50]}"
            ctx.ob(rule, key, f"{f.module.relpath}:{x.lineno}", not bad,
                   "" if not bad else f"`{norm_stmt(bad[0])[:90]}` (line {bad[0].lineno}) writes table contents only when `{ast.unparse(x.test)}` - i.e. only when the "
                                      f"insertion added a row; when the breakpoint already exists (a pocket closing exactly on an existing row) the write is skipped")
    return n_ob

"""Scope-aware name resolution, light type inference, call resolution and call graph."""
from __future__ import annotations

import ast
from typing import Dict, Iterable, List, Optional, Set, Tuple

from .model import Binding, ClassInfo, FuncInfo, ModuleInfo, Program, dotted


def own_nodes(fnode: ast.AST) -> Iterable[ast.AST]:
    """All nodes of a function body, not descending into nested function/class definitions
    (lambdas and comprehensions ARE descended into: they run in the function's dynamic extent)."""
    stack = list(ast.iter_child_nodes(fnode))
    while stack:
        n = stack.pop()
        if isinstance(n, (ast.FunctionDef, ast.AsyncFunctionDef, ast.ClassDef)):
            continue
        yield n
        stack.extend(ast.iter_child_nodes(n))


def body_nodes(fi: FuncInfo) -> List[ast.AST]:
    """All nodes executed in the function's own frame (cached per function)."""
    cached = getattr(fi, "_body_nodes", None)
    if cached is not None:
        return cached
    out: List[ast.AST] = []
    body = fi.node.body if isinstance(fi.node.body, list) else [fi.node.body]
    for st in body:
        if isinstance(st, (ast.FunctionDef, ast.AsyncFunctionDef, ast.ClassDef)):
            continue
        out.append(st)
        out.extend(own_nodes(st))
    fi._body_nodes = out
    return out


def assigned_names(fi: FuncInfo) -> Set[str]:
    out: Set[str] = set()
    for n in body_nodes(fi):
        if isinstance(n, ast.Name) and isinstance(n.ctx, (ast.Store, ast.Del)):
            out.add(n.id)
        elif isinstance(n, ast.ExceptHandler) and n.name:
            out.add(n.name)
        elif isinstance(n, (ast.Import, ast.ImportFrom)):
            for a in n.names:
                out.add((a.asname or a.name).split(".")[0])
    return out


class Resolver:
    def __init__(self, prog: Program):
        self.p = prog
        self._locals: Dict[FuncInfo, Set[str]] = {}
        self._attr_types: Dict[ClassInfo, Dict[str, ClassInfo]] = {}
        self._local_types: Dict[FuncInfo, Dict[str, ClassInfo]] = {}
        self._calls: Dict[FuncInfo, List[Tuple[ast.Call, List[object]]]] = {}
        self._dispatch_tables: Dict[Tuple[str, str], List[FuncInfo]] = {}
        self._build_attr_types()

    # ------------------------------------------------------------------ scopes
    def locals_of(self, fi: FuncInfo) -> Set[str]:
        if fi not in self._locals:
            s = {a.arg for a in fi.params} | assigned_names(fi) | set(fi.nested)
            for n in body_nodes(fi):
                if isinstance(n, (ast.Global, ast.Nonlocal)):
                    s -= set(n.names)
            self._locals[fi] = s
        return self._locals[fi]

    def lookup(self, fi: Optional[FuncInfo], m: ModuleInfo, name: str) -> Optional[Binding]:
        """Resolve a bare name seen inside function `fi` (or at module level if fi is None)."""
        f = fi
        while f is not None:
            if name in f.nested:
                return Binding("func", f.nested[name])
            if name in self.locals_of(f):
                return Binding("local", (f, name))
            f = f.parent
        return self.p.deref_var(m.ns.get(name))

    def resolve_static(self, fi: Optional[FuncInfo], m: ModuleInfo, node: ast.AST) -> Optional[Binding]:
        """Resolve Name / Attribute chains through modules and classes."""
        return self.p.resolve_attr_chain(m, node, scope_lookup=lambda n: self.lookup(fi, m, n))

    # ------------------------------------------------------------------ class facts
    def mro(self, ci: ClassInfo) -> List[ClassInfo]:
        out = [ci]
        for b in ci.bases:
            bb = self.resolve_static(None, ci.module, b)
            if bb is not None and bb.kind == "class" and bb.target not in out:
                for c in self.mro(bb.target):
                    if c not in out:
                        out.append(c)
        return out

    def ext_bases(self, ci: ClassInfo) -> List[str]:
        out = []
        for c in self.mro(ci):
            for b in c.bases:
                bb = self.resolve_static(None, c.module, b)
                if bb is not None and bb.kind == "ext":
                    out.append(bb.target)
                elif bb is None:
                    d = dotted(b)
                    if d:
                        out.append(d)
        return out

    def find_method(self, ci: ClassInfo, name: str) -> Optional[FuncInfo]:
        for c in self.mro(ci):
            if name in c.methods:
                return c.methods[name]
        return None

    def find_setter(self, ci: ClassInfo, name: str) -> Optional[FuncInfo]:
        for c in self.mro(ci):
            if name in c.setters:
                return c.setters[name]
        return None

    def class_from_annotation(self, m: ModuleInfo, ann: Optional[ast.AST], fi: Optional[FuncInfo] = None) -> Optional[ClassInfo]:
        if ann is None:
            return None
        if isinstance(ann, ast.Constant) and isinstance(ann.value, str):
            try:
                ann = ast.parse(ann.value, mode="eval").body
            except SyntaxError:
                return None
        if isinstance(ann, ast.Subscript):
            d = dotted(ann.value) or ""
            if d.split(".")[-1] in ("Optional",):
                return self.class_from_annotation(m, ann.slice, fi)
            return None
        if isinstance(ann, ast.BinOp) and isinstance(ann.op, ast.BitOr):
            l = self.class_from_annotation(m, ann.left, fi)
            r = self.class_from_annotation(m, ann.right, fi)
            if l and not r and isinstance(ann.right, ast.Constant) and ann.right.value is None:
                return l
            if r and not l and isinstance(ann.left, ast.Constant) and ann.left.value is None:
                return r
            return None
        b = self.resolve_static(fi, m, ann)
        if b is not None and b.kind == "class":
            return b.target
        return None

    def _build_attr_types(self):
        # pass 1: fields assigned in __init__ (annotated or constructed)
        for ci in self.p.all_classes:
            self._attr_types[ci] = {}
        for ci in self.p.all_classes:
            at = self._attr_types[ci]
            for nm, ann in ci.class_attr_ann.items():
                t = self.class_from_annotation(ci.module, ann)
                if t:
                    at[nm] = t
            init = ci.methods.get("__init__")
            if init is None:
                continue
            ptypes = {a.arg: self.class_from_annotation(ci.module, a.annotation) for a in init.params}
            for n in body_nodes(init):
                tgt = val = ann = None
                if isinstance(n, ast.AnnAssign):
                    tgt, val, ann = n.target, n.value, n.annotation
                elif isinstance(n, ast.Assign) and len(n.targets) == 1:
                    tgt, val = n.targets[0], n.value
                if isinstance(tgt, ast.Attribute) and isinstance(tgt.value, ast.Name) and tgt.value.id == "self":
                    t = self.class_from_annotation(ci.module, ann, init) if ann is not None else None
                    if t is None and val is not None:
                        t = self._ctor_type(init, val, ptypes)
                    if t is not None:
                        at.setdefault(tgt.attr, t)
        # pass 2: property getters returning self._x
        for ci in self.p.all_classes:
            at = self._attr_types[ci]
            for nm, f in ci.methods.items():
                if f.is_property:
                    rets = [n for n in body_nodes(f) if isinstance(n, ast.Return)]
                    if len(rets) == 1 and isinstance(rets[0].value, ast.Attribute) and isinstance(rets[0].value.value, ast.Name) \
                            and rets[0].value.value.id == "self":
                        t = at.get(rets[0].value.attr)
                        if t is not None:
                            at.setdefault(nm, t)
                    if nm not in at and f.node.returns is not None:
                        t = self.class_from_annotation(ci.module, f.node.returns, f)
                        if t is not None:
                            at[nm] = t

    def _ctor_type(self, fi: FuncInfo, val: ast.AST, ptypes: Dict[str, Optional[ClassInfo]]) -> Optional[ClassInfo]:
        if isinstance(val, ast.Call):
            b = self.resolve_static(fi, fi.module, val.func)
            if b is not None and b.kind == "class":
                return b.target
            return None
        if isinstance(val, ast.BoolOp):
            for v in val.values:
                t = self._ctor_type(fi, v, ptypes)
                if t is not None:
                    return t
            return None
        if isinstance(val, ast.Name):
            return ptypes.get(val.id)
        if isinstance(val, ast.IfExp):
            return self._ctor_type(fi, val.body, ptypes) or self._ctor_type(fi, val.orelse, ptypes)
        return None

    def attr_type(self, ci: ClassInfo, attr: str) -> Optional[ClassInfo]:
        for c in self.mro(ci):
            t = self._attr_types.get(c, {}).get(attr)
            if t is not None:
                return t
        return None

    # ------------------------------------------------------------------ local types
    def local_types(self, fi: FuncInfo) -> Dict[str, ClassInfo]:
        """Flow-insensitive variable -> class map from sure sources only.  A variable with two
        different inferred classes is dropped (unknown)."""
        if fi in self._local_types:
            return self._local_types[fi]
        env: Dict[str, Optional[ClassInfo]] = {}
        conflict: Set[str] = set()

        def put(name: str, t: Optional[ClassInfo]):
            if t is None:
                return
            if name in env and env[name] is not t:
                conflict.add(name)
            env[name] = t

        self._local_types[fi] = env  # allow recursion guard
        if fi.cls is not None and fi.parent is None and not fi.is_static and fi.pos_params:
            if fi.is_classmethod:
                pass
            else:
                put(fi.pos_params[0], fi.cls)
        elif fi.parent is not None and fi.cls is not None:
            # nested function inside a method: 'self' is a free variable of the method
            pass
        for a in fi.params:
            put(a.arg, self.class_from_annotation(fi.module, a.annotation, fi))
        for _ in range(3):
            for n in body_nodes(fi):
                if isinstance(n, ast.AnnAssign) and isinstance(n.target, ast.Name):
                    put(n.target.id, self.class_from_annotation(fi.module, n.annotation, fi))
                    if n.value is not None:
                        put(n.target.id, self.type_of(fi, n.value, env))
                elif isinstance(n, ast.Assign) and len(n.targets) == 1 and isinstance(n.targets[0], ast.Name):
                    put(n.targets[0].id, self.type_of(fi, n.value, env))
                elif isinstance(n, ast.withitem) and isinstance(n.optional_vars, ast.Name):
                    put(n.optional_vars.id, self.type_of(fi, n.context_expr, env))
        for c in conflict:
            env.pop(c, None)
        return env

    def type_of(self, fi: FuncInfo, e: ast.AST, env: Optional[Dict[str, ClassInfo]] = None) -> Optional[ClassInfo]:
        if env is None:
            env = self.local_types(fi)
        if isinstance(e, ast.Name):
            if e.id in env:
                return env[e.id]
            # free variable of an enclosing function
            f = fi.parent
            while f is not None:
                if e.id in self.locals_of(f):
                    return self.local_types(f).get(e.id)
                f = f.parent
            return None
        if isinstance(e, ast.Attribute):
            bt = self.type_of(fi, e.value, env)
            if bt is not None:
                return self.attr_type(bt, e.attr)
            return None
        if isinstance(e, ast.Call):
            b = self.resolve_static(fi, fi.module, e.func)
            if b is not None and b.kind == "class":
                return b.target
            if b is not None and b.kind == "func":
                f: FuncInfo = b.target
                if f.is_classmethod and isinstance(e.func, ast.Attribute):
                    cb = self.resolve_static(fi, fi.module, e.func.value)
                    if cb is not None and cb.kind == "class":
                        rt = self.class_from_annotation(f.module, f.node.returns, f)
                        return rt or None
                return self.class_from_annotation(f.module, f.node.returns, f)
            if b is not None and b.kind == "ext" and b.target in ("copy.deepcopy", "copy.copy") and e.args:
                return self.type_of(fi, e.args[0], env)
            if isinstance(e.func, ast.Attribute):
                # Model.model_validate(x) / instance.model_copy(...) keep the class
                if e.func.attr in ("model_validate", "model_validate_json"):
                    cb = self.resolve_static(fi, fi.module, e.func.value)
                    if cb is not None and cb.kind == "class":
                        return cb.target
                if e.func.attr in ("model_copy", "copy"):
                    return self.type_of(fi, e.func.value, env)
                bt = self.type_of(fi, e.func.value, env)
                if bt is not None:
                    mth = self.find_method(bt, e.func.attr)
                    if mth is not None:
                        return self.class_from_annotation(mth.module, mth.node.returns, mth)
            return None
        if isinstance(e, ast.BoolOp):
            ts = [self.type_of(fi, v, env) for v in e.values]
            ts = [t for t in ts if t is not None]
            return ts[0] if ts and all(t is ts[0] for t in ts) else None
        if isinstance(e, ast.IfExp):
            a, b = self.type_of(fi, e.body, env), self.type_of(fi, e.orelse, env)
            return a if a is b else (a or b if (a is None or b is None) else None)
        if isinstance(e, ast.BinOp) and isinstance(e.op, ast.Add):
            a, b = self.type_of(fi, e.left, env), self.type_of(fi, e.right, env)
            if a is not None and a is b and self.find_method(a, "__add__") is not None:
                return a
        return None

    # ------------------------------------------------------------------ dispatch tables
    def dispatch_table(self, m: ModuleInfo, name: str) -> Optional[List[FuncInfo]]:
        """Module-level dict literal whose values are functions."""
        b = m.ns.get(name)
        if b is None or b.kind != "var":
            return None
        modname, nm, val = b.target
        key = (modname, nm)
        if key in self._dispatch_tables:
            return self._dispatch_tables[key]
        out: Optional[List[FuncInfo]] = None
        if isinstance(val, ast.Dict):
            fs = []
            ok = True
            for v in val.values:
                vb = self.resolve_static(None, self.p.modules[modname], v)
                if vb is not None and vb.kind == "func":
                    fs.append(vb.target)
                else:
                    ok = False
            if ok and fs:
                out = fs
        self._dispatch_tables[key] = out
        return out

    # ------------------------------------------------------------------ calls
    def _callable_from_value(self, fi: FuncInfo, val: ast.AST) -> List[object]:
        """Targets of calling a variable that was assigned `val`."""
        if isinstance(val, ast.Call) and isinstance(val.func, ast.Attribute) and val.func.attr == "get" and isinstance(val.func.value, ast.Name):
            tab = self.dispatch_table(fi.module, val.func.value.id)
            if tab:
                return list(tab)
        if isinstance(val, ast.Subscript) and isinstance(val.value, ast.Name):
            tab = self.dispatch_table(fi.module, val.value.id)
            if tab:
                return list(tab)
        if isinstance(val, (ast.Name, ast.Attribute)):
            b = self.resolve_static(fi, fi.module, val)
            if b is not None and b.kind in ("func", "class"):
                return [b.target]
        if isinstance(val, ast.Lambda):
            return []
        return []

    def resolve_call(self, fi: FuncInfo, call: ast.Call) -> List[object]:
        """Possible callees: FuncInfo, ClassInfo (constructor), or 'ext:<dotted>' strings.
        Empty list = unresolved."""
        f = call.func
        if isinstance(f, ast.Name):
            b = self.lookup(fi, fi.module, f.id)
            if b is None:
                return [f"builtin:{f.id}"]
            if b.kind == "func":
                return [b.target]
            if b.kind == "class":
                return [b.target]
            if b.kind == "ext":
                return [f"ext:{b.target}"]
            if b.kind == "local":
                owner, nm = b.target
                vals = []
                for n in body_nodes(owner):
                    if isinstance(n, ast.Assign) and any(isinstance(t, ast.Name) and t.id == nm for t in n.targets):
                        vals.append(n.value)
                out: List[object] = []
                for v in vals:
                    out += self._callable_from_value(owner, v)
                return out
            return []
        if isinstance(f, ast.Attribute):
            sb = self.resolve_static(fi, fi.module, f)
            if sb is not None:
                if sb.kind in ("func", "class"):
                    return [sb.target]
                if sb.kind == "ext":
                    return [f"ext:{sb.target}"]
            t = self.type_of(fi, f.value)
            if t is not None:
                mth = self.find_method(t, f.attr)
                if mth is not None:
                    return [mth]
                return [f"method:{t.name}.{f.attr}"]
            # Class.attr where class is package class but attr not a method (pydantic API etc.)
            cb = self.resolve_static(fi, fi.module, f.value)
            if cb is not None and cb.kind == "class":
                return [f"classapi:{cb.target.name}.{f.attr}"]
            return []
        return []

    def calls_of(self, fi: FuncInfo) -> List[Tuple[ast.Call, List[object]]]:
        if fi not in self._calls:
            out = []
            for n in body_nodes(fi):
                if isinstance(n, ast.Call):
                    out.append((n, self.resolve_call(fi, n)))
            self._calls[fi] = out
        return self._calls[fi]

    def implicit_calls(self, fi: FuncInfo) -> List[FuncInfo]:
        """Property getters/setters, operators and iteration protocol on typed receivers."""
        out: List[FuncInfo] = []
        for n in body_nodes(fi):
            if isinstance(n, ast.Attribute):
                t = self.type_of(fi, n.value)
                if t is not None:
                    if isinstance(n.ctx, ast.Load):
                        g = self.find_method(t, n.attr)
                        if g is not None and g.is_property:
                            out.append(g)
                    else:
                        s = self.find_setter(t, n.attr)
                        if s is not None:
                            out.append(s)
            elif isinstance(n, ast.BinOp) and isinstance(n.op, ast.Add):
                t = self.type_of(fi, n.left)
                if t is not None:
                    g = self.find_method(t, "__add__")
                    if g is not None:
                        out.append(g)
            elif isinstance(n, (ast.For, ast.comprehension)):
                t = self.type_of(fi, n.iter)
                if t is not None:
                    g = self.find_method(t, "__iter__")
                    if g is not None:
                        out.append(g)
            elif isinstance(n, ast.Subscript):
                t = self.type_of(fi, n.value)
                if t is not None:
                    g = self.find_method(t, "__getitem__" if isinstance(n.ctx, ast.Load) else "__setitem__")
                    if g is not None:
                        out.append(g)
            elif isinstance(n, ast.Call) and isinstance(n.func, ast.Name) and n.func.id == "len" and n.args:
                t = self.type_of(fi, n.args[0])
                if t is not None:
                    g = self.find_method(t, "__len__")
                    if g is not None:
                        out.append(g)
        return out

    def callees(self, fi: FuncInfo) -> List[FuncInfo]:
        out: List[FuncInfo] = []
        for call, tg in self.calls_of(fi):
            for t in tg:
                if isinstance(t, FuncInfo):
                    out.append(t)
                elif isinstance(t, ClassInfo):
                    init = self.find_method(t, "__init__")
                    if init is not None:
                        out.append(init)
        out += self.implicit_calls(fi)
        out += list(fi.nested.values())   # nested functions are (conservatively) reachable from their owner
        return out

    def reachable(self, roots: Iterable[FuncInfo]) -> List[FuncInfo]:
        seen: List[FuncInfo] = []
        ss = set()
        stack = list(roots)
        while stack:
            f = stack.pop()
            if f in ss:
                continue
            ss.add(f)
            seen.append(f)
            stack.extend(self.callees(f))
        return seen

    def pipeline_roots(self) -> List[FuncInfo]:
        roots = []
        main = self.p.modules["OpenPinch.main"]
        for n in ("pinch_analysis_service", "get_targets", "extract_results"):
            f = main.funcs.get(n)
            if f is None:
                from .model import AnalysisError
                raise AnalysisError(f"pipeline root OpenPinch.main:{n} not found")
            roots.append(f)
        pp = self.p.find_class("PinchProblem")
        if pp is not None:
            for nm, f in pp.methods.items():
                if not nm.startswith("_") or nm == "__init__":
                    if nm != "render_streamlit_dashboard":
                        roots.append(f)
        return roots

    def pipeline_cone(self) -> List[FuncInfo]:
        return self.reachable(self.pipeline_roots())

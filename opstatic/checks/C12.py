"""C12 (part) - structural necessary conditions of 'results are invariant under equivalent descriptions':
parallel branches / split streams are distinct records and are never merged by their attributes (DEDUP-ID, WHO); a uniform translation may put
any temperature on 0, which must not be read as 'missing' (TRUTHY); mirroring swaps the sides, so the per-side segment selection must not wrap on
one side only (WRAP) and the two direction branches of the pocket sweep must mirror each other (MIRROR); iteration order of a collection is the
sorted order on every path (MEMO), so the listing order of the input cannot leak."""
import ast

from ..core.model import AnalysisError, Program
from ..core.report import CheckContext
from ..core.resolve import Resolver
from ..rules import bookkeeping as bk, classflow, dedup, inval
from .common import run_control, generic_rules, anchor_funcs


def analyse(ctx: CheckContext, p: Program):
    r = Resolver(p)
    ctx.guard(generic_rules, ctx, p, r, "C12")
    ctx.guard(_specific, ctx, p, r)


def _specific(ctx: CheckContext, p: Program, r: Resolver):
    ctx.guard(dedup.check_identity_dedup, ctx, p, r, anchor_funcs(p, "C12"))
    ctx.guard(bk.check_wrap, ctx, p, r, [f for f in p.all_funcs if f.module.name in ("OpenPinch.analysis.utility_targeting", "OpenPinch.analysis.gcc_manipulation")])
    eng = inval.InvalEngine(p, r)
    ctx.guard(inval.check_mirrored_branches, ctx, eng)
    sc = p.find_class("StreamCollection")
    if sc is None:
        raise AnalysisError("StreamCollection class not found")
    pats = classflow.find_dirty_flag_memo(r, sc)
    if len(pats) != 1:
        raise AnalysisError(f"StreamCollection: expected one dirty-flag sort cache, found {len(pats)}")
    ctx.rule("MEMO", "dirty-flag sort cache: every member write leaves the cache invalid at every normal exit (M1); every cache read is dominated by the recompute (M2) - "
                     "so iteration is in sorted order whatever the insertion order was")
    ctx.guard(classflow.check_memo, ctx, r, pats[0], "MEMO")
    init = sc.methods["__init__"]
    maps = []
    for n in ast.walk(init.node):
        tgt = n.target if isinstance(n, ast.AnnAssign) else (n.targets[0] if isinstance(n, ast.Assign) else None)
        if tgt is not None and isinstance(getattr(n, "value", None), ast.Dict) and classflow.self_attr(tgt, "self") in pats[0].sources:
            maps.append(classflow.self_attr(tgt, "self"))
    if len(maps) == 1:
        classflow.check_who_member_map(ctx, r, sc, maps[0])


def run(ctx: CheckContext):
    p = Program()
    analyse(ctx, p)
    ctx.floor("MEMO-M1", 4)
    ctx.floor("MEMO-M2", 3)
    ctx.floor("WRAP", 2)
    ctx.assumptions += [
        "decides structural necessary conditions only: the relation between two runs (permutation, split, translation, scaling, mirroring) is decided at run time by "
        "absolute tolerances, sort stability and floating-point summation order, and is NOT decided here",
    ]
    d = "OpenPinch/analysis/data_preparation.py"
    sc = "OpenPinch/classes/stream_collection.py"
    ut = "OpenPinch/analysis/utility_targeting.py"
    run_control(ctx, "C12/parallel-branches-merged", analyse, p.root, d, "candidate_id = id(candidate)", "candidate_id = (candidate.zone, candidate.name)", "DEDUP-ID", count=2)
    run_control(ctx, "C12/translated-zero-target", analyse, p.root, d, "if t_target is None or", "if not t_target or", "TRUTHY")
    run_control(ctx, "C12/translated-below-zero-target", analyse, p.root, d, "if t_target is None or t_target == utility.t_supply:",
                "if t_target is None or t_target <= 0 or t_target == utility.t_supply:", "ZERO-CMP")
    run_control(ctx, "C12/cold-side-wraps", analyse, p.root, ut, "start_row = max(pinch_row - 1, 0)", "start_row = pinch_row - 1", "WRAP")
    run_control(ctx, "C12/iter-without-ensure-sorted", analyse, p.root, sc, "    def __iter__(self):\n        self._ensure_sorted()\n", "    def __iter__(self):\n", "MEMO-M2")

"""COLDEF - problem-table columns are written before they are read on every option path (C14, C05).

ProblemTable creates every column as NaN; a column counts as *defined* once some statement has stored values into it.
Must-write summaries (intersection over paths) are computed for every function with a table parameter or a table result;
the integration entry functions are then explored with each assignment of the option flags they test, and every
`X.col[K]` read must find K defined on that path.  Multi-column slices `X[[...]]` (graph payloads) are not reads."""
from __future__ import annotations

import ast
import itertools
from typing import Dict, FrozenSet, List, Optional, Set, Tuple

from ..core.flow import Flow
from ..core.model import AnalysisError, ClassInfo, FuncInfo, Program
from ..core.report import CheckContext, norm_stmt
from ..core.resolve import Resolver, body_nodes
from .tables import label_of


class ColEngine:
    def __init__(self, p: Program, r: Resolver):
        self.p, self.r = p, r
        self.pt = p.find_class("ProblemTable")
        self.lab = p.find_class("ProblemTableLabel")
        if self.pt is None or self.lab is None:
            raise AnalysisError("ProblemTable / ProblemTableLabel not found")
        self.all_cols = frozenset(self.lab.class_attrs)
        self.summ: Dict[tuple, dict] = {}
        self._active: Set[tuple] = set()

    def table_params(self, f: FuncInfo) -> List[str]:
        out = []
        for a in f.params:
            if self.r.class_from_annotation(f.module, a.annotation, f) is self.pt:
                out.append(a.arg)
        return out

    def summarise(self, f: FuncInfo, known: Optional[Dict[str, object]] = None, depth: int = 0):
        """summary of f under a context: known = {param: True | False | 'none' | 'notnone'}"""
        known = {k: v for k, v in (known or {}).items() if k in {a.arg for a in f.params}}
        key = (f, frozenset(known.items()))
        if key in self.summ:
            return self.summ[key]
        if key in self._active or depth > 8 or isinstance(f.node, ast.Lambda):
            return {"must_write": {}, "ret_top": True, "may_top": {a.arg: True for a in f.params}, "ret_table": None, "ret_keys": None, "ret_param": None}
        self._active.add(key)
        fl = _ColFlow(self, f, flags=dict(known), record=None, depth=depth)
        init = {"tabs": {a: frozenset() for a in self.table_params(f)}, "dicts": {}, "top": set()}
        fl.run(f.node, init)
        exits = fl.exit_states
        mw = {}
        for a in self.table_params(f):
            sets = [s["tabs"].get(a, frozenset()) for s in exits]
            mw[a] = frozenset.intersection(*sets) if sets else frozenset()
        mb = {}
        for a in self.table_params(f):
            sets = [s["tabs"].get(a, frozenset()) for s in exits]
            mb[a] = (frozenset.union(*sets) - mw[a] if sets else frozenset()) | frozenset().union(*[s.get("maybe", {}).get(a, frozenset()) for s in exits])
        rp = set(fl.ret_params)
        rparam = (rp.pop() if len(rp) == 1 and len(fl.ret_params) == fl.n_returns else None)
        if rparam == "<new>":
            rparam = None
        res = {"must_write": mw, "ret_top": fl.ret_top, "may_top": {a: any(a in st_.get("top", ()) for st_ in exits) for a in self.table_params(f)},
               "ret_table": frozenset.intersection(*fl.ret_tables) if fl.ret_tables and len(fl.ret_tables) == fl.n_returns else None,
               "ret_keys": frozenset.intersection(*fl.ret_dicts) if fl.ret_dicts and len(fl.ret_dicts) == fl.n_returns else None,
               "ret_param": rparam, "maybe_write": mb,
               "ret_maybe": (frozenset.union(*fl.ret_tables) if fl.ret_tables else frozenset()) | frozenset().union(*fl.ret_maybes)}
        self._active.discard(key)
        self.summ[key] = res
        return res

    def call_context(self, caller_flow: "_ColFlow", callee: FuncInfo, call: ast.Call, s) -> Dict[str, object]:
        """what is known about the callee's parameters at this call: boolean constants, None / not-None"""
        pos = callee.pos_params
        off = 1 if (isinstance(call.func, ast.Attribute) and callee.cls is not None and callee.parent is None and not callee.is_static) else 0
        given: Dict[str, ast.AST] = {}
        for i, a in enumerate(call.args):
            if i + off < len(pos):
                given[pos[i + off]] = a
        for k in call.keywords:
            if k.arg:
                given[k.arg] = k.value
        known: Dict[str, object] = {}
        for a in callee.params:
            e = given.get(a.arg, callee.default_of(a.arg))
            if e is None:
                continue
            if isinstance(e, ast.Constant):
                if isinstance(e.value, bool):
                    known[a.arg] = e.value
                elif e.value is None:
                    known[a.arg] = "none"
                else:
                    known[a.arg] = "notnone"
            elif caller_flow.col(e) is not None:
                known[a.arg] = ("label", caller_flow.col(e))      # a column label handed down as an argument
            elif isinstance(e, ast.Name):
                v = caller_flow.flags.get(e.id)
                if v is not None:
                    known[a.arg] = v
                elif e.id in s["tabs"]:
                    known[a.arg] = "notnone"
            elif isinstance(e, ast.Attribute) and e.attr in caller_flow.flags:
                known[a.arg] = caller_flow.flags[e.attr]
            elif isinstance(e, (ast.Subscript, ast.Call, ast.BinOp, ast.List, ast.Dict, ast.Tuple)):
                known[a.arg] = "notnone"
        return known


class _ColFlow(Flow):
    def __init__(self, eng: ColEngine, f: FuncInfo, flags: Dict[str, bool], record, depth: int = 0):
        self.eng, self.f, self.flags, self.record, self.depth = eng, f, flags, record, depth
        self.exit_states: List[dict] = []
        self.ret_tables: List[FrozenSet[str]] = []
        self.ret_dicts: List[FrozenSet[str]] = []
        self.ret_params: List[str] = []
        self.n_returns = 0
        self.ret_top = False
        self.ret_maybes: List[FrozenSet[str]] = []

    def copy(self, s):
        return {"tabs": dict(s["tabs"]), "dicts": dict(s["dicts"]), "top": set(s.get("top", ())), "acc": dict(s.get("acc", {})),
                "maybe": dict(s.get("maybe", {})), "bools": dict(s.get("bools", {}))}

    def join(self, a, b):
        return {"tabs": {k: a["tabs"][k] & b["tabs"][k] for k in set(a["tabs"]) & set(b["tabs"])},
                "dicts": {k: a["dicts"][k] & b["dicts"][k] for k in set(a["dicts"]) & set(b["dicts"])},
                "top": set(a.get("top", ())) | set(b.get("top", ())),
                "acc": {k: v for k, v in a.get("acc", {}).items() if b.get("acc", {}).get(k) == v},
                # columns written on one side only of a test this analysis cannot decide: a later read of such a column is UNDECIDED (the code may
                # well read it under the same condition), never an alarm
                "maybe": {k: a.get("maybe", {}).get(k, frozenset()) | b.get("maybe", {}).get(k, frozenset()) | (a["tabs"][k] ^ b["tabs"][k])
                          for k in set(a["tabs"]) & set(b["tabs"])},
                "bools": {k: v for k, v in a.get("bools", {}).items() if b.get("bools", {}).get(k) == v}}

    def equal(self, a, b):
        return a["tabs"] == b["tabs"] and a["dicts"] == b["dicts"] and set(a.get("top", ())) == set(b.get("top", ())) \
            and a.get("maybe", {}) == b.get("maybe", {})

    def escapes(self, node: ast.AST, s):
        """table variables that occur in `node` in a position whose effect on the table is not modelled (alias, container element, argument of an
        unresolved callee or constructor, ...): from then on the table may hold columns this analysis has not seen being written"""
        parent = {}
        for x in ast.walk(node):
            for ch in ast.iter_child_nodes(x):
                parent[id(ch)] = x
        for x in ast.walk(node):
            if not (isinstance(x, ast.Name) and isinstance(x.ctx, ast.Load) and x.id in s["tabs"]):
                continue
            par = parent.get(id(x))
            if par is None:
                if isinstance(node, ast.Name):
                    s["top"].add(x.id)            # bare alias  y = pt
                continue
            if isinstance(par, ast.Attribute) and par.value is x:
                if par.attr in ("col", "loc", "iloc"):
                    gp = parent.get(id(par))
                    if not (isinstance(gp, ast.Subscript) and gp.value is par) and not (gp is None and par is node):
                        s["top"].add(x.id)        # the accessor itself is handed on
                continue                          # pt.col[...] / pt.loc[...] / pt.update / a ProblemTable method
            if isinstance(par, (ast.Return, ast.Compare)):
                continue
            if isinstance(par, ast.Subscript) and par.value is x:
                continue                          # pt[[...]] / pt[label]: a read (slice copy) of the table
            if isinstance(par, ast.Tuple) and isinstance(parent.get(id(par)), ast.Return):
                continue
            if isinstance(par, ast.Call) and (x in par.args or any(k.value is x for k in par.keywords)):
                if isinstance(par.func, ast.Name) and par.func.id in ("isinstance", "len", "print", "id", "type", "repr", "str"):
                    continue
                tg = [t for t in self.eng.r.resolve_call(self.f, par)]
                if tg and all(isinstance(t, FuncInfo) and not isinstance(t.node, ast.Lambda) for t in tg):
                    continue                      # summarised callee
            if isinstance(par, ast.keyword):
                call = parent.get(id(par))
                if isinstance(call, ast.Call):
                    tg = [t for t in self.eng.r.resolve_call(self.f, call)]
                    if tg and all(isinstance(t, FuncInfo) and not isinstance(t.node, ast.Lambda) for t in tg):
                        continue
            s["top"].add(x.id)

    # ---------------------------------------------------------------- helpers
    def col(self, e: ast.AST) -> Optional[str]:
        if isinstance(e, ast.Name):
            v = self.flags.get(e.id)
            if isinstance(v, tuple) and v[0] == "label":
                return v[1]
        return label_of(self.eng.r, self.f, self.f.module, e, self.eng.lab)

    def flag_value(self, t: ast.AST, s=None) -> Optional[bool]:
        if isinstance(t, ast.Attribute) and t.attr in self.flags and isinstance(self.flags[t.attr], bool):
            return self.flags[t.attr]
        if isinstance(t, ast.Name) and isinstance(self.flags.get(t.id), bool):
            return self.flags[t.id]
        if isinstance(t, ast.Name) and s is not None and t.id in s.get("bools", {}):
            return s["bools"][t.id]
        if isinstance(t, ast.Compare) and len(t.ops) == 1 and isinstance(t.left, ast.Name) and isinstance(t.comparators[0], ast.Constant) \
                and t.comparators[0].value is None and isinstance(t.ops[0], (ast.Is, ast.IsNot)):
            v = self.flags.get(t.left.id)
            if v in ("none", "notnone"):
                return (v == "none") == isinstance(t.ops[0], ast.Is)
            if isinstance(v, bool):
                return isinstance(t.ops[0], ast.IsNot)
        if isinstance(t, ast.Call) and isinstance(t.func, ast.Name) and t.func.id == "isinstance" and len(t.args) == 2 and isinstance(t.args[0], ast.Name):
            b = self.eng.r.resolve_static(self.f, self.f.module, t.args[1]) if isinstance(t.args[1], (ast.Name, ast.Attribute)) else None
            if b is not None and b.kind == "class" and b.target is self.eng.pt:
                v = self.flags.get(t.args[0].id)
                if v == "notnone" and t.args[0].id in self.eng.table_params(self.f):
                    return True
                if v == "none":
                    return False
        if isinstance(t, ast.Constant) and isinstance(t.value, (bool, int)):
            return bool(t.value)
        if isinstance(t, ast.UnaryOp) and isinstance(t.op, ast.Not):
            v = self.flag_value(t.operand, s)
            return None if v is None else not v
        if isinstance(t, ast.BoolOp):
            vs = [self.flag_value(v, s) for v in t.values]
            if isinstance(t.op, ast.Or):
                if any(v is True for v in vs):
                    return True
                if all(v is False for v in vs):
                    return False
            else:
                if any(v is False for v in vs):
                    return False
                if all(v is True for v in vs):
                    return True
        return None

    def dict_keys(self, e: ast.AST, s) -> Optional[FrozenSet[str]]:
        """columns certainly present in a dict-valued expression"""
        if isinstance(e, ast.Dict):
            ks = set()
            for k in e.keys:
                c = self.col(k) if k is not None else None
                if c:
                    ks.add(c)
            return frozenset(ks)
        if isinstance(e, ast.Name):
            return s["dicts"].get(e.id)
        if isinstance(e, ast.IfExp):
            a, b = self.dict_keys(e.body, s), self.dict_keys(e.orelse, s)
            fv = self.flag_value(e.test, s)
            if fv is True:
                return a
            if fv is False:
                return b
            return (a & b) if a is not None and b is not None else None
        if isinstance(e, ast.Call):
            out = None
            for t in self.eng.r.resolve_call(self.f, e):
                if isinstance(t, FuncInfo) and not isinstance(t.node, ast.Lambda):
                    sm = self.eng.summarise(t, self.eng.call_context(self, t, e, s), self.depth + 1)
                    k = sm["ret_keys"]
                    if k is not None:
                        out = k if out is None else (out & k)
            return out
        return None

    def table_expr(self, e: ast.AST, s) -> Optional[FrozenSet[str]]:
        """columns certainly written in the table denoted by e (None: not a table)"""
        if isinstance(e, ast.Name) and e.id in s["tabs"]:
            return s["tabs"][e.id]
        if isinstance(e, ast.Call):
            out = None
            for tg in self.eng.r.resolve_call(self.f, e):
                cand = None
                if isinstance(tg, ClassInfo) and tg is self.eng.pt:
                    d = e.args[0] if e.args else next((k.value for k in e.keywords if k.arg == "data_input"), None)
                    ks = self.dict_keys(d, s) if d is not None else None
                    cand = ks or frozenset()
                elif isinstance(tg, FuncInfo) and not isinstance(tg.node, ast.Lambda):
                    sm = self.eng.summarise(tg, self.eng.call_context(self, tg, e, s), self.depth + 1)
                    rt = sm["ret_table"]
                    rp = sm["ret_param"]
                    if rp is not None:
                        pos = tg.pos_params
                        off = 1 if (isinstance(e.func, ast.Attribute) and tg.cls is not None and tg.parent is None and not tg.is_static) else 0
                        arg = None
                        if rp in pos and pos.index(rp) - off < len(e.args) and pos.index(rp) - off >= 0:
                            arg = e.args[pos.index(rp) - off]
                        for k in e.keywords:
                            if k.arg == rp:
                                arg = k.value
                        base = self.table_expr(arg, s) if arg is not None else None
                        if base is not None:
                            cand = base | sm["must_write"].get(rp, frozenset())
                    elif rt is not None:
                        cand = rt
                if cand is not None:
                    out = cand if out is None else (out & cand)
            return out
        return None

    def _call_ret_top(self, e: ast.AST, s) -> bool:
        """does the table produced by this call possibly hold columns the analysis has not seen being written?"""
        if not isinstance(e, ast.Call):
            return False
        for tg in self.eng.r.resolve_call(self.f, e):
            if isinstance(tg, FuncInfo) and not isinstance(tg.node, ast.Lambda):
                sm = self.eng.summarise(tg, self.eng.call_context(self, tg, e, s), self.depth + 1)
                if sm.get("ret_top"):
                    return True
                rp = sm.get("ret_param")
                if rp is not None and sm.get("may_top", {}).get(rp):
                    return True
        return False

    def _call_ret_maybe(self, e: ast.AST, s) -> FrozenSet[str]:
        """columns the table produced by this call holds on some paths only"""
        out: FrozenSet[str] = frozenset()
        if isinstance(e, ast.Name):
            return s.get("maybe", {}).get(e.id, frozenset())
        if not isinstance(e, ast.Call):
            return out
        for tg in self.eng.r.resolve_call(self.f, e):
            if isinstance(tg, FuncInfo) and not isinstance(tg.node, ast.Lambda):
                sm = self.eng.summarise(tg, self.eng.call_context(self, tg, e, s), self.depth + 1)
                out |= sm.get("ret_maybe", frozenset())
                rp = sm.get("ret_param")
                if rp is not None:
                    out |= sm.get("maybe_write", {}).get(rp, frozenset())
                    for a in list(e.args) + [k.value for k in e.keywords]:
                        if isinstance(a, ast.Name) and a.id in s["tabs"]:
                            out |= s.get("maybe", {}).get(a.id, frozenset())
        return out

    def table_var(self, e: ast.AST, s) -> Optional[str]:
        return e.id if isinstance(e, ast.Name) and e.id in s["tabs"] else None

    def accessor_table(self, e: ast.AST, s) -> Optional[str]:
        """table behind a column accessor:  X.col / X.loc / X.iloc,  or a local bound to one (`col = pt.col`)"""
        if isinstance(e, ast.Attribute) and e.attr in ("col", "loc", "iloc"):
            return self.table_var(e.value, s)
        if isinstance(e, ast.Name) and e.id in s.get("acc", {}):
            tv = s["acc"][e.id]
            return tv if tv in s["tabs"] else None
        return None

    def reads(self, node: ast.AST, s):
        """check X.col[K] loads in node"""
        if self.record is None:
            return
        for n in ast.walk(node):
            if isinstance(n, ast.Subscript) and isinstance(n.ctx, ast.Load):
                tv = self.accessor_table(n.value, s)
                if tv is None:
                    continue
                keyn = n.slice.elts[1] if isinstance(n.slice, ast.Tuple) and len(n.slice.elts) == 2 else n.slice
                c = self.col(keyn)
                if c is None:
                    continue
                if tv in s.get("top", ()) and c not in s["tabs"][tv]:
                    continue                      # the table went through code this analysis does not model: undecided, not an alarm
                if c not in s["tabs"][tv] and c in s.get("maybe", {}).get(tv, ()):
                    continue                      # written under a condition that could not be decided: undecided
                self.record(self.f, n, tv, c, c in s["tabs"][tv])

    def effects(self, node: ast.AST, s):
        """apply stores / updates / calls contained in a statement or expression"""
        eng = self.eng
        for n in ast.walk(node):
            if isinstance(n, ast.Call):
                fn = n.func
                if isinstance(fn, ast.Attribute) and fn.attr == "fill" and isinstance(fn.value, ast.Subscript) and self.accessor_table(fn.value.value, s):
                    c = self.col(fn.value.slice)
                    tv = self.accessor_table(fn.value.value, s)
                    if c:
                        s["tabs"][tv] = s["tabs"][tv] | {c}
                    else:
                        s["top"].add(tv)
                    continue
                if isinstance(fn, ast.Attribute) and fn.attr == "update" and self.table_var(fn.value, s) and n.args:
                    ks = self.dict_keys(n.args[0], s)
                    tv = self.table_var(fn.value, s)
                    if ks:
                        s["tabs"][tv] = s["tabs"][tv] | ks
                    else:
                        s["top"].add(tv)
                    continue
                if isinstance(fn, ast.Attribute) and fn.attr == "update" and isinstance(fn.value, ast.Name) and fn.value.id in s["dicts"] and n.args:
                    ks = self.dict_keys(n.args[0], s)
                    if ks:
                        s["dicts"][fn.value.id] = s["dicts"][fn.value.id] | ks
                    continue
                for t in eng.r.resolve_call(self.f, n):
                    if isinstance(t, FuncInfo) and not isinstance(t.node, ast.Lambda):
                        sm = eng.summarise(t, eng.call_context(self, t, n, s), self.depth + 1)
                        pos = t.pos_params
                        off = 1 if (isinstance(fn, ast.Attribute) and t.cls is not None and t.parent is None and not t.is_static) else 0
                        pairs = [(pos[i + off], a) for i, a in enumerate(n.args) if i + off < len(pos)] + [(k.arg, k.value) for k in n.keywords if k.arg]
                        for pn, a in pairs:
                            tv = self.table_var(a, s)
                            if tv is not None:
                                s["tabs"][tv] = s["tabs"][tv] | sm["must_write"].get(pn, frozenset())
                                if sm.get("may_top", {}).get(pn):
                                    s["top"].add(tv)
                                mb = sm.get("maybe_write", {}).get(pn)
                                if mb:
                                    s.setdefault("maybe", {})[tv] = s.get("maybe", {}).get(tv, frozenset()) | mb

    def transfer(self, st, s):
        if isinstance(st, (ast.FunctionDef, ast.AsyncFunctionDef, ast.ClassDef)):
            cap = {x.id for x in ast.walk(st) if isinstance(x, ast.Name) and x.id in s["tabs"]}
            if cap:
                s = self.copy(s)
                s["top"] |= cap                   # a local helper closes over the table: what is done to the table through it is not modelled
            return s
        s = self.copy(s)
        if isinstance(st, ast.Assign) and len(st.targets) == 1 and isinstance(st.targets[0], ast.Name):
            bv = self.flag_value(st.value, s) if isinstance(st.value, (ast.BoolOp, ast.Compare, ast.UnaryOp, ast.Call)) else None
            if bv is not None:
                s["bools"][st.targets[0].id] = bv
            else:
                s["bools"].pop(st.targets[0].id, None)
        for x in ast.walk(st):
            if isinstance(x, ast.Lambda):
                s["top"] |= {y.id for y in ast.walk(x) if isinstance(y, ast.Name) and y.id in s["tabs"]}
        # view binding:  v = pt.col[K]   /   a, b = col[K1], col[K2]   - the local is a live view of the column and the code may fill the column THROUGH it
        # (v[:] = ..., np.multiply(.., out=v), v.fill(..), v += ..).  Binding is not a read of the contents, and from here on the column counts as written.
        if isinstance(st, ast.Assign) and all(isinstance(t, (ast.Name, ast.Tuple)) for t in st.targets):
            vals = st.value.elts if isinstance(st.value, ast.Tuple) else [st.value]
            if vals and all(isinstance(v, ast.Subscript) and self.accessor_table(v.value, s) and not isinstance(v.slice, ast.Tuple) for v in vals):
                for v in vals:
                    tv = self.accessor_table(v.value, s)
                    c = self.col(v.slice)
                    if c:
                        s["tabs"][tv] = s["tabs"][tv] | {c}
                    else:
                        s["top"].add(tv)
                return s
        self.reads(st.value if isinstance(st, (ast.Assign, ast.AugAssign, ast.AnnAssign, ast.Expr, ast.Return)) and getattr(st, "value", None) is not None else st, s)
        self.effects(st, s)
        if not isinstance(st, ast.Return):
            self.escapes(st.value if isinstance(st, (ast.Assign, ast.AugAssign, ast.AnnAssign, ast.Expr)) and getattr(st, "value", None) is not None else st, s)
        elif st.value is not None and not isinstance(st.value, (ast.Name, ast.Tuple)):
            self.escapes(st.value, s)
        if isinstance(st, (ast.Assign, ast.AugAssign)):
            tgs = st.targets if isinstance(st, ast.Assign) else [st.target]
            for t in tgs:
                # X.col[K] = ... / X.loc[i, K] = ...
                if isinstance(t, (ast.Tuple, ast.List)):
                    # col[a], col[b] = f(...)
                    for t1 in t.elts:
                        if isinstance(t1, ast.Subscript) and self.accessor_table(t1.value, s):
                            tv1 = self.accessor_table(t1.value, s)
                            c1 = self.col(t1.slice) if not isinstance(t1.slice, ast.Tuple) else None
                            if c1:
                                s["tabs"][tv1] = s["tabs"][tv1] | {c1}
                            else:
                                s["top"].add(tv1)
                if isinstance(t, ast.Subscript) and isinstance(t.value, ast.Name) and t.value.id in s["dicts"]:
                    # res[K] = ...   on a tracked result dict
                    c0 = self.col(t.slice)
                    if c0:
                        s["dicts"][t.value.id] = s["dicts"][t.value.id] | {c0}
                    continue
                if isinstance(t, ast.Subscript) and self.accessor_table(t.value, s):
                    tv = self.accessor_table(t.value, s)
                    keyn = t.slice.elts[1] if isinstance(t.slice, ast.Tuple) and len(t.slice.elts) == 2 else t.slice
                    c = self.col(keyn)
                    whole = not isinstance(t.slice, ast.Tuple)
                    if tv and c and whole:
                        s["tabs"][tv] = s["tabs"][tv] | {c}
                    elif tv and c is None:
                        s["top"].add(tv)          # a column chosen at run time (label held in a variable / record field)
                if isinstance(st, ast.Assign) and isinstance(t, ast.Name) and isinstance(st.value, ast.Attribute) and st.value.attr in ("col", "loc", "iloc") \
                        and self.table_var(st.value.value, s):
                    s.setdefault("acc", {})[t.id] = st.value.value.id
                elif isinstance(st, ast.Assign) and isinstance(t, ast.Name) and t.id in s.get("acc", {}):
                    s["acc"].pop(t.id, None)
                if isinstance(st, ast.Assign) and isinstance(t, ast.Name):
                    v = st.value
                    newtab = self.table_expr(v, s) if isinstance(v, ast.Call) else None
                    if newtab is not None:
                        s["tabs"][t.id] = frozenset(newtab)
                        s["top"].discard(t.id)
                        s.setdefault("maybe", {})[t.id] = self._call_ret_maybe(v, s)
                        if self._call_ret_top(v, s):
                            s["top"].add(t.id)
                    else:
                        ks = self.dict_keys(v, s)
                        if ks is not None and not isinstance(v, ast.Name):
                            s["dicts"][t.id] = ks
                elif isinstance(st, ast.Assign) and isinstance(t, (ast.Tuple, ast.List)) and isinstance(st.value, ast.Call):
                    # pt, a, b = f(pt, ...) : a callee returning (table, ...) where the table is its parameter
                    nt = self.table_expr(st.value, s)
                    if nt is not None and t.elts and isinstance(t.elts[0], ast.Name):
                        s["tabs"][t.elts[0].id] = frozenset(nt)
                        s.setdefault("maybe", {})[t.elts[0].id] = self._call_ret_maybe(st.value, s)
                        if self._call_ret_top(st.value, s):
                            s["top"].add(t.elts[0].id)
        if isinstance(st, ast.Return):
            self.n_returns += 1
            v = st.value
            v0 = v.elts[0] if isinstance(v, ast.Tuple) and v.elts else v
            te = self.table_expr(v0, s) if v0 is not None else None
            if te is not None:
                if (isinstance(v0, ast.Name) and v0.id in s.get("top", ())) or self._call_ret_top(v0, s):
                    self.ret_top = True
                self.ret_tables.append(te)
                self.ret_maybes.append(self._call_ret_maybe(v0, s))
                if isinstance(v0, ast.Name) and v0.id in self.eng.table_params(self.f):
                    self.ret_params.append(v0.id)
                else:
                    self.ret_params.append("<new>")
            else:
                ks = self.dict_keys(v, s) if v is not None else None
                if ks is not None:
                    self.ret_dicts.append(ks)
        return s

    def branch(self, test, s):
        s = self.copy(s)
        self.reads(test, s)
        self.effects(test, s)
        self.escapes(test, s)
        fv = self.flag_value(test, s)
        if fv is True:
            return s, None
        if fv is False:
            return None, s
        return s, self.copy(s)

    def bind_loop_target(self, node, s):
        self.reads(node.iter, s)
        self.escapes(node.iter, s)
        return s

    def on_exit(self, kind, node, s):
        if kind != "raise":
            self.exit_states.append(s)


def check_column_definitions(ctx: CheckContext, p: Program, r: Resolver, rule: str = "COLDEF"):
    ctx.rule(rule, "in the integration entry functions every read `table.col[K]` finds column K written on that path, for every assignment of the option flags "
                   "the function tests (must-write summaries of all callees; multi-column graph slices are not reads)")
    eng = ColEngine(p, r)
    roots = []
    for qn in ("OpenPinch.analysis.direct_integration_entry:compute_direct_integration_targets",
               "OpenPinch.analysis.indirect_integration_entry:compute_indirect_integration_targets"):
        f = p.func(qn)
        if f is None:
            raise AnalysisError(f"{qn} not found")
        roots.append(f)
    results: Dict[Tuple[str, str], dict] = {}
    n_paths = 0
    for f in roots:
        flags = sorted({n.attr for n in body_nodes(f) if isinstance(n, ast.Attribute) and n.attr.startswith("DO_") and n.attr.isupper()})
        for combo in itertools.product([False, True], repeat=len(flags)):
            env = dict(zip(flags, combo))
            n_paths += 1

            def record(fn, node, tv, c, ok, env=env):
                k = (fn.qualname, f"{tv}.{c}@{norm_stmt(node)}")
                d = results.setdefault(k, {"ok": True, "fn": fn, "node": node, "envs": [], "tv": tv, "c": c})
                if not ok:
                    d["ok"] = False
                    d["envs"].append(env)
            fl = _ColFlow(eng, f, env, record)
            fl.run(f.node, {"tabs": {}, "dicts": {}, "top": set()})
        ctx.info.setdefault("coldef_flags", {})[f.name] = flags
    ctx.info["coldef_flag_assignments_explored"] = n_paths
    for (q, key), d in sorted(results.items()):
        fn, node = d["fn"], d["node"]
        msg = ""
        if not d["ok"]:
            envs = d["envs"]
            flags = sorted(envs[0])
            always = [k for k in flags if all(e[k] for e in envs)]
            never = [k for k in flags if all(not e[k] for e in envs)]
            cond = ", ".join([f"{k}=True" for k in always] + [f"{k}=False" for k in never]) or "every option combination"
            msg = (f"column {d['c']} of table '{d['tv']}' is read here but no statement on this path has written it "
                   f"(it still holds the NaN it was created with)  [path condition: {cond}]")
        ctx.ob(rule, f"{q}:{key}", f"{fn.module.relpath}:{node.lineno}", d["ok"], msg)
    return len(results)

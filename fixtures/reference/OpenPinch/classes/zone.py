"""Zone data structure capturing nested scopes and their thermal targets."""

from typing import TYPE_CHECKING, Optional

from ..lib.config import *
from ..lib.enums import *
from .stream_collection import StreamCollection
from .energy_target import EnergyTarget

if TYPE_CHECKING:
    from .stream import Stream
    from .zone import Zone


class Zone:
    """Class representing any type of defined spatial zone (i.e., operation,
    process zone, site, region, utility zone) with its energy targets.
    """

    def __init__(
        self,
        name: str = "Zone",
        identifier: str = ZoneType.P.value,
        zone_config: Optional[Configuration] = None,
        parent_zone: "Zone" = None,
    ):
        # === Metadata ===
        self._name = name
        self._identifier = identifier
        self._config = zone_config or Configuration()
        self._parent_zone = parent_zone
        self._active = True
        self._subzones = {}
        self._targets = {}
        self._graphs = {}

        # === Streams & Utilities ===
        self._hot_streams: StreamCollection = StreamCollection()
        self._cold_streams: StreamCollection = StreamCollection()
        self._net_hot_streams: StreamCollection = StreamCollection()
        self._net_cold_streams: StreamCollection = StreamCollection()
        self._hot_utilities: StreamCollection = StreamCollection()
        self._cold_utilities: StreamCollection = StreamCollection()

    # === Properties ===

    @property
    def name(self):
        return self._name

    @name.setter
    def name(self, value):
        self._name = value

    @property
    def identifier(self):
        return self._identifier

    @identifier.setter
    def identifier(self, value):
        self._identifier = value

    @property
    def config(self):
        return self._config

    @config.setter
    def config(self, value):
        self._config = value

    @property
    def parent_zone(self):
        return self._parent_zone

    @parent_zone.setter
    def parent_zone(self, value):
        self._parent_zone = value

    @property
    def active(self) -> bool:
        return bool(self._active)

    @active.setter
    def active(self, value: bool):
        self._active = bool(value)

    @property
    def hot_streams(self):
        return self._hot_streams

    @hot_streams.setter
    def hot_streams(self, data):
        self._hot_streams = data

    @property
    def cold_streams(self):
        return self._cold_streams

    @cold_streams.setter
    def cold_streams(self, data):
        self._cold_streams = data

    @property
    def net_hot_streams(self):
        return self._net_hot_streams

    @net_hot_streams.setter
    def net_hot_streams(self, data):
        self._net_hot_streams = data

    @property
    def net_cold_streams(self):
        return self._net_cold_streams

    @net_cold_streams.setter
    def net_cold_streams(self, data):
        self._net_cold_streams = data

    @property
    def hot_utilities(self):
        return self._hot_utilities

    @hot_utilities.setter
    def hot_utilities(self, data):
        self._hot_utilities = data

    @property
    def cold_utilities(self):
        return self._cold_utilities

    @cold_utilities.setter
    def cold_utilities(self, data):
        self._cold_utilities = data

    @property
    def graphs(self):
        return self._graphs

    @graphs.setter
    def graphs(self, data):
        self._graphs = data

    @property
    def subzones(self):
        return self._subzones

    @property
    def targets(self):
        return self._targets

    @property
    def process_streams(self):
        return self._hot_streams + self._cold_streams

    @property
    def net_process_streams(self):
        return self._net_hot_streams + self._net_cold_streams

    @property
    def utility_streams(self):
        return self._hot_utilities + self._cold_utilities

    @property
    def all_streams(self):
        return self.process_streams + self.utility_streams

    @property
    def all_net_streams(self):
        return self.net_process_streams + self.utility_streams

    # === Methods ===
    def add_graph(self, name: str, result):
        self._graphs[name] = result

    def add_zone(self, zone_to_add, sub: bool = True):
        """Add a single zone object keyed by its name.

        If the zone name already exists:
        - If the zone is identical (e.g. same stream and utility objects), skip.
        - If it's different, add it with a suffix like '_1', '_2', etc.
        """
        base_name = getattr(zone_to_add, "name", None)

        if not isinstance(base_name, str):
            raise ValueError(
                f"Zone must have a string 'name' attribute, got: {type(base_name).__name__}"
            )

        if sub:
            self._add_to_correct_zone_collection(zone_to_add, base_name, self._subzones)
        else:
            self._add_to_correct_zone_collection(zone_to_add, base_name, self._targets)

    def _add_to_correct_zone_collection(self, zone_to_add, base_name, loc):
        existing = loc.get(base_name)
        if existing:
            if self._zone_is_equal(existing, zone_to_add):
                return  # identical, skip adding
            else:
                # Add with counter suffix until unique
                counter = 1
                new_name = f"{base_name}_{counter}"
                while new_name in loc:
                    counter += 1
                    new_name = f"{base_name}_{counter}"
                zone_to_add.name = new_name
                loc[new_name] = zone_to_add
        else:
            loc[base_name] = zone_to_add

    def add_target(self, target_to_add: EnergyTarget):
        """Add one target to a specific zone."""
        self._targets[target_to_add.name] = target_to_add

    def add_targets(self, targets: list):
        """Add multiple targets to a specific zone."""
        for t in targets:
            self.add_target(t)

    def add_target_from_results(self, target_id: str = None, results: dict = None):
        target_name = f"{self.name}/{target_id}" if target_id is not None else self.name
        res = EnergyTarget(target_name, target_id, self.parent_zone, zone_config=self.config)
        for key, value in results.items():
            setattr(res, key, value)
        self.add_target(res)

    def get_subzone(self, loc: str):
        loc_address = loc.split("/")
        zone = self
        for sub in loc_address:
            try:
                zone = zone.subzones[sub]
            except KeyError as exc:
                raise ValueError(f"Subzone '{loc}' not found.") from exc
        return zone

    def calc_utility_cost(self):
        self._utility_cost = sum([u.ut_cost for u in self.utility_streams])
        return self._utility_cost

    def _zone_is_equal(self, zone1: "Zone", zone2: "Zone"):
        """Basic equality check between two zones. Customize as needed."""
        return (
            zone1._hot_streams == zone2._hot_streams
            and zone1._cold_streams == zone2._cold_streams
            and zone1._hot_utilities == zone2._hot_utilities
            and zone1._cold_utilities == zone2._cold_utilities
        )

    def import_hot_and_cold_streams_from_sub_zones(self, get_net_streams: bool = False, is_n_zone_depth: bool = True, is_new_stream_collection: bool = True):
        """Get hot and cold streams from multiple subzones into two separate lists, maintaining references."""
        z: Zone
        s: Stream
        if not get_net_streams:
            if is_new_stream_collection:
                self._hot_streams = StreamCollection()
                self._cold_streams = StreamCollection()
            hs_dst = self._hot_streams 
            cs_dst = self._cold_streams
        else:
            if is_new_stream_collection:
                self._net_hot_streams = StreamCollection()
                self._net_cold_streams = StreamCollection()
            hs_dst = self._net_hot_streams 
            cs_dst = self._net_cold_streams

        for z in self.subzones.values():
            if len(z.subzones) > 0 and is_n_zone_depth:
                z.import_hot_and_cold_streams_from_sub_zones(get_net_streams)

            if not get_net_streams:
                hs_src = z.hot_streams
                cs_src = z.cold_streams
            else:
                hs_src = z.net_hot_streams
                cs_src = z.net_cold_streams

            for s in hs_src:
                key = f"{z.name}.{s.name}"  
                hs_dst.add(s, key)

            for s in cs_src:
                key = f"{z.name}.{s.name}"
                cs_dst.add(s, key)

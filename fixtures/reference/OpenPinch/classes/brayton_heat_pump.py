from __future__ import annotations

import warnings
from typing import Optional, Sequence

import numpy as np

# TESPy imports
from tespy.networks import Network
from tespy.components import (CycleCloser, Compressor, Turbine, SimpleHeatExchanger)
from tespy.connections import Connection

# Local stream API used by the simple heat pump
from .stream import Stream
from .stream_collection import StreamCollection


class SimpleBraytonHeatPumpCycle:
    """Brayton heat pump cycle using TESPy internally.

    Public API mirrors the simple Rankine `HeatPumpCycle` class so the
    object is interchangeable in downstream code.

    Notes
    -----
    - The solver uses the TESPy `Network.solve(mode='design')` call (as
      requested by the user).
    - Pressures are left to TESPy to determine (option A). The user
      provides compressor inlet/outlet temperatures and the heat duty in
      the HTHX (Q_ht). Compressor and turbine isentropic efficiencies
      must be specified.
    - The 4 cycle states are mapped as follows (matching the provided
      Brayton script):
        0: compressor inlet (C1)
        1: compressor outlet (C2)
        2: turbine inlet (C3)
        3: turbine outlet (C4)
    """

    STATECOUNT = 4

    def __init__(self):
        # Keep minimal unit-system compatibility surface (not using CoolProp
        # unit dicts here); the simple heat pump used a PropertyDict. For
        # compatibility we accept the same constructor signature.
        self.refrigerant = None
        self.unit_system = None
        self._Q_heat: Optional[float] = None
        self._Q_cool: Optional[float] = None

        # Results placeholders
        self._m_dot: Optional[float] = None
        self._work_net: Optional[float] = None
        self._solved = False

        # store TESPy network and connections after solve
        self._network: Optional[Network] = None
        self._conns = {}
        self._work: Optional[float] = None

        # simple storage for 4 states: each state will be a dict with keys 'T', 'p', 'h', 's', 'm'
        self._states = [dict(T=None, p=None, h=None, s=None, m=None) for _ in range(self.STATECOUNT)]

    # -- Properties to mimic HeatPumpCycle API -------------------------------------------------
    @property
    def cycle_states(self):
        """Expose a simple state container (list-like) for compatibility similar to a CoolProp state container.
        """
        return self._states

    @property
    def states(self):
        return self.cycle_states

    @property
    def Hs(self) -> Sequence[float]:
        self._require_solution()
        return [s['h'] for s in self._states]

    @property
    def Ts(self) -> Sequence[float]:
        self._require_solution()
        return [s['T'] for s in self._states]

    @property
    def Ps(self) -> Sequence[float]:
        self._require_solution()
        return [s['p'] for s in self._states]

    @property
    def Ss(self) -> Sequence[float]:
        self._require_solution()
        return [s.get('s') for s in self._states]

    @property
    def Q_heat(self) -> Optional[float]:
        return self._Q_heat
    
    @property
    def Q_cool(self) -> Optional[float]:
        return self._Q_cool

    @property
    def work_net(self) -> Optional[float]:
        return self._work_net
    

    # -- Solver API ---------------------------------------------------------------------------
    def solve(
            self,
            T_comp_in: float,
            T_comp_out: float,
            dT_gc: float,
            Q_h_total: float,
            eta_comp: float,
            eta_exp: float,
            is_recuperated: bool,
            refrigerant=None,
    ) -> None:
        """Solve the Brayton cycle using TESPy.

        Parameters
        ----------
        T_comp_in
            Compressor inlet temperature [°C] (T1)
        T_comp_out
            Compressor outlet temperature [°C] (T2)
        dT_gc
            Temperature difference between compressor outlet and turbine inlet:
            dT_gc = T_comp_out - T_turb_in (temperature drop in HTHX)
        Q_h_total
            Total heat duty of the HTHX (positive value for heat delivered to the process) [kW]
        eta_comp
            Compressor isentropic efficiency (fraction, e.g. 0.83)
        eta_exp
            Expander/turbine isentropic efficiency (fraction, e.g. 0.93)
        is_recuperated
            Whether the cycle includes recuperation (currently not implemented)
        refrigerant
            Working fluid name (currently fixed to air composition, not used)
        """
        # Save inputs
        self.refrigerant = refrigerant
        self._Q_heat = Q_h_total
        
        # Note: is_recuperated parameter is not currently implemented
        # Future enhancement: add a recuperator component to the cycle
        if is_recuperated:
            warnings.warn("Recuperated Brayton cycle is not yet implemented. "
                         "Proceeding with simple cycle.", UserWarning)

        # Create TESPy network and components (following original script)
        fluid_list = ['Ar', 'N2', 'CO2', 'O2']
        BraytonHP = Network(fluids=fluid_list)
        BraytonHP.set_attr(T_unit='C', p_unit='bar', h_unit='kJ / kg')

        # components
        FlowStart = CycleCloser('cycle closer')
        Comp = Compressor('compressor')
        Turb = Turbine('turbine')
        HTHX = SimpleHeatExchanger('HTHX')
        LTHX = SimpleHeatExchanger('LTHX')

        # connections (labels match the original script)
        C1 = Connection(FlowStart, 'out1', Comp, 'in1', label='s1')
        C2 = Connection(Comp, 'out1', HTHX, 'in1', label='s2')
        C3 = Connection(HTHX, 'out1', Turb, 'in1', label='s3')
        C4 = Connection(Turb, 'out1', LTHX, 'in1', label='s4')
        C5 = Connection(LTHX, 'out1', FlowStart, 'in1', label='s5')

        # set attributes as in the original script
        C1.set_attr(p=1.013, T=T_comp_in, fluid={"Air": 1})
        C2.set_attr(T=T_comp_out)

        # Set turbine inlet temperature according to dT_gc (= T_comp_out - T_turb_in)
        T_turb_in = T_comp_out - dT_gc
        C3.set_attr(T=T_turb_in)

        Comp.set_attr(eta_s=eta_comp)
        # preserve original sign convention: in the original script HTHX.Q = -x[3]
        HTHX.set_attr(pr=0.993, Q=-Q_h_total) #pr2=0.98, 
        LTHX.set_attr(pr=0.98) # pr2=0.995, ttd_l=10
        Turb.set_attr(eta_s=eta_exp)

        BraytonHP.add_conns(C1, C2, C3, C4, C5) #, C8, C9, C10, C11)
        BraytonHP.set_attr(iterinfo=False)

        # run TESPy design solve (as requested)
        BraytonHP.solve(mode='design', print_results=False)

        # Save network and connections
        self._network = BraytonHP
        self._conns = dict(s1=C1, s2=C2, s3=C3, s4=C4, s5=C5) #, s8=C8, s9=C9, s10=C10, s11=C11)

        try:
            self._states[0]['T'] = C1.T.val  # [°C]
            self._states[0]['p'] = C1.p.val * 1e5  # bar -> Pa
            self._states[0]['h'] = C1.h.val * 1000.0  # kJ/kg -> J/kg
            self._states[0]['m'] = C1.m.val

            self._states[1]['T'] = C2.T.val
            self._states[1]['p'] = C2.p.val * 1e5
            self._states[1]['h'] = C2.h.val * 1000.0
            self._states[1]['m'] = C2.m.val

            self._states[2]['T'] = C3.T.val
            self._states[2]['p'] = C3.p.val * 1e5
            self._states[2]['h'] = C3.h.val * 1000.0
            self._states[2]['m'] = C3.m.val

            self._states[3]['T'] = C4.T.val
            self._states[3]['p'] = C4.p.val * 1e5
            self._states[3]['h'] = C4.h.val * 1000.0
            self._states[3]['m'] = C4.m.val

            self._work_net = Comp.P.val + Turb.P.val  # kW (signed)
            self._m_dot = C1.m.val
            self._Q_cool = LTHX.Q.val

            self._solved = True

        except Exception as e:
            raise RuntimeError(f'Failed to extract results from TESPy network: {e}')

        return self._work_net


    def _build_hthx_profile(self) -> np.ndarray:
        """Build a simple 4-point T-h profile for the HTHX (hot side).

        Points: [superheated inlet (C2), saturated vapor/liquid approximation (not
        applicable for gas Brayton) ... bypassed; we produce a 4-point polyline
        compatible with the Rankine routine]:

        Return shape: (4,2) columns [h (J/kg), T (°C)]
        """
        self._require_solution()
        H = self.Hs
        T = self.Ts
        # create a conservative 4 point: compressor outlet -> (same) -> (same) -> turbine inlet
        profile = np.array([
            [H[1], T[1]],
            # [H[1], T[1]],
            # [H[2], T[2]],
            [H[2], T[2]],
        ], dtype=float)
        return profile


    def _build_lthx_profile(self) -> np.ndarray:
        """Build a 3-point evaporator-style profile for the LTHX (cold side).

        Return shape: (3,2) columns [h (J/kg), T (°C)]
        """
        self._require_solution()
        H = self.Hs
        T = self.Ts
        profile = np.array([
            [H[3], T[3]],
            # [H[3], T[3]],
            [H[0], T[0]],
        ], dtype=float)
        return profile


    def get_hp_th_profiles(self) -> tuple[np.ndarray, np.ndarray]:
        """Return condenser (HTHX) and evaporator (LTHX) T-h profiles."""
        return (self._build_hthx_profile(), self._build_lthx_profile())


    def get_hp_hot_and_cold_streams(self) -> tuple[StreamCollection, StreamCollection]:
        """Return two StreamCollections (hot, cold) similar to HeatPumpCycle.

        Hot = HTHX (compressor outlet -> turbine inlet)
        Cold = LTHX (turbine outlet -> compressor inlet)
        """
        self._require_solution()

        hot_profile = self._build_hthx_profile()
        cold_profile = self._build_lthx_profile()

        def _build_streams(profile: np.ndarray, is_hot: bool) -> StreamCollection:
            sc = StreamCollection()
            # calculate m_dot from TESPy if available
            m_dot = self._m_dot if self._m_dot is not None else 1.0
            for i in range(len(profile) - 1):
                h1, T1 = profile[i]
                h2, T2 = profile[i + 1]
                name = f"Segment_{i + 1}"
                # simple target logic similar to Rankine implementation
                if abs(T1 - T2) < 1e-6:
                    t_target = T2 + (0.001 if not is_hot else -0.001)
                else:
                    t_target = T2
                heat_flow = m_dot * abs(h1 - h2)
                s = Stream(name=name, t_supply=T1, t_target=t_target, heat_flow=heat_flow, is_process_stream=False)
                sc.add(s)
            return sc

        hot_sc = _build_streams(hot_profile, True)
        cold_sc = _build_streams(cold_profile, False)
        return hot_sc, cold_sc


    def build_stream_collection(self, include_cond: bool = False, include_evap: bool = False,
                                is_process_stream: bool = False) -> StreamCollection:

        sc = StreamCollection()
        if include_cond:
            hot, _ = self.get_hp_hot_and_cold_streams()
            sc += hot
        if include_evap:
            _, cold = self.get_hp_hot_and_cold_streams()
            sc += cold
        return sc


    def _require_solution(self) -> None:
        if not self._solved:
            raise RuntimeError('Solve the cycle before accessing results.')
